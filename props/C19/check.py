# C19: written outputs (trajectory file, running average, correlation function) describe the internal
# state at the stated step.
#   tie    : extracted OutputModel (OCaml) vs the rebuilt C++ driven by the engine simulator; the files written
#            in a scratch directory are parsed and compared line by line with the model's lines
#   oracle : on the implementation alone - python recomputation (exact rationals on dyadic inputs) of the set of
#            line steps, field counts against the preceding label line, imposed values, finite-difference
#            velocity, window mean / sample stddev, correlation sums
import os, sys, json, math, re
from fractions import Fraction as Fr
import vcommon as V

PROP = "coq/C19/Properties_C19.v"
EXTRACT = "coq/C19/Extract_C19.v"
DRIVER = "props/C19/driver.ml"
PROGS = {"c19unit": ["props/C19/unit.cpp"]}
RTOL = 1e-12          # printed with 14 digits after the point: relative error 5e-15
OTOL = 1e-11          # oracle (textbook value in exact arithmetic) vs what the implementation printed


def close(a, b, tol=RTOL):
    if isinstance(a, (list, tuple)) or isinstance(b, (list, tuple)):
        if not (isinstance(a, (list, tuple)) and isinstance(b, (list, tuple))) or len(a) != len(b):
            return False
        return all(close(x, y, tol) for x, y in zip(a, b))
    if a != a or b != b:
        return (a != a) and (b != b)
    if math.isinf(a) or math.isinf(b):
        return a == b
    return abs(a - b) <= tol * max(1e-300, abs(a), abs(b)) or abs(a - b) < 1e-290


def hx(x):
    return V.hexf(x)


# ------------------------------------------------------------------ configuration text
VAR_FEATURE = {"value": "output_value", "velocity": "output_velocity", "tforce": "output_total_force",
               "aforce": "output_applied_force"}


def fmtv(x):
    if isinstance(x, (list, tuple)):
        return "(" + ", ".join(repr(float(c)) for c in x) + ")"
    return repr(float(x))


def var_block(v, extra=()):
    i = v["id"]
    L = ["colvar {", "  name v%d" % i]
    if not v.get("value", True):
        L.append("  outputValue off")
    if v.get("velocity"):
        L.append("  outputVelocity on")
    if v.get("tforce"):
        L.append("  outputTotalForce on")
    if v.get("aforce"):
        L.append("  outputAppliedForce on")
    if v.get("extlag"):
        L += ["  extendedLagrangian on", "  extendedFluctuation 0.5", "  extendedTimeConstant 50"]
        if v.get("energy"):
            L.append("  outputEnergy on")
    L += list(extra)
    if v["type"] == "z":
        L += ["  distanceZ {", "    main { atomNumbers %d }" % (2 * i + 1), "    ref { dummyAtom (0,0,0) }",
              "    axis (0,0,1)", "    oneSiteTotalForce on", "  }"]
    else:
        L += ["  distanceVec {", "    group1 { atomNumbers %d }" % (2 * i + 2), "    group2 { atomNumbers %d }" % (2 * i + 1),
              "  }"]
    L.append("}")
    return L


BKW = {"harmonic": "harmonic", "linear": "linear", "walls": "harmonicWalls", "generic": "metadynamics",
       "abmd": "abmd", "alb": "ALB", "histrestraint": "histogramRestraint"}


def bias_block(b):
    L = [BKW[b["kind"]] + " {", "  name b%d" % b["id"], "  colvars " + " ".join("v%d" % i for i in b["vars"])]
    k = b["kind"]
    if k in ("harmonic", "linear"):
        L.append("  centers " + " ".join(fmtv(c) for c in b["c"]))
        L.append("  forceConstant %r" % b["k"])
        if b.get("chgc"):
            L += ["  targetCenters " + " ".join(fmtv(c) for c in b["tc"]), "  targetNumSteps %d" % b["N"]]
        if b.get("chgk"):
            L += ["  targetForceConstant %r" % b["tk"], "  targetNumSteps %d" % b["N"]]
        if b.get("centers"):
            L.append("  outputCenters on")
    elif k == "walls":
        L += ["  lowerWalls " + " ".join(repr(-2.0) for _ in b["vars"]), "  upperWalls " + " ".join(repr(2.0) for _ in b["vars"]),
              "  forceConstant %r" % b["k"]]
        if b.get("chgk"):
            L += ["  targetForceConstant %r" % b["tk"], "  targetNumSteps %d" % b["N"]]
    elif k == "generic":
        L += ["  hillWeight 0.125", "  hillWidth 1.0", "  newHillFrequency 3", "  useGrids off"]
    elif k == "histrestraint":
        L += ["  lowerBoundary -4.0", "  upperBoundary 4.0", "  width 1.0", "  gaussianSigma 1.0",
              "  refHistogram 0.0 0.125 0.25 0.5 0.5 0.25 0.125 0.0", "  forceConstant 1.0"]
    elif k == "abmd":
        L += ["  forceConstant 1.0", "  stoppingValue 6.0"]
    elif k == "alb":
        L += ["  centers " + " ".join(repr(1.5) for _ in b["vars"]), "  UpdateFrequency 6"]
        if b.get("centers"):
            L.append("  outputCenters on")
        if b.get("grad"):
            L.append("  outputGradient on")
        if not b.get("coupling", True):
            L.append("  outputCoupling off")
    if b.get("accw"):
        L.append("  outputAccumulatedWork on")
    if b.get("energy") and k != "abmd":
        L.append("  outputEnergy on")
    L.append("}")
    return L


def heredoc(lines):
    return ["config EOF"] + lines + ["EOF"]


# ------------------------------------------------------------------ model encodings
def enc_var(v):
    return [str(v["id"])] + ["1" if v.get(k, k == "value") else "0" for k in ("value", "velocity", "energy", "tforce", "aforce", "extlag")] + ["0"]


MKIND = {"harmonic": "harmonic", "linear": "linear", "walls": "walls", "generic": "generic", "abmd": "abmd", "alb": "alb",
         "histrestraint": "histrestraint"}


def enc_bias(b):
    coupling = b.get("coupling", True) if b["kind"] == "alb" else False
    return [str(b["id"]), MKIND[b["kind"]], str(len(b["vars"]))] + [str(i) for i in b["vars"]] + \
        ["1" if x else "0" for x in (b.get("energy") and b["kind"] != "abmd", b.get("centers"), b.get("chgc"), b.get("chgk"),
                                     b.get("accw"), coupling, b.get("grad"))]


def enc_cfg(vars_, biases):
    p = [str(len(vars_))]
    for v in vars_:
        p += enc_var(v)
    p.append(str(len(biases)))
    for b in biases:
        p += enc_bias(b)
    return p


# ------------------------------------------------------------------ parsing of what the implementation wrote
class BadToken(float):
    """a token of a data line that is not a number (e.g. two fields run together); behaves as NaN"""
    def __new__(cls, text):
        o = float.__new__(cls, "nan")
        o.text = text
        return o


def tofloat(t):
    try:
        return float(t)
    except ValueError:
        return BadToken(t)


def parse_fields(tokens):
    """data tokens -> list of fields; a parenthesised vector '( a , b , c )' is one field"""
    out = []
    i = 0
    while i < len(tokens):
        t = tokens[i]
        if t == "(":
            vec = []
            i += 1
            while i < len(tokens) and tokens[i] != ")":
                if tokens[i] != ",":
                    vec.append(tofloat(tokens[i]))
                i += 1
            out.append(vec)
        else:
            out.append(tofloat(t))
        i += 1
    return out


def parse_traj(path):
    """-> list of ('L', [names]) / ('D', it, [fields])"""
    out = []
    if not os.path.exists(path):
        return out
    for line in open(path):
        t = line.split()
        if not t:
            continue
        if t[0] == "#":
            out.append(("L", t[2:]))
        else:
            out.append(("D", int(t[0]), parse_fields(t[1:])))
    return out


def parse_numfile(path):
    """runave / corrfunc files: -> (comment lines, [(int, [floats])])"""
    com, rows = [], []
    if not os.path.exists(path):
        return com, rows
    for line in open(path):
        t = line.split()
        if not t:
            continue
        if t[0].startswith("#"):
            com.append(line.rstrip("\n"))
        else:
            rows.append((int(t[0]), [float(x) for x in t[1:]]))
    return com, rows


def hexval(s):
    """'0x1p+0' or '0x1p+0,0x1p+1,..' -> float or list"""
    if "," in s:
        return [float.fromhex(x) for x in s.split(",")]
    return float.fromhex(s)


def parse_dump(lines):
    """impl stdout of one case -> list of calcs: {'it':.., 'v': {name: {...}}, 'b': {name: {...}}, 'border': [names]}"""
    calcs = []
    cur = None
    misc = []
    for l in lines:
        if l.startswith("STEP "):
            cur = {"it": int(l.split()[1]), "v": {}, "b": {}, "border": [], "err": l.split("err=")[1] if "err=" in l else "ok"}
            calcs.append(cur)
        elif l.startswith("IV ") and cur is not None:
            t = l.split()
            d = {}
            for kv in t[2:]:
                k, v = kv.split("=", 1)
                d[k] = int(v) if k == "it" else hexval(v)
            cur["v"][t[1]] = d
        elif l.startswith("IB ") and cur is not None:
            t = l.split()
            d = {}
            for kv in t[2:]:
                k, v = kv.split("=", 1)
                if k == "it":
                    d[k] = int(v)
                elif k in ("bc", "bcoup", "bgrad"):
                    d[k] = [] if v == "-" else [hexval(x) for x in v.split(";")]
                else:
                    d[k] = hexval(v)
            cur["b"][t[1]] = d
            cur["border"].append(t[1])
        else:
            misc.append(l)
    return calcs, misc


# ------------------------------------------------------------------ trajectory cases
def traj_scenario(c, k):
    """scenario lines for c19unit; output prefixes c<k>s<seg>"""
    nat = 2 * len(c["vars"])
    vars_ = [dict(v) for v in c["vars"]]
    biases = [dict(b) for b in c["biases"]]
    freq = c["freq"]

    def conf():
        L = ["colvarsTrajFrequency %d" % freq]
        for v in vars_:
            L += var_block(v)
        for b in biases:
            L += bias_block(b)
        return heredoc(L)
    seg = 0
    L = ["echo CASE %d" % k, "natoms %d" % nat, "temperature 300", "dt %r" % c["dt"], "prefix c%ds%d" % (k, seg)]
    L += ["samestep 0", "includecv 0"] if c.get("lagged") else ["samestep 1", "includecv 1"]
    L.append("new")
    if c["it0"]:
        L.append("setstep %d" % c["it0"])
    L += conf() + ["show atomf 0 cv 0 bias 0 energy 0"]
    for v in c["vars"]:
        if v["type"] == "z" and c.get("eforce"):
            L.append("eforce %d 0 0 %s" % (2 * v["id"] + 1, hx(c["eforce"][v["id"]])))
    for ev in c["events"]:
        if ev[0] == "step":
            for vid, x in ev[1].items():
                vid = int(vid)
                if isinstance(x, (list, tuple)):
                    L.append("pos %d %s %s %s" % (2 * vid + 1, hx(x[0]), hx(x[1]), hx(x[2])))
                else:
                    L.append("pos %d 0 0 %s" % (2 * vid + 1, hx(x)))
            if len(ev) > 2 and ev[2]:
                for vid, f in ev[2].items():
                    L.append("eforce %d 0 0 %s" % (2 * int(vid) + 1, hx(f)))
            L += ["step", "idump"]
        elif ev[0] == "boundary":
            L += ["runboundary"]
        elif ev[0] == "set":
            _, what, oid, feat, on = ev
            if what == "var":
                L.append("script cv colvar v%d set %s %s" % (oid, VAR_FEATURE[feat], "on" if on else "off"))
                for v in vars_:
                    if v["id"] == oid:
                        v[feat] = on
            else:
                L.append("script cv bias b%d set output_accumulated_work %s" % (oid, "on" if on else "off"))
                for b in biases:
                    if b["id"] == oid:
                        b["accw"] = on
        elif ev[0] == "addbias":
            biases.append(dict(ev[1]))
            L += heredoc(bias_block(ev[1]))
        elif ev[0] == "delbias":
            biases = [b for b in biases if b["id"] != ev[1]]
            L.append("script cv bias b%d delete" % ev[1])
        elif ev[0] == "badconfig":
            # rejected: a restraint on a variable that does not exist (the error is expected)
            L += ["echo EXPECTERR"] + heredoc(["harmonic {", "  name bad", "  colvars nosuchvariable", "  centers 0.0", "  forceConstant 1.0", "}"])
        elif ev[0] == "freq":
            freq = ev[1]
            L += heredoc(["colvarsTrajFrequency %d" % freq])
        elif ev[0] == "restart":
            seg += 1
            f = "c%d_%d.state" % (k, seg)
            L += ["flush", "save %s %s" % (c.get("fmt", "text"), f), "prefix c%ds%d" % (k, seg), "fresh"] + conf() + ["load %s" % f]
    L += ["flush", "echo END %d" % k]
    return L


def traj_model_and_expect(c, calcs):
    """Walk the events with the implementation's dumps (one per calc) and produce, per segment:
    the model case line, the list of calc records in order, and python's own expectation of the data steps."""
    vars_ = [dict(v) for v in c["vars"]]
    biases = [dict(b) for b in c["biases"]]
    freq = c["freq"]
    segs = []
    ci = 0
    it = c["it0"]

    def order_at(j):
        # order of the biases vector as the implementation reports it at calc j
        if j < len(calcs):
            names = calcs[j]["border"]
            byname = {"b%d" % b["id"]: b for b in biases}
            if sorted(names) == sorted(byname.keys()):
                return [byname[n] for n in names]
        return list(biases)

    cur = {"freq0": freq, "cfg0": None, "events": [], "calcs": [], "expect_steps": [], "it_restart": it}
    cur["cfg0"] = enc_cfg(vars_, order_at(0))
    if it:
        cur["events"].append(["R", str(it)])
    first = True
    boundary = False
    for ev in c["events"]:
        if ev[0] == "step":
            if first:
                first = False
            elif not boundary:
                it += 1
            boundary = False
            cur["events"].append(["C", str(it)])
            cur["calcs"].append(ci)
            if freq and it % freq == 0:
                cur["expect_steps"].append(it)
            ci += 1
        elif ev[0] == "boundary":
            boundary = True
        elif ev[0] == "set":
            _, what, oid, feat, on = ev
            for o in (vars_ if what == "var" else biases):
                if o["id"] == oid:
                    o[feat if what == "var" else "accw"] = on
            cur["events"].append(["S"] + enc_cfg(vars_, order_at(ci)))
        elif ev[0] == "addbias":
            biases.append(dict(ev[1]))
            cur["events"].append(["G"] + enc_cfg(vars_, order_at(ci)))
        elif ev[0] == "delbias":
            biases = [b for b in biases if b["id"] != ev[1]]
            cur["events"].append(["G"] + enc_cfg(vars_, order_at(ci)))
        elif ev[0] == "badconfig":
            # the rejected bias is created and deleted again: config_changed() is called, the objects are unchanged
            cur["events"].append(["G"] + enc_cfg(vars_, order_at(ci)))
        elif ev[0] == "freq":
            freq = ev[1]
            cur["events"].append(["F", str(freq)])
        elif ev[0] == "restart":
            segs.append(cur)
            cur = {"freq0": freq, "cfg0": enc_cfg(vars_, order_at(ci)), "events": [["R", str(it)]], "calcs": [],
                   "expect_steps": [], "it_restart": it}
            first = True
            boundary = False
    segs.append(cur)
    for s in segs:
        nev = len(s["events"])
        s["line"] = " ".join(["TRAJ", str(s["freq0"])] + s["cfg0"] + [str(nev)] + [" ".join(e) for e in s["events"]])
    return segs


def velocity_on_since(c, vid, j0, j1):
    """the finite-difference velocity of variable vid was being computed at calcs j0..j1 (it is computed only
    while output_velocity is on; switching it on takes effect with one step of delay)"""
    on = [v for v in c["vars"] if v["id"] == vid][0].get("velocity", False)
    j = 0
    ok = True
    for ev in c["events"]:
        if ev[0] == "step":
            if j0 <= j <= j1 and not on:
                ok = False
            j += 1
        elif ev[0] == "set" and ev[1] == "var" and ev[2] == vid and ev[3] == "velocity":
            on = ev[4]
        elif ev[0] == "restart":
            pass
    return ok


def fixed_centres_oracle(run, c, lab, fields, step, replay):
    """a column x0_<name> announced once, for a bias whose centres do not move, holds the configured centre"""
    allb = c["biases"] + [e[1] for e in c["events"] if e[0] == "addbias"]
    for v in c["vars"]:
        nm = "x0_v%d" % v["id"]
        if lab.count(nm) != 1:
            continue
        owners = [b for b in allb if b.get("centers") and v["id"] in b["vars"] and b["kind"] in ("harmonic", "linear", "alb")]
        if len(owners) != 1:
            continue
        b = owners[0]
        if b.get("chgc"):
            # moving centres (C06: centre(t) = c0 + (c1 - c0) min(t - t0, N)/N, t0 the first step of the simulation);
            # only for restraints defined from the start, on scalar variables
            if b not in c["biases"] or v["type"] != "z":
                continue
            i = b["vars"].index(v["id"])
            lam = Fr(min(max(step - c["it0"], 0), b["N"]), b["N"])
            want = float(Fr(b["c"][i]) + (Fr(b["tc"][i]) - Fr(b["c"][i])) * lam)
            got = fields[lab.index(nm)]
            run.dist("oracle:moving-centre")
            if not close(got, want, OTOL):
                run.violation("trajfields:moving-centre", "step %d column %s holds %r, the scheduled centre of bias b%d is %r"
                              % (step, nm, got, b["id"], want), replay)
            continue
        want = 1.5 if b["kind"] == "alb" else b["c"][b["vars"].index(v["id"])]
        want = [float(q) for q in want] if isinstance(want, (list, tuple)) else float(want)
        got = fields[lab.index(nm)]
        run.dist("oracle:centre")
        if not close(got, want, OTOL):
            run.violation("trajfields:centre" + (":alb" if b["kind"] == "alb" else ""),
                          "step %d column %s holds %r, the centre of bias b%d is %r" % (step, nm, got, b["id"], want), replay)


def flag_history(c, vid, feat):
    """value of an output flag of variable vid at each calc"""
    on = [v for v in c["vars"] if v["id"] == vid][0].get(feat, False)
    out = []
    for ev in c["events"]:
        if ev[0] == "step":
            out.append(on)
        elif ev[0] == "set" and ev[1] == "var" and ev[2] == vid and ev[3] == feat:
            on = ev[4]
    return out


def live_biases(c, j):
    """the biases defined when calc j runs"""
    live = [dict(b) for b in c["biases"]]
    n = 0
    for ev in c["events"]:
        if ev[0] == "step":
            if n == j:
                break
            n += 1
        elif ev[0] == "addbias":
            live.append(dict(ev[1]))
        elif ev[0] == "delbias":
            live = [b for b in live if b["id"] != ev[1]]
    return live


def sq(a, b):
    if isinstance(a, (list, tuple)):
        return sum((Fr(x) - Fr(y)) ** 2 for x, y in zip(a, b))
    return (Fr(a) - Fr(b)) ** 2


def forces_energy_oracle(run, c, j, pos, lab, fields, step, replay, efh=None, first_of_segment=False):
    """textbook values of the columns ft_ (the engine's force on the variable), fa_ (sum of the restraint forces)
    and E_ (harmonic energy) where python can compute them: fixed-centre, fixed-k harmonic restraints"""
    live = live_biases(c, j)
    simple = lambda b: b["kind"] == "harmonic" and not b.get("chgc") and not b.get("chgk")
    for v in c["vars"]:
        if v["type"] != "z" or v.get("extlag") or v["id"] not in pos:
            continue
        nm = "v%d" % v["id"]
        if "ft_" + nm in lab and c.get("eforce") and lab.count("ft_" + nm) == 1 and efh is not None:
            got = fields[lab.index("ft_" + nm)]
            if not c.get("lagged"):
                want = float(efh[j][v["id"]])
                run.dist("oracle:total-force")
                if not close(got, want, OTOL):
                    run.violation("trajfields:total-force", "step %d column ft_%s holds %r, the engine's force on the variable is %r"
                                  % (step, nm, got, want), replay)
            elif j > 0 and not first_of_segment and flag_history(c, v["id"], "tforce")[j - 1]:
                # forces delivered one step late (documented for such engines): the line of step t carries the force exerted
                # at the previous evaluation - available only if the total force of this variable was already being
                # calculated at that evaluation (colvar::lagged_total_force_available)
                want = float(efh[j - 1][v["id"]])
                run.dist("oracle:total-force-lagged")
                if not close(got, want, OTOL):
                    run.violation("trajfields:total-force-lagged", "step %d column ft_%s holds %r; with total forces delivered one step "
                                  "late it is the force exerted at the previous evaluation, %r (the force at this step is %r)"
                                  % (step, nm, got, want, float(efh[j][v["id"]])), replay)
            elif j > 0 and not first_of_segment and not any(flag_history(c, v["id"], "tforce")[:j]):
                # the total force was requested just before this evaluation: the engine has not delivered any yet
                run.dist("oracle:total-force-lagged-first")
                if not close(got, 0.0, OTOL):
                    run.violation("trajfields:total-force-lagged-first", "step %d column ft_%s holds %r at the first evaluation after the "
                                  "total force was requested (none can have been delivered)" % (step, nm, got), replay)
        mine = [b for b in live if v["id"] in b["vars"]]
        if "fa_" + nm in lab and lab.count("fa_" + nm) == 1 and all(simple(b) for b in mine):
            want = Fr(0)
            for b in mine:
                want += -Fr(b["k"]) * (Fr(pos[v["id"]]) - Fr(b["c"][b["vars"].index(v["id"])]))
            got = fields[lab.index("fa_" + nm)]
            run.dist("oracle:applied-force")
            if not close(got, float(want), OTOL):
                run.violation("trajfields:applied-force", "step %d column fa_%s holds %r, the restraints apply %r" % (step, nm, got, float(want)), replay)
    for b in live:
        nm = "E_b%d" % b["id"]
        if simple(b) and b.get("energy") and lab.count(nm) == 1 and all(i in pos for i in b["vars"]) \
                and not any([vv for vv in c["vars"] if vv["id"] == i][0].get("extlag") for i in b["vars"]):
            want = Fr(b["k"]) / 2 * sum(sq(pos[i], b["c"][n]) for n, i in enumerate(b["vars"]))
            got = fields[lab.index(nm)]
            run.dist("oracle:bias-energy")
            if not close(got, float(want), OTOL):
                run.violation("trajfields:bias-energy", "step %d column %s holds %r, k/2 |x - c|^2 = %r" % (step, nm, got, float(want)), replay)


# ------------------------------------------------------------------ composition with C06's restraint model
_C06 = {}


def c06_tools():
    """C06's check module (case encoding) and its extracted, proved restraint model"""
    if not _C06:
        import importlib.util
        pth = os.path.join(V.ROOT, "props", "C06", "check.py")
        spec = importlib.util.spec_from_file_location("check_C06_for_C19", pth)
        mod = importlib.util.module_from_spec(spec)
        spec.loader.exec_module(mod)
        _C06["mod"] = mod
        _C06["exe"] = V.extract_model("C06", mod.EXTRACT, mod.DRIVER, ["ocaml/fops.ml"])
    return _C06["mod"], _C06["exe"]


def c06_expectations(c):
    """for every restraint defined from the start on plain scalar variables and not touched by script events:
    per calc index, what C06's model says the energy, centres and accumulated work are.  -> {bias id: [dict per calc]}"""
    elig = []
    touched = set(e[2] for e in c["events"] if e[0] == "set" and e[1] == "bias")
    for b in c["biases"]:
        if b["kind"] not in ("harmonic", "linear", "walls") or b["id"] in touched:
            continue
        vs = [[v for v in c["vars"] if v["id"] == i][0] for i in b["vars"]]
        if any(v["type"] != "z" or v.get("extlag") for v in vs):
            continue
        elig.append(b)
    if not elig:
        return {}
    mod, exe = c06_tools()

    def wallsinit(hl, hu, lk, uk):
        rc, out, err = V.run_lines(exe, ["WALLSINIT %d %d %s %s" % (1 if hl else 0, 1 if hu else 0, hx(lk), hx(uk))])
        t = out[0].split()
        return float.fromhex(t[0]), float.fromhex(t[1]), float.fromhex(t[2])
    lines, owners = [], []
    for b in elig:
        evs = []
        pos = {}
        typ = "S"
        alive = True
        for ev in c["events"]:
            if ev[0] == "step":
                for vid, x in ev[1].items():
                    pos[int(vid)] = x
                evs.append((typ, [pos[i] for i in b["vars"]]))
                typ = "S"
            elif ev[0] == "boundary":
                typ = "B"
            elif ev[0] == "restart":
                typ = "R"
        cc = {"kind": b["kind"], "vars": [{"w": 1.0, "per": False} for _ in b["vars"]], "k": b["k"], "it0": c["it0"], "events": evs,
              "accw": bool(b.get("accw")), "dec": False, "lexp": 1.0, "N": b.get("N", 0), "tk": b.get("tk", 1.0)}
        if b["kind"] == "walls":
            cc.update({"hl": True, "hu": True, "lower": [-2.0] * len(b["vars"]), "upper": [2.0] * len(b["vars"]), "lwk": None,
                       "mode": "kc" if b.get("chgk") else "none"})
        else:
            cc.update({"centers": b["c"], "target_centers": b["tc"], "mode": "cc" if b.get("chgc") else ("kc" if b.get("chgk") else "none")})
        ml, d = mod.model_case(cc, wallsinit)
        lines.append(ml)
        owners.append(b)
    rc, out, err = V.run_lines(exe, lines)
    res = {}
    if rc != 0 or len(out) != len(lines):
        return res
    for b, o in zip(owners, out):
        res[b["id"]] = mod.parse_model_line(o)
    return res


def label_text(name, biasvars):
    """model column name -> text in the file"""
    if name.startswith("ForceConst@"):
        _, b, v = name.split("@")
        return "ForceConst_%d" % biasvars[b].index(v)
    return name


def src_value(src, rec):
    t = src.split(":")
    if t[0] in ("x", "xrep", "vfd", "vrep", "ep", "ek", "ft", "fa"):
        return rec["v"][t[1]][t[0]]
    b = rec["b"][t[1]]
    if t[0] in ("be", "bw", "bref"):
        return b[t[0]]
    # per-variable entries: position of the variable in the bias
    idx = rec["_biasvars"][t[1]].index(t[2])
    return b[t[0]][idx]


def check_traj_case(run, c, k, impl_lines, scratch, model):
    """tie + oracle for one trajectory case; returns number of compared data lines"""
    calcs, misc = parse_dump(impl_lines)
    ncalc = sum(1 for e in c["events"] if e[0] == "step")
    replay = {"kind": "traj", "case": c}
    # a configuration that is expected to be rejected: its error is not a failure of the scenario
    misc2, skip = [], False
    nrej = 0
    for l in misc:
        if l.startswith("echo EXPECTERR"):
            skip = True
            continue
        if skip and l.startswith("CONFIG err="):
            skip = False
            if "err=ok" in l:
                run.mismatch("trajrun", c, l, "the configuration with an unknown variable is rejected")
            nrej += 1
            continue
        misc2.append(l)
    misc = misc2
    if any(l.startswith("LOAD err=") and "err=ok" not in l for l in misc):
        run.dist("traj:skipped-load-error")
        return 0
    if len(calcs) != ncalc or any(cc["err"] != "ok" for cc in calcs) or any(l.startswith("CONFIG err=") and "err=ok" not in l for l in misc) \
            or any(l.startswith("SCRIPT err=") and "err=ok" not in l for l in misc):
        run.mismatch("trajrun", c, [l for l in impl_lines if "err=" in l][:6], "every step and configuration succeeds")
        return 0
    segs = traj_model_and_expect(c, calcs)
    rc, mout, err = V.run_lines(model, [s["line"] for s in segs])
    if rc != 0 or len(mout) != len(segs):
        run.mismatch("trajmodel", c, err[-300:], mout[:2])
        return 0
    # bias -> variable names (for per-variable sources), including biases added later
    biasvars = {}
    for b in c["biases"] + [e[1] for e in c["events"] if e[0] == "addbias"]:
        biasvars["b%d" % b["id"]] = ["v%d" % i for i in b["vars"]]
    ncmp = 0
    if c.get("lagged") and c.get("eforce"):
        # tie of the lagged total-force model: first segment, plain scalar variables
        nfirst = len(segs[0]["calcs"])
        efx = {v["id"]: c["eforce"][v["id"]] for v in c["vars"]}
        efl = []
        for ev in c["events"]:
            if ev[0] == "step":
                if len(ev) > 2 and ev[2]:
                    for vid, f in ev[2].items():
                        efx[int(vid)] = f
                efl.append(dict(efx))
        for v in c["vars"]:
            if v["type"] != "z" or v.get("extlag"):
                continue
            fh = flag_history(c, v["id"], "tforce")
            if not any(fh[:nfirst]):
                continue
            hl = ["%d %d %s" % (calcs[j]["it"] - c["it0"], 1 if fh[j] else 0, hx(efl[j][v["id"]])) for j in range(nfirst)]
            rc3, m3, e3 = V.run_lines(model, ["LFRUN %d %s" % (nfirst, " ".join(hl))])
            if rc3 != 0 or not m3:
                run.mismatch("lagged-model", c, e3[-200:], m3[:1])
                continue
            mft = [float.fromhex(q) for q in m3[0].split()]
            for j in range(nfirst):
                if fh[j]:
                    run.dist("tie:lagged-ft")
                    got = calcs[j]["v"]["v%d" % v["id"]]["ft"]
                    if not close(got, mft[j]):
                        run.mismatch("lagged-ft", c, (calcs[j]["it"], got), (calcs[j]["it"], mft[j]))
                        break
    c06exp = c06_expectations(c)
    deleted_at = {}
    jj = 0
    for ev in c["events"]:
        if ev[0] == "step":
            jj += 1
        elif ev[0] == "delbias":
            deleted_at[ev[1]] = jj
    for si, s in enumerate(segs):
        path = os.path.join(scratch, "c%ds%d.colvars.traj" % (k, si))
        flines = parse_traj(path)
        # ---------------- oracle on the implementation alone
        fsteps = [l[1] for l in flines if l[0] == "D"]
        if fsteps != s["expect_steps"]:
            run.violation("trajschedule:steps", "data lines at steps %s, the multiples of the output frequency among the steps of "
                          "the run are %s (segment %d)" % (fsteps[:20], s["expect_steps"][:20], si), replay)
        lab = None
        for l in flines:
            if l[0] == "L":
                lab = l[1]
            else:
                badt = [q for q in l[2] if isinstance(q, BadToken)] + [q for v_ in l[2] if isinstance(v_, list) for q in v_ if isinstance(q, BadToken)]
                if badt:
                    run.violation("trajfields:not-a-number", "data line of step %d holds the token %r, which is not a number (fields run "
                                  "together?)" % (l[1], badt[0].text), replay)
                if lab is None:
                    run.violation("trajlabels:data-before-label", "data line of step %d precedes every label line" % l[1], replay)
                elif len(l[2]) != len(lab):
                    sig = "trajlabels:field-count"
                    if any(e[0] == "set" for e in c["events"]):
                        sig += ":script-set"
                    run.violation(sig, "data line of step %d has %d fields, the preceding label line announces %d columns %s"
                                  % (l[1], len(l[2]), len(lab), lab), replay)
        # imposed values: the column labelled with the variable's name holds the imposed value of that step
        imposed = {}
        it = None
        for j in s["calcs"]:
            imposed.setdefault(calcs[j]["it"], []).append(j)
        pos = {}
        poshist = []   # per calc index: {vid: value}
        efh = []       # per calc index: {vid: engine force on the variable}
        ef = {v["id"]: c["eforce"][v["id"]] for v in c["vars"]} if c.get("eforce") else {}
        for ev in c["events"]:
            if ev[0] == "step":
                for vid, x in ev[1].items():
                    pos[int(vid)] = x
                poshist.append(dict(pos))
                if len(ev) > 2 and ev[2]:
                    for vid, f in ev[2].items():
                        ef[int(vid)] = f
                efh.append(dict(ef))
        lab = None
        seen = {}
        for l in flines:
            if l[0] == "L":
                lab = l[1]
                continue
            n = seen.get(l[1], 0)
            seen[l[1]] = n + 1
            js = imposed.get(l[1], [])
            if lab is None or len(lab) != len(l[2]) or n >= len(js):
                continue
            j = js[n]
            # written restraint columns against C06's proved model of the restraint at this evaluation
            for bid, outs in c06exp.items():
                if j >= len(outs) or j >= deleted_at.get(bid, 10 ** 9):
                    continue
                b = [bb for bb in c["biases"] if bb["id"] == bid][0]
                o = outs[j]
                chk = []
                if "E_b%d" % bid in lab and lab.count("E_b%d" % bid) == 1:
                    chk.append(("E_b%d" % bid, o["E"]))
                if "W_b%d" % bid in lab and lab.count("W_b%d" % bid) == 1:
                    chk.append(("W_b%d" % bid, o["W"]))
                if b.get("centers") and b["kind"] != "walls":
                    for n_, i in enumerate(b["vars"]):
                        if lab.count("x0_v%d" % i) == 1 and sum(1 for bb in live_biases(c, j) if bb.get("centers") and i in bb["vars"]) == 1:
                            chk.append(("x0_v%d" % i, o["C"][n_]))
                for col, want in chk:
                    got = l[2][lab.index(col)]
                    run.dist("oracle:c06-model:" + col.split("_")[0])
                    if not close(got, want, 1e-11):
                        run.violation("trajfields:restraint-model:" + col.split("_")[0], "step %d column %s holds %r, the restraint model "
                                      "(C06) of bias b%d has %r at that evaluation" % (l[1], col, got, bid, want), replay)
            fixed_centres_oracle(run, c, lab, l[2], l[1], replay)
            forces_energy_oracle(run, c, j, poshist[j], lab, l[2], l[1], replay, efh, l[1] == s["it_restart"])
            for v in c["vars"]:
                nm = "v%d" % v["id"]
                if nm in lab and v["id"] in poshist[j]:
                    got = l[2][lab.index(nm)]
                    want = poshist[j][v["id"]]
                    want = [float(q) for q in want] if isinstance(want, (list, tuple)) else float(want)
                    run.dist("oracle:value")
                    if not close(got, want, OTOL):
                        run.violation("trajfields:value", "step %d column %s holds %r, the variable's value at that step is %r" % (l[1], nm, got, want), replay)
                vn = "v_" + nm
                # velocity: backward difference, defined when the previous calc was the previous step
                jp = [q for q in s["calcs"] if q < j and calcs[q]["it"] == l[1] - 1]
                if vn in lab and v["type"] == "z" and not v.get("extlag") and jp and l[1] != s["it_restart"] \
                        and v["id"] in poshist[j] and v["id"] in poshist[jp[-1]] and velocity_on_since(c, v["id"], jp[-1], j):
                    want = float((Fr(poshist[j][v["id"]]) - Fr(poshist[jp[-1]][v["id"]])) / Fr(c["dt"]))
                    got = l[2][lab.index(vn)]
                    run.dist("oracle:velocity")
                    if not close(got, want, OTOL):
                        run.violation("trajfields:velocity", "step %d column %s holds %r, (x(t)-x(t-1))/dt = %r" % (l[1], vn, got, want), replay)
        # ---------------- tie with the model
        mlines = []
        for part in mout[si].split(" ; "):
            t = part.split()
            if not t:
                continue
            if t[0] == "L":
                mlines.append(("L", [label_text(n, biasvars) for n in t[1:]]))
            else:
                mlines.append(("D", int(t[1]), t[2:]))
        shape_i = [(l[0], l[1] if l[0] == "D" else tuple(l[1])) for l in flines]
        shape_m = [(l[0], l[1] if l[0] == "D" else tuple(l[1])) for l in mlines]
        if shape_i != shape_m:
            comp = "trajlines"
            if [x for x in shape_i if x[0] == "D"] != [x for x in shape_m if x[0] == "D"]:
                comp = "trajschedule"
            elif [x for x in shape_i if x[0] == "L"] != [x for x in shape_m if x[0] == "L"]:
                comp = "trajlabels"
            run.mismatch(comp, c, shape_i[:12], shape_m[:12])
            continue
        seen = {}
        for fl, ml in zip(flines, mlines):
            if fl[0] != "D":
                continue
            n = seen.get(fl[1], 0)
            seen[fl[1]] = n + 1
            js = imposed.get(fl[1], [])
            if n >= len(js):
                run.mismatch("trajschedule", c, "data line %d #%d" % (fl[1], n), "no such calc")
                continue
            rec = dict(calcs[js[n]])
            rec["_biasvars"] = biasvars
            if len(fl[2]) != len(ml[2]):
                run.mismatch("trajfields", c, "step %d: %d fields" % (fl[1], len(fl[2])), "%d fields %s" % (len(ml[2]), ml[2]))
                continue
            for got, src in zip(fl[2], ml[2]):
                try:
                    want = src_value(src, rec)
                except Exception as e:
                    run.mismatch("trajfields", c, "step %d field %s" % (fl[1], src), "not in the dump (%s)" % e)
                    continue
                ncmp += 1
                if not close(got, want):
                    run.mismatch("trajfields", c, "step %d field %s = %r" % (fl[1], src, got), "internal value %r" % (want,))
    return ncmp


BIG_STEPS = [2 ** 31 - 3, 2 ** 31, 2 ** 32 - 2, 2 ** 32 + 5, 2 ** 53 - 1, 2 ** 53 + 2, 2 ** 62 - 4000]      # (the OCaml driver reads 63-bit integers)


def big_step(r, freq=1):
    """a first step around 2^31, 2^32, 2^53, 2^62, sometimes moved onto a multiple of freq"""
    b = r.choice(BIG_STEPS)
    return b - (b % freq) if r.random() < 0.5 else b


def gen_traj_case(r, tier):
    nv = r.choice([1, 1, 2, 2, 3])
    vars_ = []
    for i in range(nv):
        ty = "vec" if (i > 0 and r.random() < 0.3) else "z"
        v = {"id": i, "type": ty, "value": r.random() < 0.85, "velocity": r.random() < 0.4,
             "tforce": ty == "z" and r.random() < 0.3, "aforce": r.random() < 0.4, "extlag": False, "energy": False}
        if ty == "z" and r.random() < 0.25:
            v["extlag"] = True
            v["energy"] = r.random() < 0.5
        vars_.append(v)
    zvars = [v["id"] for v in vars_ if v["type"] == "z" and not v["extlag"]]

    def mkbias(bid):
        kinds = ["harmonic", "harmonic", "linear", "walls", "generic", "abmd", "alb", "histrestraint"]
        kd = r.choice(kinds)
        b = {"id": bid, "kind": kd, "energy": r.random() < 0.7}
        if kd in ("harmonic", "linear"):
            nvb = r.choice([1, 1, 2]) if kd == "harmonic" else 1
            cand = [v["id"] for v in vars_] if kd == "harmonic" else [v["id"] for v in vars_ if v["type"] == "z"]
            if not cand:
                return None
            b["vars"] = sorted(r.sample(cand, min(nvb, len(cand))))
            b["c"] = []
            b["tc"] = []
            for i in b["vars"]:
                if vars_[i]["type"] == "z":
                    b["c"].append(V.dyadic(r, -2, 2, 2))
                    b["tc"].append(V.dyadic(r, -2, 2, 2))
                else:
                    b["c"].append([V.dyadic(r, -2, 2, 2) for _ in range(3)])
                    b["tc"].append([V.dyadic(r, -2, 2, 2) for _ in range(3)])
            b["k"] = r.choice([0.5, 1.0, 2.0])
            b["centers"] = r.random() < 0.5
            m = r.choice(["none", "none", "c", "k"])
            b["chgc"] = m == "c"
            b["chgk"] = m == "k"
            b["tk"] = r.choice([1.0, 4.0])
            b["N"] = r.choice([4, 8, 16])
            b["accw"] = (m != "none") and r.random() < 0.7
        elif kd == "walls":
            cand = [v["id"] for v in vars_ if v["type"] == "z"]
            if not cand:
                return None
            b["vars"] = [r.choice(cand)]
            b["k"] = r.choice([1.0, 2.0])
            b["chgk"] = r.random() < 0.5
            b["tk"] = 4.0
            b["N"] = r.choice([4, 8])
            b["accw"] = b["chgk"] and r.random() < 0.7
        elif kd in ("generic", "abmd", "alb", "histrestraint"):
            cand = [v["id"] for v in vars_ if v["type"] == "z"]
            if not cand:
                return None
            b["vars"] = [r.choice(cand)]
            if kd == "alb":
                b["centers"] = r.random() < 0.6
                b["grad"] = r.random() < 0.6
                b["coupling"] = r.random() < 0.7
        return b
    biases = []
    nb = r.choice([0, 1, 1, 2, 3])
    bid = 0
    for _ in range(nb):
        b = mkbias(bid)
        if b:
            biases.append(b)
            bid += 1
    freq = r.choice([1, 1, 2, 2, 3, 4, 5, 6, 7, 12])
    it0 = r.choice([0, 0, freq * r.randint(1, 5), freq * r.randint(1, 5) + 1, 1000 * freq - r.randint(0, 4), r.randint(1, 40), big_step(r, freq)])
    dt = r.choice([0.5, 1.0, 2.0])
    nsteps = r.randint(5, 12) if tier == "quick" else r.randint(5, 30)
    events = []

    def newpos():
        d = {}
        for v in vars_:
            if v["type"] == "z":
                d[str(v["id"])] = V.dyadic(r, -4, 4, 3)
            else:
                d[str(v["id"])] = [V.dyadic(r, -4, 4, 3) for _ in range(3)]
        return d
    _step_append = events.append

    def add_step_forces(e):
        # a new engine force on every scalar variable at every step
        if e[0] == "step" and len(e) == 2:
            e.append({str(v["id"]): r.choice([-1, 1]) * V.dyadic(r, 0.5, 3, 2) for v in vars_ if v["type"] == "z"})
        return e
    events.append(["step", newpos()])
    cur_b = [b["id"] for b in biases]
    allb = list(biases)
    flags = {v["id"]: dict(v) for v in vars_}
    for _ in range(nsteps):
        u = r.random()
        if u < 0.10:
            events.append(["boundary"])
            events.append(["step", events[[i for i, e in enumerate(events) if e[0] == "step"][-1]][1]])
            continue
        if u < 0.20:
            v = r.choice(vars_)
            feats = ["value", "velocity", "aforce"] + (["tforce"] if v["type"] == "z" and not v["extlag"] else [])
            ft = r.choice(feats)
            on = not flags[v["id"]].get(ft, False)
            flags[v["id"]][ft] = on
            events.append(["set", "var", v["id"], ft, on])
        elif u < 0.26:
            b = mkbias(bid)
            if b:
                bid += 1
                cur_b.append(b["id"])
                allb.append(b)
                events.append(["addbias", b])
        elif u < 0.30 and cur_b:
            # deleting the last bias of a variable deactivates the variable (C13 known finding): avoid
            d = r.choice(cur_b)
            others = [bb for bb in allb if bb["id"] in cur_b and bb["id"] != d]
            dv = [bb for bb in allb if bb["id"] == d][0]["vars"]
            if all(any(vv in ob["vars"] for ob in others) for vv in dv):
                cur_b.remove(d)
                events.append(["delbias", d])
            else:
                events.append(["step", newpos()])
                continue
        elif u < 0.33:
            events.append(["badconfig"])
        elif u < 0.36:
            freq2 = r.choice([1, 2, 3, 4, 6, 7])
            events.append(["freq", freq2])
        elif u < 0.42:
            events.append(["restart"])
            events.append(["step", events[[i for i, e in enumerate(events) if e[0] == "step"][-1]][1]])
            continue
        events.append(["step", newpos()])
    eforce = [r.choice([-1, 1]) * V.dyadic(r, 0.5, 3, 2) for _ in vars_]
    if any(bb["kind"] == "alb" for bb in allb):
        # an ALB bias cannot be restarted from a state file (C03 known finding load:alb): no restarts in such cases
        events = [e for e in events if e[0] != "restart"]
    # repeated steps (after a boundary / restart) keep the engine force of the first evaluation
    prev = None
    for e in events:
        if e[0] == "step":
            if prev is not None and e[1] is prev[1]:
                e.append(prev[2])
            else:
                add_step_forces(e)
            prev = e
    return {"kind": "traj", "freq": freq, "it0": it0, "dt": dt, "vars": vars_, "biases": biases, "events": events, "eforce": eforce,
            "lagged": r.random() < 0.3, "fmt": r.choice(["text", "binary"])}


def gen_traj_big(r, tier):
    """numbers wider than the 21-character columns (three-digit exponents, negative) and tiny ones: fields must stay
    separate and parse back to the printed 14 digits"""
    sc = 2.0 ** r.choice([340, -340, 400, 120, -500])
    vars_ = [{"id": i, "type": "z", "value": True, "velocity": r.random() < 0.7, "tforce": r.random() < 0.7, "aforce": True,
              "extlag": False, "energy": False} for i in range(2)]
    biases = [{"id": 0, "kind": "harmonic", "vars": [0, 1], "c": [-0.75 * sc, 1.5 * sc], "tc": [0.0, 0.0], "k": 2.0, "energy": True,
               "centers": True, "chgc": False, "chgk": False, "tk": 1.0, "N": 4, "accw": False}]
    events = []
    for _ in range(r.randint(3, 6)):
        events.append(["step", {"0": -V.dyadic(r, 1, 4, 3) * sc, "1": V.dyadic(r, -4, 4, 3) * sc},
                       {"0": -V.dyadic(r, 1, 3, 2) * sc, "1": V.dyadic(r, 0.5, 3, 2) * sc}])
    return {"kind": "traj", "freq": 1, "it0": r.choice([0, 123456789012]), "dt": r.choice([0.5, 2.0]), "vars": vars_, "biases": biases,
            "events": events, "eforce": [-sc, sc], "lagged": False, "big": True}


# ------------------------------------------------------------------ running average cases
def runave_scenario(c, k):
    v = {"id": 0, "type": "z", "value": True}

    def mkconf(stride, L_=None):
        return heredoc(["colvarsTrajFrequency 1"] + var_block(v, ["  runAve on", "  runAveLength %d" % (L_ or c["L"]), "  runAveStride %d" % stride]))
    conf = mkconf(c["stride"])
    curstride, curL = c["stride"], c["L"]
    seg = 0
    L = ["echo CASE %d" % k, "natoms 2", "temperature 300", "dt 1.0", "prefix c%ds%d" % (k, seg), "new"]
    if c["it0"]:
        L.append("setstep %d" % c["it0"])
    L += conf + ["show atomf 0 cv 0 bias 0 energy 0"]
    for ev in c["events"]:
        if ev[0] == "step":
            L += ["pos 1 0 0 %s" % hx(ev[1]), "step"]
        elif ev[0] == "boundary":
            L.append("runboundary")
        elif ev[0] == "restart":
            seg += 1
            f = "c%d_%d.state" % (k, seg)
            if len(ev) > 1 and ev[1]:
                curstride = ev[1]             # the resumed job uses another stride
            if len(ev) > 2 and ev[2]:
                curL = ev[2]                  # ... or a shorter window
            conf = mkconf(curstride, curL)
            L += ["flush", "save %s %s" % (c.get("fmt", "text"), f), "prefix c%ds%d" % (k, seg), "fresh"] + conf + ["load %s" % f]
    L += ["flush", "echo END %d" % k]
    return L


def segments_of(c, carry=True):
    """-> list of LOGICAL segments, each {it_restart, hist: [(step_rel, it, x)] one entry per calc, files: [process
    segment indices]}.  A new process continues the running-average series of the previous one (the window is part
    of the state) exactly when the state was written at a step whose value was sampled (on the stride grid, after the
    step at which the analysis started); otherwise the analysis starts again at the restart step."""
    segs = []
    it = c["it0"]
    fileno = 0
    cur = {"it_restart": it, "hist": [], "files": [0], "stride": c["stride"], "L": c["L"], "after": None, "known_from": None}
    first, boundary = True, False
    for ev in c["events"]:
        if ev[0] == "step":
            if first:
                first = False
            elif not boundary:
                it += 1
            boundary = False
            cur["hist"].append((it - cur["it_restart"], it, ev[1]))
        elif ev[0] == "boundary":
            boundary = True
        elif ev[0] == "restart":
            fileno += 1
            rel = it - cur["it_restart"]
            t0 = cur["hist"][0][0] if cur["hist"] else None
            newstride = ev[1] if len(ev) > 1 and ev[1] else cur["stride"]
            newL = ev[2] if len(ev) > 2 and ev[2] else cur["L"]
            aligned = carry and cur["L"] > 1 and t0 is not None and rel > t0 and rel % cur["stride"] == 0 and newstride == cur["stride"]
            if aligned and newL == cur["L"]:
                cur["files"].append(fileno)       # same series, next file; the recomputed step is a repeated step
                boundary = True
            elif aligned and newL > 1:
                # another window length: the new job knows the newest L-1 sampled values (those of steps S, S-s, ..) and goes on
                # with the series of an uninterrupted run with the new window, as far as those values reach
                segs.append(cur)
                kf = it - (cur["L"] - 2) * cur["stride"]
                kf = max(kf, cur["it_restart"] + (t0 // cur["stride"] + 1) * cur["stride"], cur["known_from"] or kf)
                cur = {"it_restart": cur["it_restart"], "hist": list(cur["hist"]), "files": [fileno], "stride": newstride, "L": newL,
                       "after": it, "known_from": kf}
                boundary = True
            else:
                segs.append(cur)
                cur = {"it_restart": it, "hist": [], "files": [fileno], "stride": newstride, "L": newL, "after": None, "known_from": None}
                first, boundary = True, False
    segs.append(cur)
    return segs


def dedup(hist):
    """values by relative step (a repeated step carries the same value)"""
    d = {}
    for t, it, x in hist:
        d[t] = x
    return d


def runave_oracle(L, stride, xs, tmax):
    """textbook lines: for every relative step t = m*stride <= tmax with L samples x(t), x(t-stride), .. available
    from relative step `first` on: (t, mean, sample stddev)"""
    out = {}
    for t in range(0, tmax + 1):
        if t % stride:
            continue
        ts = [t - j * stride for j in range(L)]
        if ts[-1] < 0:
            continue
        vals = [Fr(xs[u]) for u in ts]
        m = sum(vals) / L
        var = sum((x - m) ** 2 for x in vals) / (L - 1) if L > 1 else None
        out[t] = (m, var)
    return out


def check_runave_case(run, c, k, impl_lines, scratch, model):
    segs = segments_of(c)
    replay = {"kind": "runave", "case": c}
    lines = ["RUNAVE %d %d %d %d %s" % (s["L"], s["stride"], 0, len(s["hist"]), " ".join("%d %s" % (t, hx(x)) for t, it, x in s["hist"]))
             for s in segs]
    rc, mout, err = V.run_lines(model, lines)
    if rc != 0 or len(mout) != len(segs):
        run.mismatch("runave:model-run", c, err[-300:], mout[:2])
        return 0
    n = 0
    for si, s in enumerate(segs):
        rows = []
        for fno in s["files"]:
            rows += parse_numfile(os.path.join(scratch, "c%ds%d.v0.runave.traj" % (k, fno)))[1]
        xs = dedup(s["hist"])
        tmax = max(xs) if xs else -1
        orc = runave_oracle(s["L"], s["stride"], xs, tmax)
        # ---- oracle: every written line is the window mean / sample stddev at the step it carries
        if rows and s["it_restart"] and [st for st, _ in rows] == [t for t in sorted(orc) if t >= s["L"] * s["stride"]][:len(rows)]:
            run.violation("runave:step-label", "the lines carry the steps %s counted from the last restart (step %d), not the "
                          "steps %s at which the values held" % ([st for st, _ in rows][:6], s["it_restart"],
                                                                  [st + s["it_restart"] for st, _ in rows][:6]), replay)
            rows = [(st + s["it_restart"], vv) for st, vv in rows]
        for step, vals in rows:
            t = step - s["it_restart"]
            if t not in orc:
                run.violation("runave:step", "a line carries step %d (relative %d), where no full window of %d samples with stride %d ends"
                              % (step, t, s["L"], s["stride"]), replay)
                continue
            m, var = orc[t]
            run.dist("oracle:runave-line")
            if not close(vals[0], float(m), OTOL):
                win = [float(xs[t - j * s["stride"]]) for j in range(s["L"])]
                run.violation("runave:mean", "step %d: running average %r, mean of the last %d samples %s is %r"
                              % (step, vals[0], s["L"], win, float(m)), replay)
            elif var is not None and len(vals) > 1 and not close(vals[1], math.sqrt(var), OTOL):
                run.violation("runave:stddev", "step %d: running stddev %r, sample standard deviation of the window is %r"
                              % (step, vals[1], math.sqrt(var)), replay)
        # lines must exist once the window is full (the value of relative step 0 is not sampled: the first
        # full window ends at relative step L*stride)
        want_steps = [t + s["it_restart"] for t in sorted(orc) if t >= s["L"] * s["stride"] and (s["after"] is None or (t + s["it_restart"] > s["after"] and t + s["it_restart"] - (s["L"] - 1) * s["stride"] >= s["known_from"]))]
        got_steps = [st for st, _ in rows]
        if got_steps != want_steps and all((st - s["it_restart"]) in orc for st in got_steps):
            run.violation("runave:lines", "lines at steps %s, full windows end at steps %s" % (got_steps[:12], want_steps[:12]), replay)
        # ---- tie
        mrows = []
        for part in mout[si].split(" ; "):
            t = part.split()
            if t and (s["after"] is None or (int(t[0]) + s["it_restart"] > s["after"]
                                             and int(t[0]) + s["it_restart"] - (s["L"] - 1) * s["stride"] >= s["known_from"])):
                mrows.append((int(t[0]) + s["it_restart"], [float.fromhex(t[1]), float.fromhex(t[3])]))
        if [st for st, _ in rows] != [st for st, _ in mrows]:
            run.mismatch("runave:steps", c, [st for st, _ in rows][:12], [st for st, _ in mrows][:12])
            continue
        for (st, a), (_, b) in zip(rows, mrows):
            n += 1
            if not close(a[0], b[0]):
                run.mismatch("runave:mean", c, (st, a[0]), (st, b[0]))
            elif s["L"] > 1 and not close(a[1], b[1], 1e-10):
                run.mismatch("runave:stddev", c, (st, a[1]), (st, b[1]))
    return n


def gen_runave_case(r, tier):
    L = r.choice([1, 2, 2, 3, 3, 4, 5])
    stride = r.choice([1, 1, 2, 3])
    n = r.randint(L * stride, L * stride * 3 + 4)
    if tier != "quick":
        n += r.randint(0, 30)
    it0 = r.choice([0, 0, r.randint(1, 50), big_step(r, stride)])
    events = [["step", V.dyadic(r, -8, 8, 3)]]
    for _ in range(n):
        u = r.random()
        last = [e for e in events if e[0] == "step"][-1][1]
        if u < 0.08:
            events += [["boundary"], ["step", last]]
        elif u < 0.12:
            events += [["restart", r.choice([None, None, None, 1, 2, 3]), r.choice([None, None, 2, 3, 4])], ["step", last]]
        else:
            events.append(["step", V.dyadic(r, -8, 8, 3)])
    return {"kind": "runave", "L": L, "stride": stride, "it0": it0, "events": events, "fmt": r.choice(["text", "binary"])}



# ------------------------------------------------------------------ running average: any value type, any start
PERIOD = 8.0


def wrapz(x, P=PERIOD):
    return x - math.floor(x / P + 0.5) * P


def vvar_block(vtype, vid, extra=()):
    L = ["colvar {", "  name v%d" % vid] + list(extra)
    a, b = 2 * vid + 1, 2 * vid + 2
    if vtype in ("z", "zper"):
        L += ["  distanceZ {", "    main { atomNumbers %d }" % a, "    ref { dummyAtom (0,0,0) }", "    axis (0,0,1)"]
        if vtype == "zper":
            L += ["    period %r" % PERIOD, "    wrapAround 0.0"]
        L += ["  }"]
    elif vtype == "vec":
        L += ["  distanceVec {", "    group1 { atomNumbers %d }" % b, "    group2 { atomNumbers %d }" % a, "  }"]
    elif vtype == "cart":
        L += ["  cartesian {", "    atoms { atomNumbers %d %d }" % (a, b), "  }"]
    elif vtype == "quat":
        L += ["  orientation {", "    atoms { atomNumbers 5 6 7 8 }", "    refPositions (1.0, 0.0, 0.0) (0.0, 1.0, 0.0) (0.0, 0.0, 1.0) (-1.0, -1.0, -1.0)", "  }"]
    else:
        L += ["  distanceDir {", "    group1 { atomNumbers %d }" % b, "    group2 { atomNumbers %d }" % a, "  }"]
    L.append("}")
    return L


def runavev_scenario(c, k):
    extra = ["  runAve on", "  runAveLength %d" % c["L"], "  runAveStride %d" % c["stride"]]
    dummy = vvar_block("z", 1)
    main = vvar_block(c["vtype"], 0, extra)
    seg = 0
    L = ["echo CASE %d" % k, "natoms 8", "temperature 300", "dt 1.0", "prefix c%ds%d" % (k, seg), "new"]
    if c["it0"]:
        L.append("setstep %d" % c["it0"])
    L += heredoc(["colvarsTrajFrequency 0"] + dummy + (main if c["t0"] == 0 else []))
    L += ["show atomf 0 cv 1 bias 0 energy 0"]
    nstep = 0
    for ev in c["events"]:
        if ev[0] == "step":
            if nstep == c["t0"] and c["t0"] > 0:
                L += heredoc(main)
            x = ev[1]
            if c["vtype"] == "quat":
                for a_, pp in enumerate(x):
                    L.append("pos %d %s %s %s" % (5 + a_, hx(pp[0]), hx(pp[1]), hx(pp[2])))
            elif isinstance(x, (list, tuple)):
                L.append("pos 1 %s %s %s" % (hx(x[0]), hx(x[1]), hx(x[2])))
            else:
                L.append("pos 1 0 0 %s" % hx(x))
            L.append("step")
            nstep += 1
        elif ev[0] == "boundary":
            L.append("runboundary")
        elif ev[0] == "restart":
            seg += 1
            f = "c%d_%d.state" % (k, seg)
            L += ["flush", "save %s %s" % (c.get("fmt", "text"), f), "prefix c%ds%d" % (k, seg), "fresh"] + heredoc(["colvarsTrajFrequency 0"] + dummy + main) + ["load %s" % f]
    L += ["flush", "echo END %d" % k]
    return L


def vdist2(vtype, a, b):
    if vtype == "zper":
        d = a[0] - b[0]
        d -= math.floor(d / PERIOD + 0.5) * PERIOD
        return d * d
    if vtype == "unit":
        cs = sum(x * y for x, y in zip(a, b))
        cs = max(-1.0, min(1.0, cs))
        return math.acos(cs) ** 2
    if vtype == "quat":
        cs = sum(x * y for x, y in zip(a, b))
        om = math.acos(max(-1.0, min(1.0, cs)))
        return om * om if cs > 0.0 else (math.pi - om) ** 2
    return sum((x - y) ** 2 for x, y in zip(a, b))


def check_runavev_case(run, c, k, impl_lines, scratch, model):
    replay = {"kind": "runavev", "case": c}
    if any(l.startswith("CONFIG err=") and "err=ok" not in l for l in impl_lines) or any(l.startswith("STEP") and "err=ok" not in l for l in impl_lines):
        bad = [l for l in impl_lines if l.startswith("STEP") and "err=ok" not in l]
        if bad and not any(l.startswith("CONFIG err=") and "err=ok" not in l for l in impl_lines):
            run.violation("runave:step-error:" + c["vtype"], "the running average of a variable of type %s makes the step fail: %s"
                          % (c["vtype"], bad[0]), replay)
        else:
            run.mismatch("runavev-run", c, [l for l in impl_lines if "err=" in l][:6], "every step and configuration succeeds")
        return 0
    # the values the implementation computed for v0, one per calc in which v0 exists
    vals = []
    cur = None
    for l in impl_lines:
        if l.startswith("STEP "):
            cur = {"it": int(l.split()[1]), "v0": None}
            vals.append(cur)
        elif l.startswith("CV v0 ") and cur is not None:
            cur["v0"] = [float.fromhex(t) for t in l.split()[2:]]
    # segments: (it_restart, first relative step of the analysis, [(rel, it, value)])
    segs = []
    it = c["it0"]
    curseg = {"it_restart": it, "hist": [], "files": [0]}
    first, boundary = True, False
    j = 0
    fileno = 0
    for ev in c["events"]:
        if ev[0] == "step":
            if first:
                first = False
            elif not boundary:
                it += 1
            boundary = False
            if j < len(vals) and vals[j]["v0"] is not None:
                curseg["hist"].append((it - curseg["it_restart"], it, vals[j]["v0"]))
            j += 1
        elif ev[0] == "boundary":
            boundary = True
        elif ev[0] == "restart":
            fileno += 1
            rel = it - curseg["it_restart"]
            t0_ = curseg["hist"][0][0] if curseg["hist"] else None
            # the window of a SCALAR variable is part of the state: the series continues when the state is written at a sampled step
            if c["vtype"] in ("z", "zper") and c["L"] > 1 and t0_ is not None and rel > t0_ and rel % c["stride"] == 0:
                curseg["files"].append(fileno)
                boundary = True
            else:
                segs.append(curseg)
                curseg = {"it_restart": it, "hist": [], "files": [fileno]}
                first, boundary = True, False
    segs.append(curseg)
    vt = c["vtype"]
    kind = {"z": "scalar", "zper": "periodic %s" % hx(PERIOD), "vec": "vector3", "unit": "unit", "cart": "vector3", "quat": "quat"}[vt]
    # imposed values (oracle): the implementation's values must be the imposed ones
    jj = 0
    for ev in c["events"]:
        if ev[0] != "step":
            continue
        if jj < len(vals) and vals[jj]["v0"] is not None and vt not in ("unit", "quat"):
            want = [wrapz(ev[1])] if vt == "zper" else ([float(ev[1])] if vt == "z" else [float(q) for q in ev[1]])
            if vt == "cart":
                want = want + [0.0, 0.0, 0.0]
            if not close(vals[jj]["v0"], want, OTOL):
                run.mismatch("runavev-values", c, vals[jj]["v0"], want)
                return 0
        jj += 1
    lines = []
    for s in segs:
        dim = len(s["hist"][0][2]) if s["hist"] else 1
        lines.append("RUNAVEV %s %d %d %d %d %d %s" % (kind, c["L"], c["stride"], 0, dim, len(s["hist"]),
                                                     " ".join("%d %s" % (t, " ".join(hx(q) for q in x)) for t, it, x in s["hist"])))
    rc, mout, err = V.run_lines(model, lines)
    if rc != 0 or len(mout) != len(segs):
        run.mismatch("runavev-model", c, err[-300:], mout[:2])
        return 0
    n = 0
    L, st = c["L"], c["stride"]
    for si, s in enumerate(segs):
        rows = []
        for fno in s["files"]:
            path = os.path.join(scratch, "c%ds%d.v0.runave.traj" % (k, fno))
            if os.path.exists(path):
                for line in open(path):
                    t = line.split()
                    if t and not t[0].startswith("#"):
                        f = parse_fields(t[1:])
                        av = f[0] if isinstance(f[0], list) else [f[0]]
                        rows.append((int(t[0]), av, f[1]))
        xs = {}
        for t, it, x in s["hist"]:
            xs.setdefault(t, x)
        if not xs:
            continue
        tstart, tmax = min(xs), max(xs)
        # ---- oracle: lines exactly where L strided samples after the first evaluation exist
        want_steps = [t for t in range(tstart + 1, tmax + 1) if t % st == 0 and t - (L - 1) * st > tstart]
        got_steps = [stp - s["it_restart"] for stp, _, _ in rows]
        if got_steps != want_steps:
            sig = "runave:lines" + (":off-grid-start" if tstart % st else "")
            run.violation(sig, "analysis starting at relative step %d, stride %d, window %d: lines at relative steps %s, full windows of "
                          "evenly spaced samples end at %s" % (tstart, st, L, got_steps[:10], want_steps[:10]), replay)
            continue
        for stp, av, sd in rows:
            t = stp - s["it_restart"]
            win = [xs[t - jx * st] for jx in range(L)]
            run.dist("oracle:runavev-line:" + vt)
            if vt == "zper":
                # values seen from x(t) through the shortest image (window narrower than half a period)
                y = [win[0][0] + (w[0] - win[0][0] - math.floor((w[0] - win[0][0]) / PERIOD + 0.5) * PERIOD) for w in win]
                m = sum(y) / L
                dm = av[0] - m
                dm -= math.floor(dm / PERIOD + 0.5) * PERIOD
                if not (-PERIOD / 2 - 1e-9 <= av[0] < PERIOD / 2 + 1e-9):
                    run.violation("runave:periodic-range", "step %d: reported average %r of a variable wrapped into [%g, %g)"
                                  % (stp, av[0], -PERIOD / 2, PERIOD / 2), replay)
                    continue
                if abs(dm) > 1e-9:
                    run.violation("runave:periodic-wrap", "step %d: window %s of a variable with period %g: reported average %r, the values "
                                  "seen through the shortest image %s average to %r" % (stp, [w[0] for w in win], PERIOD, av[0], y, m), replay)
                    continue
                wantsd = math.sqrt(sum((q - m) ** 2 for q in y) / (L - 1)) if L > 1 else None
            else:
                m = [sum(w[i] for w in win) / L for i in range(len(win[0]))]
                if vt in ("unit", "quat"):
                    nrm = math.sqrt(sum(q * q for q in m))
                    m = [q / nrm for q in m]
                if not close(av, m, 1e-9):
                    run.violation("runave:mean:" + vt, "step %d: running average %r, the mean of the window %s is %r" % (stp, av, win, m), replay)
                    continue
                wantsd = math.sqrt(sum(vdist2(vt, w, m) for w in win) / (L - 1)) if L > 1 else None
            if wantsd is not None and not close(sd, wantsd, 1e-7):
                run.violation("runave:stddev:" + vt, "step %d: running stddev %r, the sample standard deviation of the window in the "
                              "variable's metric is %r" % (stp, sd, wantsd), replay)
        # ---- tie
        mrows = []
        for part in mout[si].split(" ; "):
            t = part.split()
            if t:
                mrows.append((int(t[0]) + s["it_restart"], [float.fromhex(q) for q in t[1].split(",")], float.fromhex(t[3])))
        if [r_[0] for r_ in rows] != [r_[0] for r_ in mrows]:
            run.mismatch("runave:steps", c, [r_[0] for r_ in rows][:12], [r_[0] for r_ in mrows][:12])
            continue
        for a, b in zip(rows, mrows):
            n += 1
            if not close(a[1], b[1], 1e-10):
                run.mismatch("runave:mean", c, (a[0], a[1]), (b[0], b[1]))
            elif L > 1 and not close(a[2], b[2], 1e-7):
                run.mismatch("runave:stddev", c, (a[0], a[2]), (b[0], b[2]))
    return n


def gen_runavev_case(r, tier):
    vt = r.choice(["z", "zper", "zper", "vec", "unit", "cart", "quat"])
    L = r.choice([1, 2, 2, 3, 4])
    stride = r.choice([1, 2, 2, 3])
    t0 = r.choice([0, 0, 1, 2, 3, 5])
    n = t0 + L * stride + r.randint(2, 2 * L * stride + 4) + (r.randint(0, 30) if tier != "quick" else 0)
    it0 = r.choice([0, 0, r.randint(1, 30), big_step(r, stride)])
    center = V.dyadic(r, -4, 4, 2)

    def val():
        if vt == "z":
            return V.dyadic(r, -8, 8, 3)
        if vt == "zper":
            # a band narrower than half a period, anywhere (often across the boundary +-4)
            return center + V.dyadic(r, -1.5, 1.5, 3)
        if vt == "quat":
            # the four reference atoms, rotated about z by a quarter turn or not, plus noise
            ref = [(1.0, 0.0, 0.0), (0.0, 1.0, 0.0), (0.0, 0.0, 1.0), (-1.0, -1.0, -1.0)]
            rot = r.choice([0, 0, 1])
            out = []
            for (x_, y_, z_) in ref:
                if rot:
                    x_, y_ = -y_, x_
                out.append([x_ + V.dyadic(r, -0.25, 0.25, 4), y_ + V.dyadic(r, -0.25, 0.25, 4), z_ + V.dyadic(r, -0.25, 0.25, 4)])
            return out
        while True:
            v = [V.dyadic(r, -4, 4, 2) for _ in range(3)]
            if sum(abs(q) for q in v) > 0.5:
                return v
    events = []
    for i in range(n):
        u = r.random()
        if events and i > t0 and u < 0.07:
            last = [e for e in events if e[0] == "step"][-1]
            events += [["boundary"], list(last)]
        elif events and i > t0 + 1 and u < 0.10:
            last = [e for e in events if e[0] == "step"][-1]
            events += [["restart"], list(last)]
        else:
            events.append(["step", val()])
    return {"kind": "runavev", "vtype": vt, "L": L, "stride": stride, "t0": t0, "it0": it0, "events": events, "fmt": r.choice(["text", "binary"])}



# ------------------------------------------------------------------ which steps write which files
def out_scenario(c, k):
    v = ["colvar {", "  name v0", "  lowerBoundary -16.0", "  upperBoundary 16.0", "  width 1.0", "  corrFunc on", "  corrFuncType coordinate",
         "  corrFuncLength 1", "  corrFuncStride 1", "  distanceZ {", "    main { atomNumbers 1 }", "    ref { dummyAtom (0,0,0) }", "    axis (0,0,1)", "  }", "}"]
    bl = []
    if c.get("abf"):
        v = v[:-6] + ["  distanceZ {", "    main { atomNumbers 1 }", "    ref { dummyAtom (0,0,0) }", "    axis (0,0,1)", "    oneSiteTotalForce on", "  }", "}"]
        bl += ["abf {", "  name a0", "  colvars v0", "  fullSamples 1", "  outputFreq %d" % c["abf"]["F"], "  historyFreq %d" % c["abf"]["H"], "}"]
    for b, f in c["biases"]:
        bl += ["histogram {", "  name b%d" % b, "  colvars v0", "  outputFreq %d" % f, "}"]
    if c.get("opes"):
        bl += ["opes_metad {", "  name o0", "  colvars v0", "  newHillFrequency %d" % c["opes"]["p"], "  barrier 5.0", "  gaussianSigma 0.5",
               "  printTrajectoryFrequency %d" % c["opes"]["q"], "  outputFreq %d" % c["opes"]["F"], "}"]
    if c.get("meta"):
        bl += ["metadynamics {", "  name m0", "  colvars v0", "  hillWeight 0.125", "  hillWidth 1.0", "  newHillFrequency %d" % c["meta"]["h"],
               "  outputFreq %d" % c["meta"]["F"], "  writeHillsTrajectory on", "  keepFreeEnergyFiles on"] + \
              (["  wellTempered on", "  biasTemperature %r" % c["meta"]["wt"]] if c["meta"].get("wt") else []) + ["}"]
    L = ["echo CASE %d" % k, "natoms 2", "temperature 300", "dt 1.0", "prefix c%ds0" % k, "restartfreq %d" % c["R"], "new", "capture"]
    if c["it0"]:
        L.append("setstep %d" % c["it0"])
    L += heredoc(["colvarsTrajFrequency 0"] + v + bl) + ["show atomf 0 cv 0 bias 0 energy 0", "wlog"]
    for ev in c["events"]:
        if ev[0] == "step":
            L += ["pos 1 0 0 %s" % hx(ev[1]), "step", "wlog"]
        elif ev[0] == "boundary":
            L.append("runboundary")
    L += ["postrun", "wlog", "gdump", "flush", "restartfreq 0", "echo END %d" % k]
    return L


def calc_its_of(evs):
    return [i for t, i in evs if t == "C"]


def check_out_case(run, c, k, impl_lines, scratch, model):
    replay = {"kind": "out", "case": c}
    if any(l.startswith("CONFIG err=") and "err=ok" not in l for l in impl_lines) or any(l.startswith("STEP") and "err=ok" not in l for l in impl_lines):
        run.mismatch("out-run", c, [l for l in impl_lines if "err=" in l][:6], "every step and configuration succeeds")
        return 0
    got = []
    for l in impl_lines:
        if l.startswith("WROTE state"):
            got.append("state@" + l.split("it=")[1])
        elif l.startswith("WROTE colvar"):
            got.append("colvar@" + l.split("it=")[1])
        elif l.startswith("WROTE bias"):
            nm = os.path.basename(l.split()[2]).split(".")[1]
            got.append(nm + "@" + l.split("it=")[1])
    # event list
    evs = []
    it = c["it0"]
    first, boundary = True, False
    for ev in c["events"]:
        if ev[0] == "step":
            if first:
                first = False
            elif not boundary:
                it += 1
            boundary = False
            evs.append(("C", it))
        else:
            boundary = True
    evs.append(("E", it))
    last = it
    mb = list(c["biases"])
    if c.get("meta"):
        mb.append((100, c["meta"]["F"]))
    if c.get("abf"):
        mb.append((200, c["abf"]["F"]))
    line = "OUT %d %d %d %s %d %s" % (c["R"], c["it0"], len(mb), " ".join("%d %d" % (b, f) for b, f in mb), len(evs),
                                    " ".join("%s %d" % e for e in evs))
    rc, mout, err = V.run_lines(model, [line])
    if rc != 0 or len(mout) != 1:
        run.mismatch("out-model", c, err[-300:], mout[:2])
        return 0
    want_all = mout[0].split()
    want = [w for w in want_all if not w.startswith("b100@") and not w.startswith("b200@")]
    dedup_its = []
    xs_by_it = {}
    itx = c["it0"]
    first, boundary = True, False
    for ev in c["events"]:
        if ev[0] == "step":
            if first:
                first = False
            elif not boundary:
                itx += 1
            boundary = False
            if itx not in xs_by_it:
                dedup_its.append(itx)
                xs_by_it[itx] = ev[1]
        else:
            boundary = True
    if c.get("meta"):
        # (a) the step-stamped free-energy files on disk are exactly the steps at which the model says the bias writes
        stamps = sorted(int(f.split(".")[-2]) for f in os.listdir(scratch) if f.startswith("c%ds0." % k) and f.endswith(".pmf")
                        and len(f.split(".")) == 3 and f.split(".")[-2].isdigit())
        mw = sorted(set(int(w.split("@")[1]) for w in want_all if w.startswith("b100@")))
        run.dist("oracle:meta-pmf-stamps")
        if stamps != mw:
            run.mismatch("outfiles-meta", c, stamps, mw)
        F = c["meta"]["F"]
        ow = sorted(set([i for i in calc_its_of(evs) if F and i > c["it0"] and i % F == 0] + [last]))
        if stamps != ow:
            run.violation("outfiles:meta-pmf-steps", "free-energy files stamped with the steps %s; outputFreq %d over the steps %d..%d and the end "
                          "of the run give %s" % (stamps, F, c["it0"], last, ow), replay)
        # (b) the hills trajectory left by the run: one record per deposited hill (C05: steps after the first that are
        # multiples of newHillFrequency), stamped with its step, centred at the variable's value of that step
        hp = os.path.join(scratch, "c%ds0.colvars.m0.hills.traj" % k)
        recs = []
        if os.path.exists(hp):
            for ln in open(hp):
                t = ln.split()
                if t and not t[0].startswith("#"):
                    recs.append((int(t[0]), float(t[1])))
        # the last free-energy file against the tabulated hills energy at the end of the run: F = max(E) - E
        gm = [l for l in impl_lines if l.startswith("GM m0 ")]
        lastp = os.path.join(scratch, "c%ds0.%d.pmf" % (k, last))
        if gm and os.path.exists(lastp):
            en = [float.fromhex(q) for q in gm[-1].split("energy=")[1].split(",")]
            fp = [float(ln.split()[1]) for ln in open(lastp) if ln.split() and not ln.startswith("#")]
            mx = max(en)
            scale = (c["meta"]["wt"] + 300.0) / c["meta"]["wt"] if c["meta"].get("wt") else 1.0     # (T_bias + T)/T_bias
            wp = [(mx - e_) * scale for e_ in en]
            run.dist("oracle:meta-pmf-vs-grid")
            if len(fp) != len(wp) or any(abs(a - b) > 1e-12 * max(1.0, abs(mx)) for a, b in zip(fp, wp)):
                run.violation("outfiles:meta-pmf-content", "the free-energy file of step %d differs from max(E) - E of the tabulated hills energy "
                              "(first values %s vs %s)" % (last, fp[:5], wp[:5]), replay)
        h = c["meta"]["h"]
        wantrec = [(i, float(xs_by_it[i])) for i in dedup_its if i > c["it0"] and i % h == 0]
        run.dist("oracle:hills-traj")
        if [r_[0] for r_ in recs] != [w_[0] for w_ in wantrec]:
            run.violation("outfiles:hills-traj-steps", "hills trajectory records at steps %s, hills are deposited at %s" %
                          ([r_[0] for r_ in recs], [w_[0] for w_ in wantrec]), replay)
        elif any(not close(a[1], b[1], OTOL) for a, b in zip(recs, wantrec)):
            run.violation("outfiles:hills-traj-centres", "hills trajectory %s, deposited hills %s" % (recs[:6], wantrec[:6]), replay)
    if c.get("opes"):
        # OPES: the .misc.traj and .kernels.dat files are buffered record files written with the bias's output files; after
        # the run they hold one record per recorded step, stamped with the time step*dt/1000, in increasing order
        dt = 1.0
        for suffix, fq, sig in ((".misc.traj", c["opes"]["q"], "misc"), (".kernels.dat", c["opes"]["p"], "kernels")):
            fp_ = os.path.join(scratch, "c%ds0.colvars.o0%s" % (k, suffix))
            recs = []
            if os.path.exists(fp_):
                for ln in open(fp_):
                    t = ln.split()
                    if t and not t[0].startswith("#"):
                        recs.append((int(round(float(t[0]) * 1000.0 / dt)), float(t[1])))
            run.dist("oracle:opes-" + sig)
            steps_ = [r_[0] for r_ in recs]
            if any(b_ <= a_ for a_, b_ in zip(steps_, steps_[1:])):
                run.violation("outfiles:opes-repeated-step", "the OPES %s file has records for the steps %s: a step evaluated twice (run boundary) "
                              "is recorded%s twice" % (suffix, steps_, " and its kernel deposited" if sig == "kernels" else ""), replay)
                continue
            if any(st_ % fq for st_ in steps_) or any(st_ not in xs_by_it for st_ in steps_):
                run.violation("outfiles:opes-steps", "OPES %s records at steps %s, frequency %d over the steps %s" % (suffix, steps_, fq, dedup_its), replay)
            elif any(not close(x_, float(xs_by_it[st_]), OTOL) for st_, x_ in recs):
                run.violation("outfiles:opes-values", "OPES %s records %s do not carry the variable's value of their step" % (suffix, recs[:5]), replay)
            elif sig == "misc" and steps_ != [i for i in dedup_its if i % fq == 0]:
                run.violation("outfiles:opes-steps", "OPES %s records at steps %s, frequency %d over the steps %s" % (suffix, steps_, fq, dedup_its), replay)
    if c.get("abf"):
        # the history files get one block per write at a multiple of historyFreq (not twice for one step)
        H = c["abf"]["H"]
        aw = [int(w.split("@")[1]) for w in want_all if w.startswith("b200@")]
        rc2, m2, err2 = V.run_lines(model, ["ABFHIST %d %d %s" % (H, len(aw), " ".join(str(i) for i in aw))])
        hsteps = [int(q) for q in m2[0].split()] if rc2 == 0 and m2 else None
        osteps = []
        for i in aw:
            if i % H == 0 and (not osteps or osteps[-1] != i):
                osteps.append(i)
        if hsteps != osteps:
            run.mismatch("outfiles-abf-history", c, osteps, hsteps)
            hsteps = osteps
        cp = os.path.join(scratch, "c%ds0.hist.count" % k)
        nblocks = 0
        if os.path.exists(cp):
            nblocks = sum(1 for ln in open(cp) if ln.strip() == "# 1")
        run.dist("oracle:abf-history-blocks")
        if nblocks != len(hsteps):
            run.violation("outfiles:abf-history", "%d blocks in the ABF history file; outputFreq %d, historyFreq %d over steps %d..%d give writes at %s"
                          % (nblocks, c["abf"]["F"], H, c["it0"], last, hsteps), replay)
        # content of the final .count file: the samples are the steps whose total force could be attributed
        cf = os.path.join(scratch, "c%ds0.count" % k)
        if os.path.exists(cf):
            tot = 0
            for ln in open(cf):
                t = ln.split()
                if t and not t[0].startswith("#"):
                    tot += int(float(t[1]))
            # content against the internal grids at the writing step (the end of the run)
            ga = [l for l in impl_lines if l.startswith("GA a0 ")]
            if ga:
                kv = dict(t.split("=", 1) for t in ga[-1].split()[2:])
                smp = [int(q) for q in kv["samples"].split(",")]
                grd = [float.fromhex(q) for q in kv["gradients"].split(",")]
                fcount = [int(float(ln.split()[1])) for ln in open(cf) if ln.split() and not ln.startswith("#")]
                gf = os.path.join(scratch, "c%ds0.grad" % k)
                fgrad = [float(ln.split()[1]) for ln in open(gf) if ln.split() and not ln.startswith("#")] if os.path.exists(gf) else []
                wgrad = [(g / n_ if n_ else 0.0) for g, n_ in zip(grd, smp)]
                run.dist("oracle:abf-file-vs-grids")
                if fcount != smp:
                    run.violation("outfiles:abf-count-content", "the .count file %s differs from the stored counts %s" % (fcount, smp), replay)
                elif len(fgrad) != len(wgrad) or any(not close(a, b) for a, b in zip(fgrad, wgrad)):
                    run.violation("outfiles:abf-grad-content", "the .grad file %s differs from the stored mean forces %s" % (fgrad[:8], wgrad[:8]), replay)
            nsteps = len([i for i in dedup_its if i > c["it0"]])
            run.dist("oracle:abf-count-total")
            if tot != nsteps:
                run.violation("outfiles:abf-count", "the final .count file holds %d samples, %d steps after the first were sampled" % (tot, nsteps), replay)
    # ---- oracle: documented frequencies, final files describe the final step, nothing written twice for one calc
    def steps_of(kind):
        return [int(g.split("@")[1]) for g in got if g.split("@")[0] == kind]
    calc_its = [i for t, i in evs if t == "C"]
    for kind, f in [("colvar", c["R"]), ("state", c["R"])] + [("b%d" % b, fb) for b, fb in c["biases"]]:
        st = steps_of(kind)
        run.dist("oracle:outfiles:" + ("bias" if kind.startswith("b") else kind))
        atfreq = [i for i in calc_its if f and i > c["it0"] and i % f == 0]
        if not st or st[-1] != last:
            run.violation("outfiles:%s-not-at-end" % ("bias" if kind.startswith("b") else kind),
                          "after the end of the run (last step %d) the last write of the %s output file(s) was at step %s"
                          % (last, kind, st[-1] if st else None), replay)
        elif kind != "state" and (st[:-1] if not (f and last > c["it0"] and last % f == 0) else st) != atfreq:
            run.violation("outfiles:schedule", "%s file(s) written at steps %s; its frequency %d gives %s, plus the end of the run"
                          % (kind, st, f, atfreq), replay)
    spath = os.path.join(scratch, "c%ds0.colvars.state" % k)
    if os.path.exists(spath):
        m = re.search(r"^\s*step\s+(\d+)", open(spath).read(), flags=re.M)
        run.dist("oracle:state-step")
        if not m or int(m.group(1)) != last:
            run.violation("outfiles:state-step", "the state file left by the run says step %s, the last step was %d" % (m.group(1) if m else None, last), replay)
    if got != want:
        run.mismatch("outfiles", c, got[:30], want[:30])
    return len(got)


def gen_out_case(r, tier):
    R = r.choice([0, 0, 2, 3, 4, 6, 7])
    nb = r.choice([0, 1, 2])
    biases = [(b, r.choice([0, 1, 2, 3, 5, 6, 7])) for b in range(nb)]
    it0 = r.choice([0, 0, r.randint(1, 12), big_step(r, max(R, 1))])
    n = r.randint(2, 10) + (r.randint(0, 20) if tier != "quick" else 0)
    events = []
    for i in range(n):
        if events and i > 1 and r.random() < 0.12:
            last = [e for e in events if e[0] == "step"][-1]
            events += [["boundary"], list(last)]
        else:
            events.append(["step", V.dyadic(r, -8, 8, 2)])
    c = {"kind": "out", "R": R, "biases": biases, "it0": it0, "events": events}
    u = r.random()
    if u < 0.35:
        c["meta"] = {"h": r.choice([1, 2, 3]), "F": r.choice([0, 2, 3, 4]), "wt": r.choice([None, None, 300.0, 900.0])}
    elif u < 0.6:
        F = r.choice([1, 2, 3])
        c["abf"] = {"F": F, "H": F * r.choice([1, 2, 3])}
        c["biases"] = []
    elif u < 0.8:
        c["opes"] = {"p": r.choice([1, 2, 3]), "q": r.choice([1, 2, 3]), "F": r.choice([0, 2, 3])}
        c["biases"] = []
        if c["it0"] > 10 ** 6:
            c["it0"] = r.randint(1, 12)    # OPES files carry the time step*dt/1000 as a 6- or 15-digit float: no step resolution there
    return c



# ------------------------------------------------------------------ label text (names of any length)
LABEL_PREFIXES = ["r_", "v_", "vr_", "Ep_", "Ek_", "ft_", "fa_", "x0_", "ref_", "Grad_", "E_", "W_"]


def label_scenario(c, k):
    L = ["echo CASE %d" % k, "natoms 4", "temperature 300", "dt 1.0", "prefix c%ds0" % k, "new"]
    conf = ["colvarsTrajFrequency 1"]
    for i, nm in enumerate(c["names"]):
        conf += ["colvar {"] + ([] if c.get("unnamed") else ["  name %s" % nm]) + ["  outputVelocity on", "  outputAppliedForce on", "  distanceZ {", "    main { atomNumbers %d }" % (2 * i + 1),
                 "    ref { dummyAtom (0,0,0) }", "    axis (0,0,1)", "  }", "}"]
    conf += ["harmonic {"] + ([] if c.get("unnamed") else ["  name %s" % c["bname"]]) + ["  colvars %s" % c["names"][0], "  centers 0.5", "  forceConstant 1.0", "  outputEnergy on", "  outputCenters on", "}"]
    L += heredoc(conf) + ["show atomf 0 cv 0 bias 0 energy 0", "pos 1 0 0 1.0", "pos 3 0 0 2.0", "step", "pos 1 0 0 1.5", "step", "flush", "echo END %d" % k]
    return L


def check_label_case(run, c, k, impl_lines, scratch, model):
    replay = {"kind": "label", "case": c}
    if any(l.startswith("CONFIG err=") and "err=ok" not in l for l in impl_lines):
        run.mismatch("label-run", c, [l for l in impl_lines if "err=" in l][:4], "configuration succeeds")
        return 0
    flines = parse_traj(os.path.join(scratch, "c%ds0.colvars.traj" % k))
    labs = [l[1] for l in flines if l[0] == "L"]
    if not labs:
        run.mismatch("label-run", c, "no label line", "one label line")
        return 0
    lab = labs[0]
    # columns in order, as (prefix, name, width): the structure is that of the model's label list for this configuration
    cols = []
    for nm in c["names"]:
        cols += [("", nm, 21), ("v_", nm, 21), ("fa_", nm, 21)]
    cols += [("E_", c["bname"], 21), ("x0_", c["names"][0], 21)]
    # the model's own label line for this configuration (prefixes and widths from the Coq table col_label)
    cfgv = [{"id": i, "type": "z", "value": True, "velocity": True, "aforce": True} for i in range(len(c["names"]))]
    cfgb = [{"id": 0, "kind": "harmonic", "vars": [0], "energy": True, "centers": True}]
    line = " ".join(["TRAJN", str(len(c["names"]))] + ["%d %s" % (i, n) for i, n in enumerate(c["names"])] + ["1", "0", c["bname"], "1"]
                    + enc_cfg(cfgv, cfgb) + ["1", "C", "0"])
    rc, mout, err = V.run_lines(model, [line])
    if rc != 0 or len(mout) != 1:
        run.mismatch("label-model", c, err[-300:], mout[:3])
        return 0
    mlab = mout[0].split(" ; ")[0].split()[1:]
    if lab != mlab:
        run.mismatch("labeltext", c, lab, mlab)
    # oracle: a reader must be able to tell which column is which
    run.dist("oracle:label-text")
    full = [p + n for p, n, w in cols]
    cut = [(p + n)[:w] for p, n, w in cols]     # the file format: every label cut to the column width
    if len(lab) != len(cut) or any(a != b for a, b in zip(lab, cut)):
        bad = [(a, b) for a, b in zip(lab, cut) if a != b][:1] or [(lab, cut)]
        run.violation("trajlabels:label-text", "label %r where the column is %r (cut to the column width: %r)" % (bad[0][0], full[lab.index(bad[0][0])] if bad[0][0] in lab and len(lab) == len(full) else "?", bad[0][1]), replay)
    elif len(set(lab)) != len(lab):
        dup = [t for t in lab if lab.count(t) > 1][0]
        run.violation("trajlabels:duplicate-label", "the label line %s announces two columns as %r (names %s, bias %s)" % (lab, dup, c["names"], c["bname"]), replay)
    elif lab != full:
        bad = [(a, b) for a, b in zip(lab, full) if a != b][0]
        run.violation("trajlabels:name-truncated", "label %r stands for the column %r (names are cut to the column width)" % bad, replay)
    return len(lab)


def gen_label_case(r, tier):
    def nm(n):
        return "".join(r.choice("abcdefghijklmnopqrstuvwxyz") for _ in range(n))
    kind = r.choice(["short", "short", "exact", "long", "samehead", "prefixclash", "unnamed"])
    if kind == "unnamed":
        # objects without a name keyword get the default names colvar<n>, harmonic<n>
        return {"kind": "label", "names": ["colvar1", "colvar2"], "bname": "harmonic1", "unnamed": True}
    if kind == "short":
        names = [nm(r.randint(1, 12)), nm(r.randint(1, 12))]
    elif kind == "exact":
        names = [nm(18), nm(17)]          # fa_ + 18 = 21: just fits everywhere
    elif kind == "long":
        names = [nm(r.randint(19, 26)), nm(r.randint(3, 8))]
    elif kind == "samehead":
        h = nm(21)
        names = [h + "1", h + "2"]
    else:
        a = nm(4)
        names = [a, "v_" + a]
    if names[0] == names[1]:
        names[1] += "x"
    return {"kind": "label", "names": names, "bname": nm(r.choice([3, 19, 24]))}



# ------------------------------------------------------------------ what is on disk before the end of the run
def disk_scenario(c, k):
    v = {"id": 0, "type": "z", "value": True, "velocity": c["vel"]}
    L = ["echo CASE %d" % k, "natoms 2", "temperature 300", "dt 1.0", "prefix c%ds0" % k, "restartfreq %d" % c["R"], "new"]
    if c["it0"]:
        L.append("setstep %d" % c["it0"])
    L += heredoc(["colvarsTrajFrequency %d" % c["freq"]] + var_block(v)) + ["show atomf 0 cv 0 bias 0 energy 0"]
    for j, x in enumerate(c["xs"]):
        L += ["pos 1 0 0 %s" % hx(x), "step", "diskcopy c%ds0.colvars.traj snap_%d_%d" % (k, k, j)]
    L += ["flush", "restartfreq 0", "echo END %d" % k]
    return L


def check_disk_case(run, c, k, impl_lines, scratch, model):
    replay = {"kind": "disk", "case": c}
    final = open(os.path.join(scratch, "c%ds0.colvars.traj" % k)).read().split("\n") if os.path.exists(os.path.join(scratch, "c%ds0.colvars.traj" % k)) else []
    final = [l for l in final if l]
    its = [c["it0"] + j for j in range(len(c["xs"]))]
    cfg = enc_cfg([{"id": 0, "type": "z", "value": True, "velocity": c["vel"]}], [])
    rc, mout, err = V.run_lines(model, ["DISK %d %d %d %s %d %s" % (c["R"], c["freq"], c["it0"], " ".join(cfg), len(its), " ".join(str(i) for i in its))])
    if rc != 0 or len(mout) != 1:
        run.mismatch("disk-model", c, err[-300:], mout[:2])
        return 0
    counts = [int(q) for q in mout[0].split()]
    n = 0
    for j, it in enumerate(its):
        sp = os.path.join(scratch, "snap_%d_%d" % (k, j))
        txt = open(sp).read() if os.path.exists(sp) else ""
        snap = [l for l in txt.split("\n") if l]
        complete = snap if txt.endswith("\n") or not txt else snap[:-1]
        n += 1
        run.dist("oracle:disk-snapshot")
        # oracle: every line written up to the last step on the restart grid is on disk; nothing that is not in the final file
        synced = [i for i in its[:j + 1] if c["R"] and i % c["R"] == 0]
        must = 0
        if synced:
            last = synced[-1]
            must = len([l for l in final if l.startswith("#") is False and int(l.split()[0]) <= last])
        have = len([l for l in complete if not l.startswith("#")])
        if complete != final[:len(complete)]:
            run.violation("disk:not-a-prefix", "after step %d the file on disk is not a prefix of the final file" % it, replay)
        elif have < must:
            run.violation("disk:lines-missing-after-sync", "after step %d (restart frequency %d) the file on disk has %d data lines; %d were written up to "
                          "the last synchronisation" % (it, c["R"], have, must), replay)
        # tie: with small outputs the stream never spills, the disk is exactly what the model says
        if len(complete) != counts[j]:
            run.mismatch("disk-lines", c, (it, len(complete)), (it, counts[j]))
    return n


def gen_disk_case(r, tier):
    return {"kind": "disk", "freq": r.choice([1, 1, 2, 3, 7]), "R": r.choice([0, 2, 3, 4, 5, 6]), "it0": r.choice([0, 0, r.randint(1, 20), 999, big_step(r)]),
            "vel": r.random() < 0.5, "xs": [V.dyadic(r, -4, 4, 3) for _ in range(r.randint(3, 12))]}



# ------------------------------------------------------------------ multicolumn grid files in 1, 2 and 3 dimensions
def grid_scenario(c, k):
    L = ["echo CASE %d" % k, "natoms %d" % (2 * len(c["dims"])), "temperature 300", "dt 1.0", "prefix c%ds0" % k, "restartfreq 0", "new"]
    conf = ["colvarsTrajFrequency 0"]
    for i, (n, lo, w) in enumerate(c["dims"]):
        conf += ["colvar {", "  name v%d" % i, "  lowerBoundary %r" % lo, "  upperBoundary %r" % (lo + n * w), "  width %r" % w, "  distanceZ {",
                 "    main { atomNumbers %d }" % (2 * i + 1), "    ref { dummyAtom (0,0,0) }", "    axis (0,0,1)", "  }", "}"]
    conf += ["histogram {", "  name b0", "  colvars " + " ".join("v%d" % i for i in range(len(c["dims"]))), "}"]
    L += heredoc(conf) + ["show atomf 0 cv 0 bias 0 energy 0"]
    for xs in c["xs"]:
        for i, x in enumerate(xs):
            L.append("pos %d 0 0 %s" % (2 * i + 1, hx(x)))
        L.append("step")
    L += ["postrun", "gdump", "flush", "echo END %d" % k]
    return L


def check_grid_case(run, c, k, impl_lines, scratch, model):
    replay = {"kind": "grid", "case": c}
    if any(l.startswith("CONFIG err=") and "err=ok" not in l for l in impl_lines):
        run.mismatch("grid-run", c, [l for l in impl_lines if "err=" in l][:4], "configuration succeeds")
        return 0
    gh = [l for l in impl_lines if l.startswith("GH b0 ")]
    path = os.path.join(scratch, "c%ds0.b0.dat" % k)
    if not gh or not os.path.exists(path):
        run.mismatch("grid-run", c, "no grid dump / file", "histogram file written at the end of the run")
        return 0
    data = [float.fromhex(q) for q in gh[-1].split("data=")[1].split(",")]
    raw = open(path).read().split("\n")
    if raw and raw[-1] == "":
        raw.pop()
    header = [l for l in raw if l.startswith("#")]
    body = raw[len(header):]
    flines = []
    for l in body:
        t = l.split()
        flines.append("B" if not t else ("D", [float(q) for q in t[:len(c["dims"])]], [float(q) for q in t[len(c["dims"]):]]))
    # ---- oracle on the file alone: header = configured geometry; blank line exactly when the last index restarts;
    #      coordinates = bin centres in row-major order (last variable fastest)
    nd = len(c["dims"])
    run.dist("oracle:multicol:%dd" % nd)
    ok_header = len(header) == nd + 1 and header[0].split() == ["#", str(nd)]
    for i, (n, lo, w) in enumerate(c["dims"]):
        t = header[i + 1].split() if ok_header else []
        ok_header = ok_header and len(t) == 5 and close(float(t[1]), lo) and close(float(t[2]), w) and int(t[3]) == n
    if not ok_header:
        run.violation("gridfile:header", "header %s does not state the grid %s" % (header, c["dims"]), replay)
    import itertools
    want = []
    for ix in itertools.product(*[range(n) for n, _, _ in c["dims"]]):
        if ix[-1] == 0:
            want.append("B")
        want.append(("D", [lo + (i + 0.5) * w for i, (n, lo, w) in zip(ix, c["dims"])]))
    got_shape = ["B" if f == "B" else ("D", f[1]) for f in flines]
    if len(got_shape) != len(want) or any((a == "B") != (b == "B") or (a != "B" and not close(a[1], b[1])) for a, b in zip(got_shape, want)):
        run.violation("gridfile:layout", "records/blank lines of the file do not follow the grid's index order (first lines %s, expected %s)"
                      % (got_shape[:4], want[:4]), replay)
    # ---- tie: the model's lines for this geometry and the values read from the object
    line = "MULTICOL %d %s %d %s" % (nd, " ".join("%d %s %s" % (n, hx(lo), hx(w)) for n, lo, w in c["dims"]), len(data), " ".join(hx(q) for q in data))
    rc, mout, err = V.run_lines(model, [line])
    if rc != 0 or len(mout) != 1:
        run.mismatch("grid-model", c, err[-300:], mout[:2])
        return 0
    mlines = []
    for part in mout[0].split(" ; "):
        if part.strip() == "B":
            mlines.append("B")
        else:
            a, b = part[2:].split("|")
            mlines.append(("D", [float.fromhex(q) for q in a.strip().split(",")], [float.fromhex(q) for q in b.strip().split(",")]))
    if len(mlines) != len(flines) or any((a == "B") != (b == "B") for a, b in zip(flines, mlines)):
        run.mismatch("gridfile-structure", c, len(flines), len(mlines))
        return 0
    for a, b in zip(flines, mlines):
        if a != "B" and (not close(a[1], b[1]) or not close(a[2], b[2])):
            run.mismatch("gridfile-values", c, a, b)
            break
    return len(flines)


def gen_grid_case(r, tier):
    nd = r.choice([1, 2, 2, 3])
    dims = [(r.choice([1, 2, 3, 4] if nd > 1 else [2, 5, 8]), V.dyadic(r, -4, 2, 1), r.choice([0.5, 1.0, 2.0])) for _ in range(nd)]
    xs = [[lo + V.dyadic(r, -0.5, n * w + 0.5, 3) for (n, lo, w) in dims] for _ in range(r.randint(3, 10))]
    return {"kind": "grid", "dims": dims, "xs": xs}


# ------------------------------------------------------------------ correlation function cases
def acf_scenario(c, k):
    ty = c["vtype"]
    extra = ["  corrFunc on", "  corrFuncType %s" % c["type"], "  corrFuncLength %d" % c["len"], "  corrFuncStride %d" % c["stride"],
             "  corrFuncOffset %d" % c["off"], "  corrFuncNormalize %s" % ("on" if c["norm"] else "off")]
    if c.get("outfile"):
        extra.append("  corrFuncOutputFile c%ds0.v0.corrfunc.dat" % k)      # the default name, given explicitly
    blocks = []
    if c["cross"]:
        extra.append("  corrFuncWithColvar v1")
        blocks += vvar_block(ty, 1)
    blocks += vvar_block(ty, 0, extra)
    conf = heredoc(["colvarsTrajFrequency 0"] + blocks)
    L = ["echo CASE %d" % k, "natoms 4", "temperature 300", "dt %r" % c["dt"], "prefix c%ds0" % k, "restartfreq %d" % c["R"], "new"]
    if c["it0"]:
        L.append("setstep %d" % c["it0"])
    L += conf + ["show atomf 0 cv 0 bias 0 energy 0"]
    for ev in c["events"]:
        if ev[0] == "step":
            for vid, x in ((0, ev[1]), (1, ev[2])):
                if x is None:
                    continue
                if ty in ("z", "zper"):
                    L.append("pos %d 0 0 %s" % (2 * vid + 1, hx(x)))
                else:
                    L.append("pos %d %s %s %s" % (2 * vid + 1, hx(x[0]), hx(x[1]), hx(x[2])))
            L.append("step")
        elif ev[0] == "boundary":
            L.append("runboundary")
    if c.get("post"):
        L.append("postrun")
    L += ["flush", "restartfreq 0", "echo END %d" % k]
    return L


def vecf(x):
    return [Fr(q) for q in x] if isinstance(x, (list, tuple)) else [Fr(x)]


def tval(c, x):
    """the variable's value for an imposed position: wrapped for the periodic type, normalised for the unit vector"""
    if c["vtype"] == "zper":
        return wrapz(x)
    if c["vtype"] == "unit":
        n = math.sqrt(x[0] * x[0] + x[1] * x[1] + x[2] * x[2])
        return [x[0] / n, x[1] / n, x[2] / n]
    if c["vtype"] == "cart":
        return list(x) + [0.0, 0.0, 0.0]
    return x


def acf_history(c):
    """-> calcs [(step_rel, it, self, other)] with self/other = the quantity correlated (value or velocity),
    as exact component lists; and the index of the calc at which the file was last written"""
    it = c["it0"]
    first, boundary = True, False
    calcs = []
    prevx = None
    last_write = None
    curv = None
    for ev in c["events"]:
        if ev[0] == "boundary":
            boundary = True
            continue
        repeated = False
        if first:
            first = False
        elif not boundary:
            it += 1
        else:
            repeated = True
        boundary = False
        xs = vecf(tval(c, ev[1]))
        xo = vecf(tval(c, ev[2])) if c["cross"] else xs
        rel = it - c["it0"]
        if c["type"] == "velocity":
            if rel == 0:
                vs = [Fr(0)] * len(xs)
                vo = [Fr(0)] * len(xo)
            elif repeated:
                vs, vo = curv      # the velocity of the first evaluation of this step is kept
            else:
                vs = [(a - b) / Fr(c["dt"]) for a, b in zip(xs, prevx[0])]
                vo = [(a - b) / Fr(c["dt"]) for a, b in zip(xo, prevx[1])]
            curv = (vs, vo)
            calcs.append((rel, it, vs, vo))
        else:
            calcs.append((rel, it, xs, xo))
        prevx = (xs, xo)
        if c["R"] and rel > 0 and it % c["R"] == 0:
            last_write = len(calcs) - 1
    return calcs, last_write


def acf_oracle(c, calcs):
    """documented correlation function from the de-duplicated history: rows (lag, value)"""
    q = {}
    for rel, it, s, o in calcs:
        if rel not in q:
            q[rel] = (s, o)
    tmax = max(q)
    M = c["len"] + c["off"]
    first = M * c["stride"] + 1
    origins = [u for u in range(first, tmax + 1)]
    n = len(origins)
    if n == 0:
        return None, 0

    def pair(a, b):
        if c["type"] == "coordinate_p2":
            dot = float(sum(x * y for x, y in zip(a, b)))
            na = math.sqrt(float(sum(x * x for x in a)))
            nb = math.sqrt(float(sum(x * x for x in b)))
            cs = dot / (na * nb)
            return 1.5 * cs * cs - 0.5
        return sum(x * y for x, y in zip(a, b))
    rows = []
    lags = [0] + [(c["off"] + kk) * c["stride"] for kk in range(1, c["len"] + 1)]
    c0 = None
    for lag in lags:
        tot = sum(pair(q[u - lag][0], q[u][1]) for u in origins)
        val = float(tot) / n
        if lag == 0:
            c0 = val
            if c["norm"] and abs(c0) < 1e-9:
                return "degenerate", n      # normalisation by C(0) = 0: undefined, skipped
        rows.append((lag, val / c0 if c["norm"] else val))
    return rows, n


def check_acf_case(run, c, k, impl_lines, scratch, model):
    replay = {"kind": "acf", "case": c}
    if any(l.startswith("CONFIG err=") and "err=ok" not in l for l in impl_lines) or any(l.startswith("STEP") and "err=ok" not in l for l in impl_lines):
        run.mismatch("acf:run", c, [l for l in impl_lines if "err=" in l][:6], "every step and configuration succeeds")
        return 0
    calcs, lw = acf_history(c)
    lw_restart = lw
    if c.get("post"):
        lw = len(calcs) - 1          # the end of the run writes the final accumulators
    com, rows = parse_numfile(os.path.join(scratch, "c%ds0.v0.corrfunc.dat" % k))
    if lw is None:
        if rows:
            run.mismatch("acf:written", c, rows[:3], "no write step in this run")
        return 0
    hist = calcs[:lw + 1]
    dim = len(hist[0][2])
    line = "ACF %s %d %d %d %d %d %d %s" % (c["type"], 1 if c["norm"] else 0, c["len"], c["stride"], c["off"], dim, len(hist),
                                         " ".join("%d %s %s" % (rel, " ".join(hx(float(x)) for x in s), " ".join(hx(float(x)) for x in o))
                                                  for rel, it, s, o in hist))
    rc, mout, err = V.run_lines(model, [line])
    if rc != 0 or len(mout) != 1:
        run.mismatch("acf:model-run", c, err[-300:], mout[:2])
        return 0
    nfr, _, rest = mout[0].partition("|")
    mrows = []
    for part in rest.split(" ; "):
        t = part.split()
        if t:
            mrows.append((int(t[0]), float.fromhex(t[1])))
    irows = [(a, b[0]) for a, b in rows]
    # ---- oracle
    orows, n = acf_oracle(c, hist)
    if c.get("post") and lw_restart != lw and orows not in ("degenerate", None):
        # is the file the one of the last restart-frequency step?
        stale = acf_oracle(c, calcs[:lw_restart + 1])[0] if lw_restart is not None else None
        if (stale is None and not irows) or (stale not in (None, "degenerate") and len(stale) == len(irows)
                                             and not all(close(a[1], b[1], 1e-6) for a, b in zip(stale, orows))
                                             and all(close(a[1], b[1], OTOL) for a, b in zip(irows, stale))):
            run.violation("acf:stale-at-end", "after the end of the run (last step %d) the correlation function file holds the "
                          "accumulators of step %s" % (calcs[lw][1], calcs[lw_restart][1] if lw_restart is not None else None), replay)
            return 0
    if orows == "degenerate":
        run.dist("acf:skipped-degenerate-normalisation")
        return 0
    if orows is None:
        if irows:
            run.violation("acf:written", "a correlation function was written although no time origin has a full window", replay)
    else:
        sig = "acf"
        if c["cross"]:
            sig += ":cross"
        if c["off"] > 0:
            sig += ":offset"
        if len(irows) != len(orows):
            run.violation(sig + ":rows", "%d rows written, %d lags documented (lag 0 and corrFuncLength lags)" % (len(irows), len(orows)), replay)
        else:
            for (la, va), (lb, vb) in zip(irows, orows):
                run.dist("oracle:acf-row")
                if la != lb:
                    run.violation(sig + ":lag", "row labelled with lag %d holds the value accumulated for lag %d" % (la, lb), replay)
                    break
                scale_ = max([abs(q[1]) for q in orows] + [1e-300])     # a correlation that is exactly 0 is written as rounding noise
                if not close(va, vb, 1e-9 if c["type"] == "coordinate_p2" else OTOL) and abs(va - vb) > 1e-13 * scale_:
                    run.violation(sig + ":value", "C(%d) written as %r, the documented %scorrelation over the %d time origins is %r"
                                  % (la, va, "normalised " if c["norm"] else "", n, vb), replay)
                    break
    # ---- tie
    if [a for a, _ in irows] != [a for a, _ in mrows]:
        run.mismatch("acf:lags", c, [a for a, _ in irows], [a for a, _ in mrows])
        return 0
    mscale = max([abs(q[1]) for q in mrows] + [1e-300])
    for (la, va), (lb, vb) in zip(irows, mrows):
        if not close(va, vb, 1e-10) and abs(va - vb) > 1e-13 * mscale:
            run.mismatch("acf:value", c, (la, va), (lb, vb))
    return len(irows)


def gen_acf_case(r, tier):
    ty = r.choice(["coordinate", "coordinate", "velocity", "coordinate_p2"])
    vtype = r.choice(["vec", "unit"]) if ty == "coordinate_p2" else r.choice(["z", "z", "vec", "unit", "zper", "cart"])
    if ty == "velocity" and vtype in ("unit", "zper", "cart"):
        vtype = "z"          # velocities of these types go through dist2_lgrad: not modelled
    ln = r.choice([1, 2, 3, 4])
    stride = r.choice([1, 1, 2, 3])
    off = r.choice([0, 0, 0, 1, 2])
    cross = r.random() < 0.3
    R = stride * r.choice([1, 2, 3, 4])
    M = (ln + off) * stride
    n = M + r.randint(2, 8) + (r.randint(0, 25) if tier != "quick" else 0)
    it0 = r.choice([0, 0, R * r.randint(1, 4), r.randint(1, 30)])
    dt = r.choice([0.5, 1.0, 2.0])

    def val():
        if vtype == "z":
            return V.dyadic(r, -4, 4, 2)
        if vtype == "zper":
            return V.dyadic(r, -10, 10, 2)
        while True:
            v = [V.dyadic(r, -4, 4, 2) for _ in range(3)]
            if any(v):
                return v
    events = []
    for _ in range(n):
        if events and r.random() < 0.08:
            last = [e for e in events if e[0] == "step"][-1]
            events += [["boundary"], list(last)]
        else:
            events.append(["step", val(), val() if cross else None])
    return {"kind": "acf", "type": ty, "vtype": vtype, "len": ln, "stride": stride, "off": off, "norm": r.random() < 0.6,
            "cross": cross, "R": r.choice([R, R, 0]), "it0": it0, "dt": dt, "events": events, "post": r.random() < 0.5,
            "outfile": r.random() < 0.3}


# ------------------------------------------------------------------ fixed scenarios (witnesses of the _refuted stage, kept as corpus)
def corpus_cases():
    z = lambda i, **kw: dict({"id": i, "type": "z", "value": True}, **kw)
    cs = []
    # running average, window 3: values 1 2 4 8 16 32
    cs.append({"kind": "runave", "L": 3, "stride": 1, "it0": 0, "events": [["step", float(2 ** i)] for i in range(7)]})
    cs.append({"kind": "runave", "L": 2, "stride": 2, "it0": 10, "events": [["step", float(i * i)] for i in range(9)] + [["restart"], ["step", 64.0]] + [["step", float(i)] for i in range(9, 16)]})
    # a flag switched through the script interface
    cs.append({"kind": "traj", "freq": 1, "it0": 0, "dt": 1.0, "vars": [z(0)], "biases": [],
               "events": [["step", {"0": 1.0}], ["set", "var", 0, "velocity", True], ["step", {"0": 2.0}], ["step", {"0": 4.0}]]})
    # alb with gradient and centres
    cs.append({"kind": "traj", "freq": 1, "it0": 0, "dt": 1.0, "vars": [z(0)],
               "biases": [{"id": 0, "kind": "alb", "vars": [0], "energy": True, "centers": True, "grad": True, "coupling": True}],
               "events": [["step", {"0": float(x)}] for x in (1.0, 2.0, 1.5, 1.25, 2.5, 0.5)]})
    # correlation function with an offset; cross-correlation
    ev = [["step", float(2 ** (i % 5)), None] for i in range(10)]
    cs.append({"kind": "acf", "type": "coordinate", "vtype": "z", "len": 1, "stride": 1, "off": 1, "norm": True, "cross": False,
               "R": 1, "it0": 0, "dt": 1.0, "events": ev})
    ev2 = [["step", 1.0 + (i % 2), float(2 ** (i % 4))] for i in range(10)]
    cs.append({"kind": "acf", "type": "coordinate", "vtype": "z", "len": 1, "stride": 1, "off": 0, "norm": False, "cross": True,
               "R": 1, "it0": 0, "dt": 1.0, "events": ev2})
    # label rule every 1000 lines, start just before
    cs.append({"kind": "traj", "freq": 2, "it0": 1997, "dt": 0.5, "vars": [z(0, velocity=True), z(1, aforce=True)],
               "biases": [{"id": 0, "kind": "harmonic", "vars": [0, 1], "c": [0.5, -0.5], "tc": [1.0, 1.0], "k": 2.0, "energy": True,
                           "centers": True, "chgc": True, "chgk": False, "tk": 1.0, "N": 8, "accw": True}],
               "events": [["step", {"0": 0.25 * i, "1": -0.5 * i}] for i in range(8)]})
    return cs


SCEN = {"traj": traj_scenario, "runave": runave_scenario, "acf": acf_scenario, "runavev": runavev_scenario, "out": out_scenario, "label": label_scenario, "disk": disk_scenario, "grid": grid_scenario}
CHECK = {"traj": check_traj_case, "runave": check_runave_case, "acf": check_acf_case, "runavev": check_runavev_case, "out": check_out_case, "label": check_label_case, "disk": check_disk_case, "grid": check_grid_case}


def run_cases(run, cases, unit, model, scratch):
    lines = ["chdir %s" % scratch]
    for k, c in enumerate(cases):
        lines += SCEN[c["kind"]](c, k)
    sc = os.path.join(scratch, "scenario.txt")
    with open(sc, "w") as f:
        f.write("\n".join(lines) + "\n")
    rc, out, err = V.sh([unit, sc], timeout=1200, cwd=scratch)
    per = {}
    cur = None
    for l in out.split("\n"):
        if l.startswith("echo CASE "):
            cur = int(l.split()[2])
            per[cur] = {"lines": [], "done": False}
        elif l.startswith("echo END "):
            if cur is not None:
                per[cur]["done"] = True
            cur = None
        elif cur is not None:
            per[cur]["lines"].append(l)
    total = 0
    for k, c in enumerate(cases):
        p = per.get(k)
        if not p or not p["done"]:
            run.violation("run:crash", "the scenario did not complete (exit code %d): %s" % (rc, err[-300:]), {"kind": c["kind"], "case": c})
            break
        n = CHECK[c["kind"]](run, c, k, p["lines"], scratch, model)
        total += n
        key = json.dumps({kk: vv for kk, vv in c.items() if kk != "events"}, sort_keys=True) + "|%d" % len(c.get("events", []))
        run.count(key, n > 0)
        run.dist(c["kind"])
        if c["kind"] == "traj":
            run.dist("traj:nbias=%d" % len(c["biases"]))
            if c.get("big"):
                run.dist("traj:wide-numbers")
            for e in c["events"]:
                if e[0] != "step":
                    run.dist("traj:event:" + e[0])
        elif c["kind"] == "runave":
            run.dist("runave:L=%d,stride=%d" % (c["L"], c["stride"]))
        elif c["kind"] == "label":
            run.dist("label")
        elif c["kind"] == "disk":
            run.dist("disk:R=%d" % c["R"])
        elif c["kind"] == "grid":
            run.dist("grid:%dd" % len(c["dims"]))
        elif c["kind"] == "out":
            run.dist("out:R=%d" % c["R"])
        elif c["kind"] == "runavev":
            run.dist("runavev:%s:start%s" % (c["vtype"], "=0" if c["t0"] == 0 else (":on-grid" if c["t0"] % c["stride"] == 0 else ":off-grid")))
        else:
            run.dist("acf:%s:%s%s%s" % (c["type"], c["vtype"], ":cross" if c["cross"] else "", ":offset" if c["off"] else ""))
        run.sample({"kind": c["kind"], "case": {kk: vv for kk, vv in c.items() if kk != "events"}, "n_events": len(c.get("events", [])), "compared_values": n})
    return total


def setup():
    V.extract_model("C19", EXTRACT, DRIVER, ["ocaml/fops.ml"])
    V.build_prog("c19unit", PROGS["c19unit"])


def check(run):
    st = V.standard_start(run, PROP, EXTRACT, DRIVER, PROGS)
    if st is None:
        return
    model, exes = st
    unit = exes["c19unit"]
    scratch = V.scratch("C19")
    r = V.rng("C19")
    cases = corpus_cases()
    # corpus files: one JSON case per line
    cdir = os.path.join(V.ROOT, "corpus")
    if os.path.isdir(cdir):
        for fn in sorted(os.listdir(cdir)):
            if fn.startswith("C19_"):
                for l in open(os.path.join(cdir, fn)):
                    l = l.strip()
                    if l and not l.startswith("#"):
                        cases.append(json.loads(l))
    mult = 1 if run.tier == "quick" else 12
    for _ in range(140 * mult):
        cases.append(gen_traj_case(r, run.tier))
    for _ in range(12 * mult):
        cases.append(gen_traj_big(r, run.tier))
    for _ in range(100 * mult):
        cases.append(gen_runave_case(r, run.tier))
    for _ in range(100 * mult):
        cases.append(gen_acf_case(r, run.tier))
    for _ in range(100 * mult):
        cases.append(gen_runavev_case(r, run.tier))
    for _ in range(60 * mult):
        cases.append(gen_out_case(r, run.tier))
    for _ in range(30 * mult):
        cases.append(gen_label_case(r, run.tier))
    for _ in range(30 * mult):
        cases.append(gen_disk_case(r, run.tier))
    for _ in range(30 * mult):
        cases.append(gen_grid_case(r, run.tier))
    total = run_cases(run, cases, unit, model, scratch)
    run.cov["rule"] = ("a case is one scenario (trajectory / running average / correlation function) driven through the engine "
                       "simulator; distinct = distinct configuration+length; nontrivial = at least one written number was compared")
    run.cov["correspondence"]["compared_values"] = total
    run.notes.append("tie: files written by the rebuilt library (.colvars.traj, .runave.traj, .corrfunc.dat) vs lines of the extracted model")


def replay(path):
    j = json.load(open(path))
    rp = j["replay"]
    print(json.dumps({k: v for k, v in j.items() if k != "replay"}, indent=1)[:2000])
    if rp.get("kind") in SCEN:
        model = V.extract_model("C19", EXTRACT, DRIVER, ["ocaml/fops.ml"])
        unit = V.build_prog("c19unit", PROGS["c19unit"])
        scratch = V.scratch("C19-replay")
        c = rp["case"]
        run = V.Run("C19", "replay")
        run_cases(run, [c], unit, model, scratch)
        print("scenario:\n  " + "\n  ".join(SCEN[c["kind"]](c, 0)))
        for fn in sorted(os.listdir(scratch)):
            if fn.endswith(".traj") or fn.endswith(".dat"):
                print("---- " + fn)
                print(open(os.path.join(scratch, fn)).read())
        for sig, what, _, _ in run.violations:
            print("ORACLE %s: %s" % (sig, what))
        for comp, lst in getattr(run, "mismatches", {}).items():
            print("TIE %s: impl %s model %s" % (comp, lst[0]["impl"], lst[0]["model"]))
    else:
        print(json.dumps(rp, indent=1)[:3000])
    return 0
