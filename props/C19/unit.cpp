// C19 harness: the engine simulator plus
//   idump        print, in hex floats, the internal quantities the trajectory columns are printed from
//                (per variable: x, x_reported, v_fdiff, v_reported, potential/kinetic energy, ft_reported,
//                applied_force(); per bias: bias_energy, centres, acc_work, abmd reference, alb couplings)
//   capture      send the module's log to a buffer;  wlog: print which files it reported writing since the last wlog
//   diskcopy A B copy file A as it is on disk now (no flush) to B
//   gdump        print the count / force-sum grids of ABF biases and the hills-energy grid of metadynamics biases
//   flush        flush all output streams of the module (files are then complete on disk)
//   chdir D      change the working directory (output files are created relative to it)
// Reads scenarios from stdin/argv[1].
#include <cstdio>
#include <cstdlib>
#include <cstring>
#include <cmath>
#include <iostream>
#include <fstream>
#include <sstream>
#include <string>
#include <vector>
#include <map>
#include <algorithm>
#include <functional>
#include <thread>
#include <mutex>
#include <list>
#include <set>
#include <memory>
#include <iomanip>
#include <unordered_map>
#include <unistd.h>
#define private public
#define protected public
#include "vsim.h"
#include "colvarbias_restraint.h"
#include "colvarbias_abmd.h"
#include "colvarbias_alb.h"
#include "colvarbias_abf.h"
#include "colvarbias_meta.h"
#include "colvarbias_histogram.h"
#include "colvargrid.h"

struct c19_session : public vsim_session {
  std::ostringstream cap;
  c19_session(std::ostream *o) : vsim_session(o) {}

  static std::string us(std::string s) { std::replace(s.begin(), s.end(), ' ', ','); return s; }
  static std::string hexlist(std::vector<colvarvalue> const &v)
  {
    std::string s;
    for (size_t i = 0; i < v.size(); i++) { if (i) s += ";"; s += us(vs_hex(v[i])); }
    return s.size() ? s : "-";
  }

  bool exec_extra(std::string const &cmd, std::vector<std::string> const &a, std::istream &) override
  {
    std::ostream &o = *out;
    if (cmd == "chdir") {
      if (chdir(a[0].c_str()) != 0) o << "CHDIR-FAILED " << a[0] << "\n";
      return true;
    }
    if (cmd == "capture") { if (proxy) proxy->logos = &cap; return true; }
    if (cmd == "wlog") {
      // which files the module reported writing since the last wlog
      std::string txt = cap.str(); cap.str(""); cap.clear();
      std::istringstream ls(txt);
      std::string l;
      while (std::getline(ls, l)) {
        size_t q;
        if (l.find("Saving collective variables state to") != std::string::npos) o << "WROTE state it=" << cvm::step_absolute() << "\n";
        else if (l.find("Writing correlation function to file") != std::string::npos) o << "WROTE colvar it=" << cvm::step_absolute() << "\n";
        else if ((q = l.find("Writing the histogram file \"")) != std::string::npos) {
          std::string f = l.substr(q + 28);
          f = f.substr(0, f.find('"'));
          if (f.size() > 4 && f.substr(f.size() - 4) == ".dat") o << "WROTE bias " << f << " it=" << cvm::step_absolute() << "\n";
        }
      }
      return true;
    }
    if (cmd == "diskcopy") {
      // the file as it is on disk right now (what a crash would leave), without flushing anything
      std::ifstream in(a[0].c_str(), std::ios::binary);
      std::ofstream outf(a[1].c_str(), std::ios::binary);
      if (in) outf << in.rdbuf();
      return true;
    }
    if (cmd == "gdump") {
      // the grids behind the output files of ABF (counts, force sums) and metadynamics (tabulated hills energy)
      for (colvarbias *b : proxy->colvars->biases) {
        if (colvarbias_abf *a = dynamic_cast<colvarbias_abf *>(b)) {
          o << "GA " << a->name << " it=" << cvm::step_absolute() << " samples=";
          for (size_t i = 0; i < a->samples->data.size(); i++) { if (i) o << ","; o << a->samples->data[i]; }
          o << " gradients=";
          for (size_t i = 0; i < a->gradients->data.size(); i++) { if (i) o << ","; o << vs_hex(a->gradients->data[i]); }
          o << "\n";
        }
        if (colvarbias_histogram *h = dynamic_cast<colvarbias_histogram *>(b)) {
          if (h->grid) {
            o << "GH " << h->name << " it=" << cvm::step_absolute() << " data=";
            for (size_t i = 0; i < h->grid->data.size(); i++) { if (i) o << ","; o << vs_hex(h->grid->data[i]); }
            o << "\n";
          }
        }
        if (colvarbias_meta *m = dynamic_cast<colvarbias_meta *>(b)) {
          if (m->hills_energy) {
            o << "GM " << m->name << " it=" << cvm::step_absolute() << " energy=";
            for (size_t i = 0; i < m->hills_energy->data.size(); i++) { if (i) o << ","; o << vs_hex(m->hills_energy->data[i]); }
            o << "\n";
          }
        }
      }
      return true;
    }
    if (cmd == "flush") {
      if (proxy) proxy->flush_output_streams();
      return true;
    }
    if (cmd == "idump") {
      colvarmodule *cv = proxy->colvars;
      for (colvar *c : *(cv->variables())) {
        o << "IV " << c->name << " it=" << cvm::step_absolute()
          << " x=" << us(vs_hex(c->x)) << " xrep=" << us(vs_hex(c->x_reported))
          << " vfd=" << us(vs_hex(c->v_fdiff)) << " vrep=" << us(vs_hex(c->v_reported))
          << " ep=" << vs_hex(c->potential_energy) << " ek=" << vs_hex(c->kinetic_energy)
          << " ft=" << us(vs_hex(c->ft_reported)) << " fa=" << us(vs_hex(c->applied_force())) << "\n";
      }
      for (colvarbias *b : cv->biases) {
        o << "IB " << b->name << " it=" << cvm::step_absolute() << " be=" << vs_hex(b->bias_energy);
        if (colvarbias_restraint_centers *c = dynamic_cast<colvarbias_restraint_centers *>(b)) o << " bc=" << hexlist(c->colvar_centers);
        if (colvarbias_restraint_moving *m = dynamic_cast<colvarbias_restraint_moving *>(b)) o << " bw=" << vs_hex(m->acc_work);
        if (colvarbias_abmd *ab = dynamic_cast<colvarbias_abmd *>(b)) o << " bref=" << vs_hex(ab->ref_val);
        if (colvarbias_alb *al = dynamic_cast<colvarbias_alb *>(b)) {
          o << " bc=" << hexlist(al->colvar_centers) << " bcoup=";
          for (size_t i = 0; i < al->current_coupling.size(); i++) { if (i) o << ";"; o << vs_hex(al->current_coupling[i]); }
          o << " bgrad=";
          for (size_t i = 0; i < al->means.size(); i++) {
            if (i) o << ";";
            o << vs_hex(-2.0 * (al->means[i] / (static_cast<cvm::real>(al->colvar_centers[i])) - 1) * al->ssd[i] / (fmax(al->update_calls, 2.0) - 1));
          }
        }
        o << "\n";
      }
      return true;
    }
    return false;
  }
};

int main(int argc, char **argv)
{
  c19_session s(&std::cout);
  if (argc > 1 && std::string(argv[1]) != "-") {
    std::ifstream f(argv[1]);
    if (!f) { std::cerr << "cannot open " << argv[1] << "\n"; return 2; }
    s.run(f);
  } else {
    s.run(std::cin);
  }
  std::cout.flush();
  return 0;
}
