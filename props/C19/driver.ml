(* C19 model driver: evaluates the extracted OutputModel on case lines from stdin.
   TRAJ freq <cfg> nev <events>        -> "L name name .. ; D it src src .. ; ..."
       <cfg> = nv (id value velocity energy tforce aforce extlag external)* nb (id kind nvars var* energy centers chgc chgk accw coupling grad)*
       events: C it | G <cfg> | S <cfg> | F f | R it0
   VEL dt n (t x)*                     -> hex values of v_<name>
   RUNAVE L stride it0 n (t x)*        -> "t av var sd ; ..."
   OUT restartfreq it_restart nb (b f)* nev (C it | E it)*   -> "state@it colvar@it b0@it .."
   RUNAVEV kind [period] L stride it0 dim n (t x{dim})* -> "t av,av,.. var sd ; ..."
   ACF type normalize len stride off dim n (t self{dim} other{dim})*  -> "nframes | lag val ; ..." *)
open Model
open X_fops

let rec nat_of_int n = if n <= 0 then O else S (nat_of_int (n - 1))
let rec int_of_nat = function O -> 0 | S m -> 1 + int_of_nat m

let vn v = "v" ^ string_of_int (int_of_z v)
let bn b = "b" ^ string_of_int (int_of_z b)
let codes s = List.init (String.length s) (fun i -> nat_of_int (Char.code s.[i]))
let text l = String.concat "" (List.map (fun c -> String.make 1 (Char.chr (int_of_nat c))) l)
(* label text from the model's table of prefixes and widths (col_label); names default to v<i> / b<j> *)
let vnames : (int * string) list ref = ref []
let bnames : (int * string) list ref = ref []
let vname v = codes (try List.assoc (int_of_z v) !vnames with Not_found -> vn v)
let bname b = codes (try List.assoc (int_of_z b) !bnames with Not_found -> bn b)
let col_s = function
  | CCoupling (b, v) -> "ForceConst@" ^ bn b ^ "@" ^ vn v     (* followed by the index of the variable in the bias *)
  | c -> text (col_label vname bname c)
let src_s = function
  | SX v -> "x:" ^ vn v | SXrep v -> "xrep:" ^ vn v | SVfd v -> "vfd:" ^ vn v | SVrep v -> "vrep:" ^ vn v
  | SEp v -> "ep:" ^ vn v | SEk v -> "ek:" ^ vn v | SFt v -> "ft:" ^ vn v | SFa v -> "fa:" ^ vn v
  | SBE b -> "be:" ^ bn b | SBC (b, v) -> "bc:" ^ bn b ^ ":" ^ vn v | SBW b -> "bw:" ^ bn b
  | SBRef (b, _) -> "bref:" ^ bn b | SBCoup (b, v) -> "bcoup:" ^ bn b ^ ":" ^ vn v | SBGrad (b, v) -> "bgrad:" ^ bn b ^ ":" ^ vn v

let () =
  try
    while true do
      let line = input_line stdin in
      let w = Array.of_list (words line) in
      if Array.length w > 0 then begin
        let p = ref 1 in
        let next () = let s = w.(!p) in Stdlib.incr p; s in
        let nf () = fl (next ()) in
        let ni () = int_of_string (next ()) in
        let nb () = ni () <> 0 in
        let nz () = z_of_int (ni ()) in
        let nn () = nat_of_int (ni ()) in
        let cfg () =
          let nv = ni () in
          let vars = List.init nv (fun _ ->
              let id = nz () in let a = nb () in let b = nb () in let c = nb () in let d = nb () in
              let e = nb () in let f = nb () in let g = nb () in
              { vf_id = id; vf_value = a; vf_velocity = b; vf_energy = c; vf_tforce = d; vf_aforce = e;
                vf_extlag = f; vf_external = g }) in
          let nbs = ni () in
          let biases = List.init nbs (fun _ ->
              let id = nz () in
              let kind = (match next () with
                  | "generic" -> BGeneric | "harmonic" -> BHarmonic | "linear" -> BLinear | "walls" -> BWalls
                  | "histrestraint" -> BHistRestraint | "abmd" -> BAbmd | _ -> BAlb) in
              let nvv = ni () in
              let vs = List.init nvv (fun _ -> nz ()) in
              let a = nb () in let b = nb () in let c = nb () in let d = nb () in let e = nb () in
              let f = nb () in let g = nb () in
              { bf_id = id; bf_kind = kind; bf_vars = vs; bf_energy = a; bf_centers = b; bf_chg_centers = c;
                bf_chg_k = d; bf_acc_work = e; bf_coupling = f; bf_grad = g }) in
          { c_vars = vars; c_biases = biases } in
        (match w.(0) with
         | "TRAJ" | "TRAJN" ->
           vnames := []; bnames := [];
           if w.(0) = "TRAJN" then begin
             let nvn = ni () in
             vnames := List.init nvn (fun _ -> let i = ni () in let s = next () in (i, s));
             let nbn = ni () in
             bnames := List.init nbn (fun _ -> let i = ni () in let s = next () in (i, s))
           end;
           let freq = nz () in
           let c0 = cfg () in
           let nev = ni () in
           let evs = List.init nev (fun _ ->
               match next () with
               | "C" -> TCalc (nz ())
               | "G" -> TConfig (cfg ())
               | "S" -> TScriptSet (cfg ())
               | "F" -> TFreq (nz ())
               | _ -> TRestart (nz ())) in
           let (_, lines) = traj_run (traj_init freq c0) evs in
           let out = List.map (function
               | LLabel (cols, _) -> "L " ^ String.concat " " (List.map col_s cols)
               | LData (it, fs) -> "D " ^ string_of_int (int_of_z it) ^ " " ^ String.concat " " (List.map src_s fs)) lines in
           Printf.printf "%s\n" (String.concat " ; " out)
         | "VEL" ->
           let dt = nf () in let n = ni () in
           let h = List.init n (fun _ -> let t = nn () in let x = nf () in (t, x)) in
           let r = vel_run fops dt { vs_xold = 0.0; vs_vfdiff = 0.0; vs_vrep = 0.0 } None h in
           Printf.printf "%s\n" (String.concat " " (List.map hex r))
         | "RUNAVE" ->
           let l = nn () in let stride = nn () in let it0 = nn () in let n = ni () in
           let h = List.init n (fun _ -> let t = nn () in let x = nf () in (t, x)) in
           let r = runave_run fops l stride it0 r0 None h in
           Printf.printf "%s\n" (String.concat " ; " (List.map (fun (((t, av), var), sd) ->
               Printf.sprintf "%d %s %s %s" (int_of_nat t) (hex av) (hex var) (hex sd)) r))
         | "LABEL" ->
           (* LABEL width prefix|- name : characters as they are *)
           let width = nn () in let pre = next () in let name = next () in
           let pre = if pre = "-" then "" else pre in
           let tok = label_token (codes pre) (codes name) width in
           Printf.printf "%s\n" (text tok)
         | "LFRUN" ->
           (* LFRUN n (rel enabled f)* -> ft after each evaluation *)
           let n = ni () in
           let h = List.init n (fun _ -> let r = nn () in let e = nb () in let f = nf () in ((r, e), f)) in
           let rec go s acc = function
             | [] -> List.rev acc
             | e :: r -> let s1 = lf_run s [e] in go s1 (hex s1.lf_ft :: acc) r in
           Printf.printf "%s\n" (String.concat " " (go (lf0 fops) [] h))
         | "MULTICOL" ->
           (* MULTICOL nd (n lower width)* nvals v.. -> "B" / "D c,c | v" lines joined by " ; "  (one value per record) *)
           let nd = ni () in
           let dims = List.init nd (fun _ -> let n = nn () in let l = nf () in let w = nf () in (n, (l, w))) in
           let nv = ni () in
           let vals = Array.init nv (fun _ -> nf ()) in
           let nx = List.map fst dims in let geom = List.map snd dims in
           let nxi = List.map int_of_nat nx in
           let addr ix = List.fold_left2 (fun acc i n -> acc * n + int_of_nat i) 0 ix nxi in
           let ls = write_multicol fops nx geom (fun ix -> [vals.(addr ix)]) in
           Printf.printf "%s\n" (String.concat " ; " (List.map (function
               | MBlank -> "B"
               | MData (c, v) -> "D " ^ String.concat "," (List.map hex c) ^ " | " ^ String.concat "," (List.map hex v)) ls))
         | "DISK" ->
           (* DISK rfreq freq it_restart <cfg> n it.. -> number of lines on disk after each calc (no spill) *)
           let rf = nz () in let freq = nz () in let itr = nz () in let c0 = cfg () in let n = ni () in
           let its = List.init n (fun _ -> nz ()) in
           let s0 = { t_freq = freq; t_cfg = c0; t_labels = true; t_it_restart = itr } in
           let rec prefixes acc = function [] -> [] | x :: r -> let a = acc @ [x] in a :: prefixes a r in
           let counts = List.map (fun pre -> let (d, _) = buf_run [] [] (traj_bevents rf s0 pre) in List.length d) (prefixes [] its) in
           Printf.printf "%s\n" (String.concat " " (List.map string_of_int counts))
         | "ABFHIST" ->
           let hf = nz () in let n = ni () in
           let w = List.init n (fun _ -> nz ()) in
           Printf.printf "%s\n" (String.concat " " (List.map (fun it -> string_of_int (int_of_z it)) (abf_hist hf None w)))
         | "OUT" ->
           let rf = nz () in let itr = nz () in let nbs = ni () in
           let bs = List.init nbs (fun _ -> let b = nz () in let f = nz () in (b, f)) in
           let nev = ni () in
           let evs = List.init nev (fun _ -> match next () with "C" -> OCalc (nz ()) | _ -> OEnd (nz ())) in
           let w = out_run { oc_restart_freq = rf; oc_it_restart = itr; oc_biases = bs } evs in
           Printf.printf "%s\n" (String.concat " " (List.map (fun (it, f) ->
               (match f with FState -> "state" | FColvar -> "colvar" | FBias b -> "b" ^ string_of_int (int_of_z b)) ^ "@" ^ string_of_int (int_of_z it)) w))
         | "RUNAVEV" ->
           let kind = (match next () with
               | "scalar" -> KScalar | "periodic" -> let p = nf () in KPeriodic (p, 0.0) | "vector3" -> KVector3 | "quat" -> KQuat | _ -> KUnit3) in
           let l = nn () in let stride = nn () in let it0 = nn () in let dim = ni () in let n = ni () in
           let h = List.init n (fun _ -> let t = nn () in let x = List.init dim (fun _ -> nf ()) in (t, x)) in
           let r = runaveV_run fops (lv_ops fops kind) l stride it0 rv0 None h in
           Printf.printf "%s\n" (String.concat " ; " (List.map (fun (((t, av), var), sd) ->
               Printf.sprintf "%d %s %s %s" (int_of_nat t) (String.concat "," (List.map hex av)) (hex var) (hex sd)) r))
         | "ACF" ->
           let ty = (match next () with "velocity" -> AcfVel | "coordinate" -> AcfCoor | _ -> AcfP2) in
           let norm = nb () in let len = nn () in let stride = nn () in let off = nn () in
           let dim = ni () in let n = ni () in
           let h = List.init n (fun _ ->
               let t = nn () in
               let a = List.init dim (fun _ -> nf ()) in
               let b = List.init dim (fun _ -> nf ()) in (t, (a, b))) in
           let (rows, nfr) = acf_model fops ty norm len stride off h in
           Printf.printf "%d | %s\n" (int_of_nat nfr)
             (String.concat " ; " (List.map (fun (lag, v) -> Printf.sprintf "%d %s" (int_of_nat lag) (hex v)) rows))
         | _ -> Printf.printf "?\n")
      end
    done
  with End_of_file -> ()
