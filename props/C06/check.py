# C06: restraints implement their documented potentials and time schedules.
import os, sys, json, math, re
from fractions import Fraction as Fr
import vcommon as V

PROP = "coq/C06/Properties_C06.v"
EXTRACT = "coq/C06/Extract_C06.v"
DRIVER = "props/C06/driver.ml"
PROGS = {"c06unit": ["props/C06/unit.cpp"]}
TOL = 1e-9


def close(a, b, tol=TOL):
    return abs(a - b) <= tol * max(1.0, abs(a), abs(b))


def hx(x):
    return V.hexf(x)


# ------------------------------------------------------------------ scenario -> config text
def colvar_block(i, v):
    L = ["colvar {", "  name v%d" % i, "  width %r" % v["w"], "  distanceZ {", "    main { atomNumbers %d }" % (i + 1),
         "    ref { dummyAtom (0,0,0) }", "    axis (0,0,1)"]
    if v["per"]:
        L += ["    period %r" % v["P"], "    wrapAround %r" % v["wc"]]
    L += ["  }", "}"]
    return L


def vec(l):
    return " ".join("%r" % x for x in l)


def bias_block(c):
    kw = {"harmonic": "harmonic", "walls": "harmonicWalls", "linear": "linear"}[c["kind"]]
    L = [kw + " {", "  name r", "  colvars " + " ".join("v%d" % i for i in range(len(c["vars"])))]
    if c["kind"] != "walls":
        L.append("  centers " + vec(c["centers"]))
    else:
        if c["hl"]:
            L.append("  lowerWalls " + vec(c["lower"]))
        if c["hu"]:
            L.append("  upperWalls " + vec(c["upper"]))
        if c.get("lwk") is not None:
            if c["hl"]:
                L.append("  lowerWallConstant %r" % c["lwk"])
            if c["hu"]:
                L.append("  upperWallConstant %r" % c["uwk"])
    if c.get("k") is not None:
        L.append("  forceConstant %r" % c["k"])
    m = c["mode"]
    if m in ("cc", "cs"):
        L.append("  targetCenters " + vec(c["target_centers"]))
    if m in ("kc", "ks", "kl"):
        if c["dec"]:
            L.append("  decoupling on")
        else:
            L.append("  targetForceConstant %r" % c["tk"])
        if c["lexp"] != 1.0:
            L.append("  lambdaExponent %r" % c["lexp"])
    if m != "none":
        L.append("  targetNumSteps %d" % c["N"])
    if m in ("cs", "ks"):
        L.append("  targetNumStages %d" % c["nstages"])
    if m == "kl":
        L.append("  lambdaSchedule " + vec(c["sched"]))
    if m in ("ks", "kl") and c["equil"]:
        L.append("  targetEquilSteps %d" % c["equil"])
    if c["accw"]:
        L.append("  outputAccumulatedWork on")
    L.append("}")
    return L


def config_text(c):
    L = []
    for i, v in enumerate(c["vars"]):
        L += colvar_block(i, v)
    L += bias_block(c)
    return L


def scenario(c, k, scratch):
    conf = ["config EOF"] + config_text(c) + ["EOF"]
    L = ["echo CASE %d" % k, "natoms %d" % len(c["vars"]), "new"]
    if c["it0"]:
        L.append("setstep %d" % c["it0"])
    L += ["capture"] + conf + ["show atomf 0 cv 0 energy 0 bias 0"]
    nsave = 0
    for typ, xs in c["events"]:
        for i, x in enumerate(xs):
            L.append("pos %d 0 0 %s" % (i + 1, hx(x)))
        if typ == "B":
            L.append("runboundary")
        elif typ == "R":
            f = os.path.join(scratch, "c%d_%d.state" % (k, nsave))
            nsave += 1
            ld = "load" if not c.get("mem") else ("loadbuf" if c.get("fmt", "text") == "binary" else "loadstr")   # file / memory buffer / string
            L += ["save %s %s" % (c.get("fmt", "text"), f), "fresh", "capture"] + conf + ["%s %s" % (ld, f)]
        L += ["step", "rdump"]
    L.append("echo END %d" % k)
    return L


# ------------------------------------------------------------------ scenario -> model case
def post_init(c, wallsinit):
    """configuration as it stands after init (mirrors the init functions; the wall constants go
    through the model's own walls_init)"""
    nv = len(c["vars"])
    d = {}
    kcfg = c["k"] if c.get("k") is not None else 1.0
    if c["kind"] == "walls":
        lk = c["lwk"] if (c.get("lwk") is not None and c["hl"]) else (kcfg if c["hl"] else -1.0)
        uk = c["uwk"] if (c.get("lwk") is not None and c["hu"]) else (kcfg if c["hu"] else -1.0)
        k0, lk2, uk2 = wallsinit(c["hl"], c["hu"], lk, uk)
        d["lk"], d["uk"] = lk2, uk2
    else:
        k0 = kcfg
        d["lk"], d["uk"] = -1.0, -1.0
    d["k0"] = k0
    m = c["mode"]
    d["chgc"] = m in ("cc", "cs")
    d["chgk"] = m in ("kc", "ks", "kl")
    d["sk"], d["tk"] = -1.0, -1.0
    if d["chgk"]:
        if c["dec"]:
            d["sk"], d["tk"] = 0.0, kcfg
        else:
            d["sk"], d["tk"] = kcfg, c["tk"]
        if c["kind"] == "walls":
            d["sk"] = 0.0 if c["dec"] else k0
    d["nstages"] = (len(c["sched"]) - 1) if m == "kl" else (c["nstages"] if m in ("cs", "ks") else 0)
    return d


def model_case(c, wallsinit):
    d = post_init(c, wallsinit)
    nv = len(c["vars"])
    p = ["RUN", c["kind"], str(nv)]
    for v in c["vars"]:
        p += [hx(v["w"]), "1" if v["per"] else "0", hx(v.get("P", 1.0)), hx(v.get("wc", 0.0))]
    cen = c["centers"] if c["kind"] != "walls" else [0.0] * nv
    p += [hx(x) for x in cen]
    p += ["1" if d["chgc"] else "0"] + [hx(x) for x in (c["target_centers"] if d["chgc"] else cen)]
    p += [hx(d["k0"]), "1" if d["chgk"] else "0", "1" if c.get("dec") else "0", hx(d["sk"]), hx(d["tk"]), hx(c.get("lexp", 1.0))]
    sched = c["sched"] if c["mode"] == "kl" else []
    p += [str(len(sched))] + [hx(x) for x in sched]
    p += [str(c.get("N", 0)), str(d["nstages"]), str(c.get("equil", 0) if c["mode"] in ("ks", "kl") else 0)]
    p += ["1" if c["accw"] else "0", "1" if c.get("hl") else "0", "1" if c.get("hu") else "0"]
    p += [hx(x) for x in (c["lower"] if c.get("hl") else [0.0] * nv)]
    p += [hx(x) for x in (c["upper"] if c.get("hu") else [0.0] * nv)]
    p += [hx(d["lk"]), hx(d["uk"]), str(c["it0"]), str(len(c["events"]))]
    for typ, xs in c["events"]:
        p += [typ] + [hx(x) for x in xs]
    return " ".join(p), d


# ------------------------------------------------------------------ output parsing
def parse_fields(s):
    d = {}
    for tok in s.split():
        if "=" in tok:
            a, b = tok.split("=", 1)
            d[a] = b
    return d


def flist(s):
    if s is None or s == "-" or s == "":
        return []
    return [float.fromhex(t) for t in s.split(",")]


def vlist(s):
    """list of vector values: variables separated by ',', components by '/'"""
    if s is None or s == "-" or s == "":
        return []
    return [[float.fromhex(u) for u in t.split("/")] for t in s.split(",")]


def parse_model_line(line):
    out = []
    for part in line.split(" ; "):
        d = parse_fields(part)
        if not d:
            continue
        o = {"it": int(d["it"]), "E": float.fromhex(d["E"]), "F": flist(d["F"]), "C": flist(d["C"]),
             "K": float.fromhex(d["K"]), "ST": int(d["ST"]), "FS": int(d["FS"]), "W": float.fromhex(d["W"]),
             "FE": float.fromhex(d["FE"]), "KI": float.fromhex(d["KI"]), "L": None}
        if d["L"] != "-":
            a, b = d["L"].split(":")
            o["L"] = (float.fromhex(a), float.fromhex(b))
        out.append(o)
    return out


def parse_impl(lines):
    """split the harness output into cases: {k: {"steps": [...], "raw": [...], "complete": bool}}"""
    cases = {}
    cur = None
    ti = []
    for l in lines:
        if l.startswith("echo CASE"):
            cur = int(l.split()[2])
            cases[cur] = {"steps": [], "raw": [], "complete": False, "config": []}
            ti = []
            continue
        if cur is None:
            continue
        cs = cases[cur]
        cs["raw"].append(l)
        if l.startswith("echo END"):
            cs["complete"] = True
            cur = None
        elif l.startswith("CONFIG") or l.startswith("LOAD") or l.startswith("SAVE"):
            cs["config"].append(l)
        elif l.startswith("STEP ") and "err=" in l and "err=ok" not in l:
            cs["config"].append(l)          # a step that raised an error: the scenario is not a valid history
        elif l.startswith("TI "):
            m = re.search(r"Lambda=\s*(\S+)\s+dA/dLambda=\s*(\S+)", l)
            if m:
                ti.append((float(m.group(1)), float(m.group(2))))
        elif l.startswith("RD "):
            d = parse_fields(l)
            vec = "/" in (d.get("X") or "")
            o = {"it": int(d["it"]), "E": float.fromhex(d["E"]),
                 "F": (vlist if vec else flist)(d.get("F")), "C": (vlist if vec else flist)(d.get("C")),
                 "X": (vlist if vec else flist)(d.get("X")),
                 "K": float.fromhex(d["K"]) if "K" in d else None, "ST": int(d.get("ST", 0)), "FS": int(d.get("FS", 0)),
                 "W": float.fromhex(d.get("W", "0x0p+0")), "FE": float.fromhex(d.get("FE", "0x0p+0")),
                 "KI": float.fromhex(d.get("KI", "0x0p+0")), "TI": ti,
                 "REF": float.fromhex(d["REF"]) if "REF" in d else None}
            ti = []
            cs["steps"].append(o)
    return cases


# ------------------------------------------------------------------ exact closed forms (the specification)
def fr(x):
    return Fr(x)


def shortest(d, P):
    """representative of d modulo P with the smallest absolute value (either one at a tie)"""
    n = (d / P + Fr(1, 2)).__floor__()
    return d - n * P


def spec_terms(c, d, k, centers, xs):
    """(energy, forces, dU/dk) of the documented potential at force constant k and the given centres"""
    E = Fr(0)
    F = []
    dUdk = Fr(0)
    for i, v in enumerate(c["vars"]):
        w2 = fr(v["w"]) ** 2
        x = fr(xs[i])
        if c["kind"] == "harmonic":
            dd = x - fr(centers[i])
            if v["per"]:
                dd = shortest(dd, fr(v["P"]))
            E += k * dd * dd / (2 * w2)
            dUdk += dd * dd / (2 * w2)
            F.append(-k * dd / w2)
        elif c["kind"] == "linear":
            E += k * (x - fr(centers[i])) / fr(v["w"])
            dUdk += (x - fr(centers[i])) / fr(v["w"])
            F.append(-k / fr(v["w"]))
        else:
            lk, uk = fr(d["lk"]), fr(d["uk"])
            if v["per"]:
                P = fr(v["P"])
                lo, up = fr(c["lower"][i]), fr(c["upper"][i])
                # position on the circle relative to the lower wall: inside the arc [lo, up] -> no force
                a = (x - lo) - ((x - lo) / P).__floor__() * P      # in [0, P)
                arc = up - lo
                if a <= arc:
                    dist, sc = Fr(0), lk
                else:
                    da = a - arc         # beyond the upper wall
                    db = P - a           # before the lower wall
                    if db < da:
                        dist, sc = -db, lk
                    else:
                        dist, sc = da, uk
            else:
                dist, sc = Fr(0), lk
                if c["hl"] and x < fr(c["lower"][i]):
                    dist, sc = x - fr(c["lower"][i]), lk
                elif c["hu"] and x > fr(c["upper"][i]):
                    dist, sc = x - fr(c["upper"][i]), uk
            E += k * sc * dist * dist / (2 * w2)
            dUdk += sc * dist * dist / (2 * w2)
            F.append(-k * sc * dist / w2)
    return E, F, dUdk


def fpow(lam, e):
    if float(e).is_integer() and e >= 0:
        return lam ** int(e)
    return Fr(math.pow(float(lam), e)) if lam > 0 else (Fr(0) if e > 0 else Fr(1))


def spec_stage_k(c, d, t, first):
    return min(d["nstages"], (t - first) // c["N"])


def spec_lambda_stage(c, d, g):
    if c["mode"] == "kl":
        return fr(c["sched"][g])
    lam = Fr(g, d["nstages"])
    return 1 - lam if c["dec"] else lam


def spec_k(c, d, t, first):
    m = c["mode"]
    if m == "kc":
        lam = min(Fr(1), Fr(t - first, c["N"]))
        if c["dec"]:
            lam = 1 - lam
    elif m in ("ks", "kl"):
        lam = spec_lambda_stage(c, d, spec_stage_k(c, d, t, first))
    else:
        return fr(d["k0"])
    return fr(d["sk"]) + (fr(d["tk"]) - fr(d["sk"])) * fpow(lam, c["lexp"])


def spec_centers(c, d, t, first, wrap=True):
    if c["kind"] == "walls":
        return []
    m = c["mode"]
    if m == "cc":
        lam = min(Fr(1), Fr(t - first, c["N"]))
    elif m == "cs":
        nupd = 0 if t - first <= 0 else min(d["nstages"] + 1, (t - first - 1) // c["N"] + 1)
        if nupd == 0:
            return [fr(x) for x in c["centers"]]
        lam = Fr(nupd - 1, d["nstages"])
    else:
        return [fr(x) for x in c["centers"]]
    out = []
    for i, v in enumerate(c["vars"]):
        x = (1 - lam) * fr(c["centers"][i]) + lam * fr(c["target_centers"][i])
        if v["per"] and wrap:
            x = fr(v["wc"]) + shortest(x - fr(v["wc"]), fr(v["P"]))
            if x - fr(v["wc"]) >= fr(v["P"]) / 2:
                x -= fr(v["P"])
        out.append(x)
    return out


def same_mod(a, b, v):
    """centres of a periodic variable are compared modulo the period"""
    if v["per"]:
        dd = float(shortest(Fr(a) - Fr(b), fr(v["P"])))
        return abs(dd) <= TOL * max(1.0, abs(float(a)))
    return close(float(a), float(b))


def oracle(c, d, steps):
    """Property oracle on the implementation's outputs alone (exact rational re-computation of the documented
    closed forms).  Returns a list of (signature, text).  `steps` are the parsed RD records, one per event.
    Full strength: every schedule, the accumulated work and the staged TI lines are claimed for EVERY
    segmentation (run boundaries and restarts compute a step again; a step counts once)."""
    bad = []
    first = c["it0"]
    m = c["mode"]
    N = c.get("N", 0)
    t = None
    evinfo = []
    for (typ, xs) in c["events"]:
        if t is None:
            t = c.get("t_start", c["it0"])       # t_start: the history is the continuation of an earlier one (first_step stays it0)
        elif typ == "S":
            t += 1
        evinfo.append((typ, t, xs))
    W = Fr(0)
    work_amb = bool(c.get("no_accumulators"))
    seen = set()
    ti_acc = {}     # stage -> (sum, count)
    nst = d["nstages"]
    for idx, ((typ, t, xs), o) in enumerate(zip(evinfo, steps)):
        if o["it"] != t:
            bad.append(("protocol:step-number", "event %d: the module is at step %d, the engine at %d" % (idx, o["it"], t)))
            break
        new = t not in seen          # first time this step is computed
        # ---- potentials at the parameters the implementation reports
        kimp = fr(o["K"]) if o["K"] is not None else fr(d["k0"])
        cimp = o["C"] if c["kind"] != "walls" else []
        E, F, dUdk = spec_terms(c, d, kimp, cimp, xs)
        if not close(float(E), o["E"]):
            bad.append(("potential:%s:energy" % c["kind"], "step %d values %s centres %s k %s: energy %r, documented closed form %r" % (t, xs, cimp, float(kimp), o["E"], float(E))))
        if len(F) != len(o["F"]) or not all(close(float(a), b) for a, b in zip(F, o["F"])):
            bad.append(("potential:%s:force" % c["kind"], "step %d values %s centres %s k %s: forces %r, minus the gradient of the closed form %r" % (t, xs, cimp, float(kimp), o["F"], [float(f) for f in F])))
        # ---- schedules: function of the step number alone
        if m != "none":
            ks = spec_k(c, d, t, first)
            if o["K"] is not None and not close(float(ks), o["K"]):
                bad.append(("schedule:k", "step %d (first %d, N %d): force constant %r, schedule prescribes %r" % (t, first, N, o["K"], float(ks))))
            cs = spec_centers(c, d, t, first)
            if cs and not all(same_mod(a, b, v) for a, b, v in zip(cs, o["C"], c["vars"])):
                bad.append(("schedule:centers", "step %d (first %d, N %d): centres %r, schedule prescribes %r" % (t, first, N, o["C"], [float(x) for x in cs])))
            if o["FS"] != first:
                bad.append(("schedule:first_step", "step %d: first_step is %d, the restraint was defined at step %d" % (t, o["FS"], first)))
        # ---- accumulated work: sum over the steps (each once) of force x centre increment, resp. dU/dk x k increment
        if c["accw"] and m in ("cc", "kc"):
            if new and t > first and t - first <= N:
                if m == "cc":
                    cu = spec_centers(c, d, t, first, wrap=False)
                    cp = spec_centers(c, d, t - 1, first, wrap=False)
                    Es, Fs, _ = spec_terms(c, d, kimp, cu, xs)
                    inc = [shortest(a - b, fr(v["P"])) if v["per"] else a - b for a, b, v in zip(cu, cp, c["vars"])]
                    if any(v["per"] and abs(dc) == fr(v["P"]) / 2 for dc, v in zip(inc, c["vars"])):
                        work_amb = True      # the centre moves by exactly half a period in one step: two closest images (DESIGN 3.2)
                    W += sum(f * dc for f, dc in zip(Fs, inc))
                else:
                    _, _, dk = spec_terms(c, d, kimp, cimp, xs)
                    W += dk * (spec_k(c, d, t, first) - spec_k(c, d, t - 1, first))
            if not work_amb and not close(float(W), o["W"]):
                bad.append(("work:%s" % ("centers" if m == "cc" else "k"), "step %d: accumulated work %r, sum of force x increment over the steps so far %r" % (t, o["W"], float(W))))
        # ---- staged TI: one line per stage, written by the new step that ends it, = mean of dU/dlambda over the
        #      stage's sampled steps (steps s in (first+gN, first+(g+1)N] with equil = 0 or (s-first) mod N >= equil)
        if m in ("ks", "kl") and not c.get("no_accumulators"):
            eq = c["equil"]
            if new and t > first:
                g = (t - first - 1) // N
                r = (t - first) % N
                if g <= nst and (eq == 0 or r >= eq):
                    lam = spec_lambda_stage(c, d, g)
                    e = c["lexp"]
                    fac = Fr(e) * fpow(lam, e - 1.0) * (fr(d["tk"]) - fr(d["sk"]))
                    s_, n_ = ti_acc.get(g, (Fr(0), 0))
                    ti_acc[g] = (s_ + fac * dUdk, n_ + 1)
            ends = new and t > first and (t - first) % N == 0
            if ends and not o["TI"]:
                bad.append(("ti:line-missing", "step %d ends a stage and no dA/dLambda line was written" % t))
            if not ends and o["TI"]:
                bad.append(("ti:unexpected-line", "step %d (%s, first %d, N %d) does not end a stage for the first time, yet a dA/dLambda line %r was written" % (t, {"S": "plain step", "B": "run boundary", "R": "restart"}[typ], first, N, o["TI"])))
            if ends and o["TI"] and t <= first + (nst + 1) * N:
                g = (t - first) // N - 1
                s_, n_ = ti_acc.get(g, (Fr(0), 0))
                if n_ != N - eq:
                    bad.append(("oracle:ti-count", "stage %d: %d sampled steps, expected %d" % (g, n_, N - eq)))
                mean = s_ / n_ if n_ else Fr(0)
                lam_w, got = o["TI"][0]
                if abs(got - float(mean)) > 2e-5 * max(1.0, abs(got), abs(float(mean))):
                    bad.append(("ti:stage-mean", "stage %d (lambda %r) ended at step %d: dA/dLambda written %r, mean of dU/dlambda over the %d sampled steps of the stage %r" % (g, float(spec_lambda_stage(c, d, g)), t, got, n_, float(mean))))
                if abs(lam_w - float(spec_lambda_stage(c, d, g))) > 2e-5:
                    bad.append(("ti:stage-lambda", "stage %d ended at step %d: Lambda written %r, schedule %r" % (g, t, lam_w, float(spec_lambda_stage(c, d, g)))))
        seen.add(t)
    return bad


# ------------------------------------------------------------------ generators
WIDTHS = [0.25, 0.5, 1.0, 2.0]


def gen_case(r, k, quick=True):
    kind = r.choice(["harmonic", "harmonic", "harmonic", "walls", "walls", "linear"])
    nv = r.choice([1, 1, 2, 2, 3])
    vars_ = []
    for i in range(nv):
        v = {"w": r.choice(WIDTHS), "per": False}
        if kind != "linear" and r.random() < 0.45:
            v["per"] = True
            v["P"] = r.choice([4.0, 8.0])
            v["wc"] = r.choice([0.0, 0.0, 1.0, -2.5, 4.0])
        vars_.append(v)
    c = {"kind": kind, "vars": vars_, "id": k, "it0": r.choice([0, 0, 0, 5, 12, 12, 2 ** 31 - 2, 2 ** 32 + 5, 2 ** 53, 2 ** 62 - 100]), "accw": False,
         "dec": False, "lexp": 1.0, "equil": 0, "fmt": r.choice(["text", "text", "binary"]), "mem": r.random() < 0.4}
    if kind == "walls":
        modes = ["none", "none", "kc", "ks", "ks", "kl"]
    else:
        modes = ["none", "cc", "cc", "cs", "cs", "kc", "ks", "ks", "kl"]
    c["mode"] = m = r.choice(modes)
    c["k"] = r.choice([0.5, 1.0, 2.0, 3.0, 1.5])
    if kind == "linear" and r.random() < 0.3:
        c["k"] = -c["k"]
    # centres / walls
    if kind != "walls":
        c["centers"] = [V.dyadic(r, -4, 4, bits=2) for _ in vars_]
        c["target_centers"] = [x + r.choice([-1, 1]) * V.dyadic(r, 0.5, 6, bits=1) for x in c["centers"]]
    else:
        c["hl"], c["hu"] = r.choice([(True, True), (True, True), (True, False), (False, True)])
        if any(v["per"] for v in vars_):
            c["hl"] = c["hu"] = True
        c["lower"] = []
        c["upper"] = []
        for v in vars_:
            lo = V.dyadic(r, -3, 1, bits=2)
            span = V.dyadic(r, 0.5, 3, bits=2)
            if v["per"]:
                span = min(span, v["P"] - 0.5)
            c["lower"].append(lo)
            c["upper"].append(lo + span)
        c["lwk"] = None
        if r.random() < 0.35 and m in ("none", "kc", "ks", "kl"):
            c["lwk"], c["uwk"] = r.choice([(1.0, 4.0), (4.0, 1.0), (2.0, 8.0), (0.5, 2.0), (9.0, 4.0), (3.0, 3.0)])
            c["k"] = None
    # schedules
    c["N"] = r.choice([1, 2, 2, 3, 3, 4, 5, 6, 7, 8, 12])
    c["nstages"] = r.choice([1, 2, 3, 4])
    if m in ("kc", "ks", "kl"):
        c["dec"] = r.random() < 0.3 and not (kind == "walls" and c.get("lwk") is not None)
        c["tk"] = r.choice([0.0, 0.25, 4.0, 6.0, 1.0])
        if kind == "linear" and r.random() < .3:
            c["tk"] = -c["tk"]
        c["lexp"] = r.choice([1.0, 1.0, 2.0, 3.0, 1.5, 4.0])
        if m == "kl":
            n = r.randint(2, 5)
            c["sched"] = sorted([r.choice([0.0, 0.125, 0.25, 0.5, 0.75, 1.0]) for _ in range(n)])
            if r.random() < .5:
                c["sched"] = [0.0] + c["sched"][1:-1] + [1.0]
        if m in ("ks", "kl"):
            c["equil"] = r.choice([0, 0, 1, 1, 2]) if c["N"] >= 2 else 0
            if c["equil"] >= c["N"]:
                c["equil"] = c["N"] - 1
    if m in ("cc", "kc"):
        c["accw"] = r.random() < 0.7
    ns = {"none": 0}.get(m)
    nstg = (len(c["sched"]) - 1) if m == "kl" else c["nstages"]
    if m == "none":
        nsteps = r.randint(3, 8)
    elif m in ("cc", "kc"):
        nsteps = c["N"] + r.randint(1, 4)
    else:
        nsteps = min((nstg + 1) * c["N"] + r.randint(1, 3) + (2 * c["N"] if r.random() < 0.25 else 0), 48)   # sometimes well beyond the documented run length
    # events: values near centres/walls, across the period; segmentation aimed at stage boundaries
    seg = r.choice(["none", "none", "B", "R", "BR", "BR"])
    ev = []
    t = c["it0"]
    for s in range(nsteps + 1):
        xs = []
        for i, v in enumerate(vars_):
            mode = r.random()
            if kind == "walls":
                anchor = r.choice([c["lower"][i], c["upper"][i]])
            else:
                anchor = r.choice([c["centers"][i], c["target_centers"][i]])
            if mode < 0.2:
                x = anchor                       # exactly on the wall / the centre
            elif mode < 0.3:
                x = anchor + r.choice([-1, 1]) * 2.0 ** -20      # just inside / just outside
            elif mode < 0.5 and v["per"]:
                x = anchor + r.choice([-1, 1]) * v["P"] / 2 + r.choice([0, 0, 0.25, -0.25])   # at the far side of the circle
            elif mode < 0.8:
                x = anchor + V.dyadic(r, -2, 2, bits=3)
            else:
                x = V.dyadic(r, -9, 9, bits=3)
            if v["per"] and r.random() < 0.3:
                x += r.randint(-2, 2) * v["P"]
            xs.append(x)
        typ = "S"
        ev.append((typ, xs))
        if s > 0:
            t += 1
        # possibly re-execute this step (run boundary or restart), more often at stage boundaries
        if seg != "none" and s > 0 and s < nsteps:
            rel = (t - c["it0"]) % c["N"] if m != "none" else 2
            pr = 0.45 if rel in (0, 1) else 0.12
            if r.random() < pr:
                # a step computed again keeps its configuration, or is perturbed by a quarter of the width (a jump of more than half
                # a width between the saved and the recomputed value is an error of the restart: colvar::calc_colvar_properties)
                ev.append((r.choice(list(seg)), xs if r.random() < 0.6 else [x + 0.25 * v["w"] for x, v in zip(xs, vars_)]))
    c["events"] = ev
    # the whole problem at another length scale (powers of two: every operation stays exact); energies do not change
    sc = r.choice([1.0, 1.0, 1.0, 2.0 ** -10, 2.0 ** 20])
    if sc != 1.0:
        c["scale"] = sc
        for v in vars_:
            v["w"] *= sc
            if v["per"]:
                v["P"] *= sc
                v["wc"] *= sc
        for key in ("centers", "target_centers", "lower", "upper"):
            if key in c:
                c[key] = [x * sc for x in c[key]]
        c["events"] = [(typ, [x * sc for x in xs]) for typ, xs in ev]
    return c


def witness_cases():
    """Scenarios of the defects repaired by the fix-C06 commits (same inputs as the Examples of Properties_C06.v):
    (signature reported when the defect is back, oracle signature that detects it, scenario)."""
    v1 = [{"w": 0.5, "per": False}]
    base = {"kind": "harmonic", "vars": v1, "it0": 0, "accw": False, "dec": False, "lexp": 1.0, "equil": 0,
            "centers": [1.0], "target_centers": [3.0], "k": 2.0, "N": 3, "nstages": 2, "fmt": "text"}
    S = lambda n, x=0.5: [("S", [x])] * n
    W = []
    # staged k, boundary / restart exactly at the end of a stage: the stage must advance once
    c = dict(base, mode="ks", tk=4.0, N=3, nstages=2, equil=1, events=S(4) + [("B", [0.5])] + S(3))
    W.append(("staged-k:run-boundary-at-stage-end-advances-stage-twice", "schedule:k", c))
    c = dict(base, mode="ks", tk=4.0, N=3, nstages=2, equil=1, events=S(4) + [("R", [0.5])] + S(3))
    W.append(("staged-k:restart-at-stage-end-advances-stage-twice", "schedule:k", c))
    # staged centres
    c = dict(base, mode="cs", N=2, nstages=2, events=S(2) + [("B", [0.5])] + S(4))
    W.append(("staged-centers:run-boundary-at-stage-start-advances-stage-twice", "schedule:centers", c))
    c = dict(base, mode="cs", N=1, nstages=2, events=S(5))
    W.append(("staged-centers:targetNumSteps-1-never-moves", "schedule:centers", c))
    # work of a changing force constant must stop growing when the schedule has ended
    c = dict(base, mode="kc", tk=3.0, k=1.0, N=2, accw=True, events=S(6))
    W.append(("work-k:accumulates-after-schedule-end", "work:k", c))
    # moving centre of a periodic variable crossing the wrapping boundary
    c = dict(base, mode="cc", vars=[{"w": 0.5, "per": True, "P": 4.0, "wc": 0.0}], centers=[1.5], target_centers=[3.5],
             k=1.0, N=4, accw=True, events=S(6))
    W.append(("work-centers:periodic-centre-wrap-adds-period-to-increment", "work:centers", c))
    # TI: first stage with no equilibration
    c = dict(base, mode="ks", tk=4.0, N=3, nstages=2, equil=0, events=S(8))
    W.append(("ti:first-stage-N+1-samples-divided-by-N", "ti:stage-mean", c))
    # TI: restart inside a stage (restraint_FE must be in the state)
    c = dict(base, mode="ks", tk=4.0, N=4, nstages=2, equil=1, events=S(3) + [("R", [0.5])] + S(4))
    W.append(("ti:restart-inside-stage-loses-samples", "ti:stage-mean", c))
    # TI: the repeated step at a run boundary must not be sampled twice
    c = dict(base, mode="ks", tk=4.0, N=4, nstages=2, equil=1, events=S(3, 0.5) + [("B", [0.5])] + S(4))
    W.append(("ti:run-boundary-inside-stage-samples-step-twice", "ti:stage-mean", c))
    return W


# ------------------------------------------------------------------ running
class Runner:
    def __init__(self, model, unit):
        self.model, self.unit = model, unit
        self.scratch = V.scratch("C06")

    def wallsinit(self, hl, hu, lk, uk):
        rc, out, e = V.run_lines(self.model, ["WALLSINIT %d %d %s %s" % (hl, hu, hx(lk), hx(uk))])
        return tuple(float.fromhex(t) for t in out[0].split())

    def run(self, cases):
        mlines, ds, scn = [], [], []
        for k, c in enumerate(cases):
            ml, d = model_case(c, self.wallsinit)
            mlines.append(ml)
            ds.append(d)
            scn += scenario(c, k, self.scratch)
        rc, mout, e = V.run_lines(self.model, mlines)
        rc2, iout, e2 = V.run_lines(self.unit, scn, cwd=self.scratch, timeout=900)
        impl = parse_impl(iout)
        return mlines, ds, mout, impl, (rc2, e2)


def compare(c, d, msteps, isteps):
    """tie: model vs implementation, event by event; returns None or a description"""
    if len(msteps) != len(isteps):
        return "model executed %d events, implementation %d" % (len(msteps), len(isteps))
    moving = c["mode"] != "none"
    for idx, (a, b) in enumerate(zip(msteps, isteps)):
        if a["it"] != b["it"]:
            return "event %d: step %d vs %d" % (idx, b["it"], a["it"])
        for key in ("E", "W", "FE", "KI"):
            if key in ("W",) and not moving:
                continue
            if not close(a[key], b[key]):
                return "event %d step %d: %s impl %r model %r" % (idx, a["it"], key, b[key], a[key])
        if b["K"] is not None and not close(a["K"], b["K"]):
            return "event %d step %d: K impl %r model %r" % (idx, a["it"], b["K"], a["K"])
        if len(a["F"]) != len(b["F"]) or not all(close(x, y) for x, y in zip(a["F"], b["F"])):
            return "event %d step %d: F impl %r model %r" % (idx, a["it"], b["F"], a["F"])
        if c["kind"] != "walls" and (len(a["C"]) != len(b["C"]) or not all(close(x, y) for x, y in zip(a["C"], b["C"]))):
            return "event %d step %d: centres impl %r model %r" % (idx, a["it"], b["C"], a["C"])
        if moving and (a["ST"] != b["ST"] or a["FS"] != b["FS"]):
            return "event %d step %d: stage/first_step impl %d/%d model %d/%d" % (idx, a["it"], b["ST"], b["FS"], a["ST"], a["FS"])
        if (a["L"] is None) != (len(b["TI"]) == 0):
            return "event %d step %d: dA/dLambda line impl %r model %r" % (idx, a["it"], b["TI"], a["L"])
        if a["L"] is not None:
            if len(b["TI"]) != 1 or abs(b["TI"][0][1] - a["L"][1]) > 2e-5 * max(1.0, abs(a["L"][1])) or abs(b["TI"][0][0] - a["L"][0]) > 2e-5:
                return "event %d step %d: dA/dLambda line impl %r model %r" % (idx, a["it"], b["TI"], a["L"])
    return None



def cut_ambiguous(c, isteps, msteps):
    """DESIGN 3.2: a harmonic restraint on a periodic variable whose value is (within rounding) exactly half a
    period from the centre has two shortest images; which one the floor picks depends on the last bit of a
    centre that was interpolated or went through a text state.  Such an event, and what follows it in the
    scenario (the accumulated work integrates the force), is counted as boundary-ambiguous and not compared."""
    if c["kind"] != "harmonic" or not any(v["per"] for v in c["vars"]):
        return c, isteps, msteps, False
    for idx, ((typ, xs), o) in enumerate(zip(c["events"], isteps)):
        for i, v in enumerate(c["vars"]):
            if v["per"] and i < len(o["C"]):
                P = fr(v["P"])
                sd = shortest(fr(xs[i]) - fr(o["C"][i]), P)
                mc = msteps[idx]["C"][i] if idx < len(msteps) and i < len(msteps[idx]["C"]) else o["C"][i]
                near = abs(float(abs(sd) - P / 2)) < 1e-9
                # exact (dyadic) ties with bitwise equal centres in model and implementation are deterministic and stay compared
                if near and (abs(sd) != P / 2 or mc != o["C"][i]):
                    c2 = dict(c, events=c["events"][:idx])
                    return c2, isteps[:idx], msteps[:idx], True
    return c, isteps, msteps, False


def nontrivial(c, d, steps):
    """>= 2 stages completed, or a wall crossed, or a period boundary crossed, or a segmentation event"""
    if c["mode"] in ("cs", "ks", "kl") and steps and max(s["ST"] for s in steps) >= 2:
        return True
    if any(typ != "S" for typ, _ in c["events"][1:]):
        return True
    if c["kind"] == "walls":
        z = [any(f != 0.0 for f in s["F"]) for s in steps]
        return any(z) and not all(z)
    if any(v["per"] for v in c["vars"]):
        return True
    return c["mode"] in ("cc", "kc") and len(steps) > c["N"]


def abmd_part(run, r, runner, n):
    """ABMD ratchet: energy 1/2 k min(0, x - ref)^2 with a reference that only moves forward"""
    cases = []
    for k in range(n):
        dec = r.random() < 0.4
        kk = r.choice([0.5, 1.0, 2.0, 4.0])
        x = V.dyadic(r, -2, 2, bits=3)
        stop = x + (-1 if dec else 1) * V.dyadic(r, 0.5, 4, bits=2)
        xs = []
        for s in range(r.randint(4, 14)):
            x = x + V.dyadic(r, -1, 1.5, bits=3) * (-1 if dec else 1)
            xs.append(x)
        cases.append({"k": kk, "dec": dec, "stop": stop, "xs": xs})
    scn, ml = [], []
    for k, c in enumerate(cases):
        conf = ["config EOF"] + colvar_block(0, {"w": 1.0, "per": False}) + [
            "abmd {", "  name r", "  colvars v0", "  forceConstant %r" % c["k"], "  stoppingValue %r" % c["stop"],
            "  decreasing %s" % ("on" if c["dec"] else "off"), "}", "EOF"]
        scn += ["echo CASE %d" % k, "natoms 1", "new"] + conf + ["show atomf 0 cv 0 energy 0 bias 0"]
        # some steps are computed again at a run boundary or after save / new process / load: the ratchet must not move
        seg = r.choice(["none", "B", "R", "BR"])
        xs2 = []
        for i, x in enumerate(c["xs"]):
            scn += ["pos 1 0 0 %s" % hx(x), "step", "rdump"]
            xs2.append(x)
            if seg != "none" and i > 0 and r.random() < 0.3:
                if r.choice(list(seg)) == "B":
                    scn += ["runboundary", "step", "rdump"]
                else:
                    f = os.path.join(runner.scratch, "ab%d_%d.state" % (k, i))
                    scn += ["save %s %s" % (r.choice(["text", "binary"]), f), "fresh"] + conf + ["load %s" % f, "step", "rdump"]
                xs2.append(x)
        c["xs"] = xs2
        c["seg"] = seg
        scn.append("echo END %d" % k)
        ml.append("ABMD %s %s %d %d %s" % (hx(c["k"]), hx(c["stop"]), c["dec"], len(c["xs"]), " ".join(hx(x) for x in c["xs"])))
    rc, mout, e = V.run_lines(runner.model, ml)
    rc2, iout, e2 = V.run_lines(runner.unit, scn, cwd=runner.scratch)
    impl = parse_impl(iout)
    for k, c in enumerate(cases):
        cs = impl.get(k)
        run.dist("abmd")
        if cs is None or not cs["complete"] or len(cs["steps"]) != len(c["xs"]) or any("err=ok" not in l for l in cs["config"]):
            run.mismatch("abmd", c, ((cs or {}).get("config", []) + (cs or {}).get("raw", []))[-3:], "complete run")
            continue
        mo = [[float.fromhex(t) for t in part.split()] for part in mout[k].split(" ; ")] if k < len(mout) else []
        ref = None
        sign = -1.0 if c["dec"] else 1.0
        moved = 0
        for i, (x, o) in enumerate(zip(c["xs"], cs["steps"])):
            # oracle: ratchet
            if ref is None:
                ref = x
            diff = (x - ref) * sign
            if diff > 0:
                e_, f_ = 0.0, 0.0
                if (ref - c["stop"]) * sign <= 0:
                    ref = x
                    moved += 1
            else:
                e_, f_ = 0.5 * c["k"] * diff * diff, -sign * c["k"] * diff
            if not (close(o["E"], e_) and close(o["F"][0], f_) and close(o["REF"], ref)):
                run.violation("abmd:ratchet", "ABMD step %d value %r: energy/force/reference %r %r %r, ratchet gives %r %r %r" % (i, x, o["E"], o["F"][0], o["REF"], e_, f_, ref),
                              {"kind": "abmd", "case": c})
            if i < len(mo) and not (close(mo[i][0], o["E"]) and close(mo[i][1], o["F"][0]) and close(mo[i][2], o["REF"])):
                run.mismatch("abmd", {"case": c, "step": i}, [o["E"], o["F"][0], o["REF"]], mo[i])
        run.count("abmd%d" % k, moved >= 2)


def hist_part(run, r, runner, n):
    """histogramRestraint on 1-4 scalar values and/or one vector variable (distancePairs, 2 components): energy =
    1/2 (k M) sum_g (h(xi_g) - h0_g)^2 with M the total number of values, force = minus its derivative"""
    cases = []
    for k in range(n):
        M = r.choice([0, 1, 2, 2, 3, 4])
        dp = M == 0 or r.random() < 0.35          # a distancePairs variable: group1 {a b} group2 {c} -> 2 distances
        width = r.choice([0.25, 0.5, 1.0, 1.0, 2.0])
        nb = r.randint(2, 8)
        lower = V.dyadic(r, -3, 1, bits=2) if not dp else V.dyadic(r, 0, 1, bits=2)
        sigma = r.choice([None, 0.25, 0.5, 1.0, 2.0])
        ref = [r.choice([0.0, 0.125, 0.25, 0.5, 1.0, 2.0]) for _ in range(nb)]
        if sum(ref) == 0:
            ref[r.randrange(nb)] = 1.0
        if r.random() < 0.3:     # already normalised (integral 1 within 1e-3): left as it is by the code
            tot = sum(ref) * width
            ref = [x / tot for x in ref]
        kk = r.choice([0.5, 1.0, 2.0, 8.0])
        steps = []
        for s_ in range(r.randint(2, 5)):
            zs = [lower + V.dyadic(r, -1, nb * width + 1, bits=3) for _ in range(M)]
            pp = [[V.dyadic(r, -2, 2, bits=3) for _ in range(3)] for _ in range(3)] if dp else []
            steps.append((zs, pp))
        cases.append({"M": M, "dp": dp, "width": width, "nb": nb, "lower": lower, "sigma": sigma, "ref": ref, "k": kk, "steps": steps})
    scn, refs = [], []
    for k, c in enumerate(cases):
        M = c["M"]
        sig = c["sigma"] if c["sigma"] is not None else 2.0 * c["width"]
        tot = 0.0
        for x in c["ref"]:
            tot += x
        integral = tot * c["width"]
        ref = list(c["ref"])
        if abs(integral - 1.0) > 1.0e-03:
            ref = [x / integral for x in ref]
        refs.append((ref, sig))
        scn += ["echo CASE %d" % k, "natoms %d" % (M + (3 if c["dp"] else 0)), "new", "config EOF"]
        names = []
        for i in range(M):
            scn += colvar_block(i, {"w": 1.0, "per": False})
            names.append("v%d" % i)
        if c["dp"]:
            scn += ["colvar {", "  name vp", "  distancePairs {", "    group1 { atomNumbers %d %d }" % (M + 1, M + 2),
                    "    group2 { atomNumbers %d }" % (M + 3), "  }", "}"]
            names.append("vp")
        scn += ["histogramRestraint {", "  name r", "  colvars " + " ".join(names),
                "  lowerBoundary %r" % c["lower"], "  upperBoundary %r" % (c["lower"] + c["nb"] * c["width"]), "  width %r" % c["width"]]
        if c["sigma"] is not None:
            scn.append("  gaussianSigma %r" % c["sigma"])
        scn += ["  refHistogram " + vec(c["ref"]), "  forceConstant %r" % c["k"], "}", "EOF", "show atomf 0 cv 0 energy 0 bias 0"]
        for zs, pp in c["steps"]:
            for i, x in enumerate(zs):
                scn.append("pos %d 0 0 %s" % (i + 1, hx(x)))
            for i, q in enumerate(pp):
                scn.append("pos %d %s %s %s" % (M + 1 + i, hx(q[0]), hx(q[1]), hx(q[2])))
            scn += ["step", "rdump"]
        scn.append("echo END %d" % k)
    rc2, iout, e2 = V.run_lines(runner.unit, scn, cwd=runner.scratch)
    impl = parse_impl(iout)

    def flat(x):
        out = []
        for q in x:
            out += q if isinstance(q, list) else [q]
        return out

    def energy(c, ref, sig, xs, scale):
        M = len(xs)
        nrm = 1.0 / (math.sqrt(2.0 * math.pi * sig * sig) * M)
        tot = 0.0
        for g in range(len(ref)):
            xg = c["lower"] + (g + 0.5) * c["width"]
            h = nrm * sum(math.exp(-(xg - x) ** 2 / (2.0 * sig * sig)) for x in xs)
            tot += (h - ref[g]) ** 2
        return 0.5 * c["k"] * scale * tot

    # the documented potential is read from the manual of the tree under test: 1/2 k M sum_g (...)^2 (after the repair of the
    # equation) or 1/2 k integral (...)^2 dxi = 1/2 k width sum_g (...)^2 (mid-point rule)
    try:
        tex = open(os.path.join(V.REPO, "doc", "colvars-refman-main.tex"), errors="replace").read()
    except Exception:
        tex = ""
    k0 = tex.find("label{eq:colvarbias_restraint_histogram}")
    doc_scale_M = k0 >= 0 and "k M \\sum" in tex[k0:k0 + 300]
    ml, where = [], []
    for k, c in enumerate(cases):
        cs = impl.get(k)
        run.dist("histogramRestraint:%s" % ("vector" if c["dp"] else "scalar"))
        ref, sig = refs[k]
        if cs is None or not cs["complete"] or len(cs["steps"]) != len(c["steps"]) or any("err=ok" not in l for l in cs["config"]):
            run.mismatch("histogram", c, ((cs or {}).get("config", []) + (cs or {}).get("raw", []))[-3:], "complete run")
            continue
        nz = False
        for (zs, pp), o in zip(c["steps"], cs["steps"]):
            xs = flat(o["X"])
            Fi = flat(o["F"])
            M = len(xs)
            if M != c["M"] + (2 if c["dp"] else 0) or any(abs(a - b) > 1e-12 for a, b in zip(xs, zs)):
                run.mismatch("histogram", c, xs, "the %d imposed values" % (c["M"] + (2 if c["dp"] else 0)))
                continue
            rp = {"kind": "hist", "case": c, "values": xs}
            E = energy(c, ref, sig, xs, M)
            if not close(E, o["E"], 1e-9):
                run.violation("potential:histogram:energy", "values %r: energy %r, 1/2 k M sum_g (h(xi_g) - h0_g)^2 = %r" % (xs, o["E"], E), rp)
            hh = 1.0 / 16384       # central difference: truncation ~ hh^2 E/sigma^3 < 1e-6, rounding ~ 1e-16 E/hh
            for i in range(M):
                xp = list(xs); xp[i] += hh
                xm = list(xs); xm[i] -= hh
                fd = -(energy(c, ref, sig, xp, M) - energy(c, ref, sig, xm, M)) / (2 * hh)
                if abs(fd - Fi[i]) > 1e-5 * max(1.0, abs(fd), abs(Fi[i])):
                    run.violation("potential:histogram:force", "values %r: force on value %d is %r, minus the derivative of the energy is %r" % (xs, i, Fi[i], fd), rp)
            Edoc = energy(c, ref, sig, xs, M if doc_scale_M else c["width"])
            if abs(E) > 1e-12 and not close(Edoc, o["E"], 1e-9):
                run.violation("potential:histogram:energy-scale", "M %d values %r, width %r: energy %r, the manual's equation gives %r (ratio %r = M/width)" % (M, xs, c["width"], o["E"], Edoc, o["E"] / Edoc if Edoc else float("nan")), rp)
            nz = nz or abs(o["E"]) > 1e-9
            ml.append("HIST %s %s %s %s %d %s %d %s" % (hx(c["k"]), hx(sig), hx(c["lower"]), hx(c["width"]), len(ref),
                                                      " ".join(hx(x) for x in ref), M, " ".join(hx(x) for x in xs)))
            where.append((c, xs, o, Fi))
        run.count("hist%d" % k, nz and (c["M"] >= 2 or c["dp"]))
    rc, mout, e = V.run_lines(runner.model, ml)
    if len(mout) != len(where):
        run.mismatch("histogram", "model run", len(where), len(mout))
    for (c, xs, o, Fi), line in zip(where, mout):
        parts = line.split(" ; ")
        if len(parts) < 2:
            run.mismatch("histogram", {"case": c, "values": xs}, o["E"], "no model output")
            continue
        me = float.fromhex(parts[0])
        mf = flist(parts[1])
        if not close(me, o["E"]) or len(mf) != len(Fi) or not all(close(a, b) for a, b in zip(mf, Fi)):
            run.mismatch("histogram", {"case": c, "values": xs}, [o["E"], Fi], [me, mf])


# ---- manifold-valued variables --------------------------------------------------------------------------------------
def _norm(v):
    n = math.sqrt(sum(x * x for x in v))
    return [x / n for x in v]


def man_dist2(kind, a, b):
    if kind == "v3":
        return sum((x - y) ** 2 for x, y in zip(a, b))
    cs = sum(x * y for x, y in zip(a, b))
    th = math.acos(max(-1.0, min(1.0, cs)))
    if kind == "uv":
        return th * th
    return th * th if cs > 0 else (math.pi - th) ** 2     # quaternion: q and -q are the same rotation


def man_interp(kind, a, b, lam):
    v = [(1.0 - lam) * x + lam * y for x, y in zip(a, b)]
    return v if kind == "v3" else _norm(v)


REFPOS = [(1.0, 0.0, 0.0), (0.0, 1.5, 0.0), (0.0, 0.0, 2.0), (-1.0, -1.0, 0.5)]
NATOMS = {"s": 1, "p": 1, "v3": 2, "uv": 2, "q": 4, "vl": 4}
DIM = {"s": 1, "p": 1, "v3": 3, "uv": 3, "q": 4, "vl": 4}


def gen_dist2(v, a, b):
    kind = v["kind"]
    if kind == "s":
        return (a[0] - b[0]) ** 2
    if kind == "p":
        return float(shortest(Fr(a[0]) - Fr(b[0]), Fr(v["P"]))) ** 2
    if kind in ("v3", "vl"):
        return sum((x - y) ** 2 for x, y in zip(a, b))
    return man_dist2(kind, a, b)


def gen_interp(v, a, b, lam):
    kind = v["kind"]
    c = [(1.0 - lam) * x + lam * y for x, y in zip(a, b)]
    if kind in ("uv", "q"):
        return _norm(c)
    return c


def gen_same(v, a, b):
    if v["kind"] == "p":
        return abs(float(shortest(Fr(a[0]) - Fr(b[0]), Fr(v["P"])))) <= 1e-9 * max(1.0, abs(a[0]))
    return all(close(x, y, 1e-9) or abs(x - y) < 1e-12 for x, y in zip(a, b))


def gen_var_block(i, v, a0):
    """colvar block of variable i whose first atom is a0 (1-based)"""
    kind = v["kind"]
    fmtv = lambda q: "(" + ", ".join("%r" % x for x in q) + ")"
    L = ["colvar {", "  name v%d" % i, "  width %r" % v["w"]]
    if kind in ("s", "p"):
        L += ["  distanceZ {", "    main { atomNumbers %d }" % a0, "    ref { dummyAtom (0,0,0) }", "    axis (0,0,1)"]
        if kind == "p":
            L += ["    period %r" % v["P"], "    wrapAround %r" % v["wc"]]
        L += ["  }"]
    elif kind in ("v3", "uv"):
        L += ["  %s {" % ("distanceVec" if kind == "v3" else "distanceDir"), "    group1 { atomNumbers %d }" % a0, "    group2 { atomNumbers %d }" % (a0 + 1), "  }"]
    elif kind == "q":
        L += ["  orientation {", "    atoms { atomNumbers %d %d %d %d }" % (a0, a0 + 1, a0 + 2, a0 + 3), "    refPositions " + " ".join(fmtv(q) for q in REFPOS), "  }"]
    else:
        L += ["  distancePairs {", "    group1 { atomNumbers %d %d }" % (a0, a0 + 1), "    group2 { atomNumbers %d %d }" % (a0 + 2, a0 + 3), "  }"]
    L += ["}"]
    return L


def gen_positions(r, v):
    kind = v["kind"]
    rv3 = lambda lo=-2, hi=2: [V.dyadic(r, lo, hi, bits=3) for _ in range(3)]
    if kind in ("s", "p"):
        z = r.choice([v["c0"][0], v["c1"][0]]) + V.dyadic(r, -2, 2, bits=3)
        if kind == "p" and r.random() < 0.3:
            z += r.randint(-2, 2) * v["P"]
        return [[0.0, 0.0, z]]
    if kind in ("v3", "uv"):
        p1 = rv3()
        while True:
            dv = rv3()
            if sum(x * x for x in dv) > 0.25:
                break
        return [p1, [x + y for x, y in zip(p1, dv)]]
    if kind == "q":
        pos = [[q[j] + V.dyadic(r, -0.5, 0.5, bits=3) for j in range(3)] for q in REFPOS]
        if r.random() < 0.7:
            a, b_ = r.choice([(0, 1), (1, 2), (0, 2)])
            for q in pos:
                q[a], q[b_] = -q[b_], q[a]
        return pos
    return [rv3(), [x + 3.0 for x in rv3()], [x - 3.0 for x in rv3()], rv3(-5, -3)]


def manifold_part(run, r, runner, n):
    """harmonic restraint with fixed / continuously moving / staged centres on variables of every value type (scalar,
    periodic scalar, 3-vector distanceVec, unit vector distanceDir, quaternion orientation, vector distancePairs), one or two
    variables per restraint, run boundaries and restarts, accumulated work.  Tie: the generic machine of coq/C06/RestraintGen.v
    (extracted) run on the values the implementation reports, compared after every event (energy, forces, centres, stage,
    first_step, work).  Oracle: k/(2 w^2) x geodesic distance^2, centre = (normalised, wrapped) interpolation at lambda(t)."""
    cases = []
    for k in range(n):
        nv = r.choice([1, 1, 2])
        vars_ = []
        for i in range(nv):
            kind = r.choice(["v3", "uv", "uv", "q", "q", "s", "p", "vl"])
            v = {"kind": kind, "w": r.choice([0.5, 1.0, 2.0])}
            dim = DIM[kind]
            def nonzero():
                while True:
                    q = [V.dyadic(r, -2, 2, bits=3) for _ in range(dim)]
                    if sum(x * x for x in q) > 0.25:
                        return q
            c0, c1 = nonzero(), nonzero()
            if kind in ("uv", "q"):
                while sum(x * y for x, y in zip(_norm(c0), _norm(c1))) < -0.5:
                    c1 = nonzero()
            if kind == "p":
                v["P"] = r.choice([4.0, 8.0])
                v["wc"] = r.choice([0.0, 1.0, -2.5])
                c1 = [c0[0] + r.choice([-1, 1]) * V.dyadic(r, 0.5, 6, bits=1)]
            if kind == "vl":
                c0 = [abs(x) + 3.0 for x in c0]
                c1 = [abs(x) + 3.0 for x in c1]
            v["c0"], v["c1"] = c0, c1
            vars_.append(v)
        mode = r.choice(["none", "cc", "cc", "cs"])
        c = {"vars": vars_, "mode": mode, "k": r.choice([0.5, 1.0, 2.0, 4.0]),
             "N": r.choice([1, 2, 3, 4]), "nstages": r.choice([1, 2, 3]), "it0": r.choice([0, 0, 7]), "fmt": r.choice(["text", "binary"]),
             "accw": mode == "cc" and r.random() < 0.7 and all(v["kind"] in ("s", "p", "v3", "vl") for v in vars_)}
        nsteps = {"none": r.randint(2, 4), "cc": c["N"] + r.randint(1, 3), "cs": (c["nstages"] + 1) * c["N"] + 2}[mode]
        ev = []
        seg = r.choice(["none", "B", "R", "BR"])
        for s_ in range(nsteps + 1):
            pos = []
            for v in vars_:
                pos += gen_positions(r, v)
            ev.append(("S", pos))
            if seg != "none" and 0 < s_ < nsteps and r.random() < 0.4:
                ev.append((r.choice(list(seg)), pos))
        c["events"] = ev
        cases.append(c)
    # accumulated work of a centre moving on the unit sphere (recorded finding work:centers:unit-vector): centre (1,0,0) -> (0,1,0)
    # in 4 steps, the variable held at (0,0,1): no work is done (the energy stays k/(2w^2) (pi/2)^2), yet W changes at every step
    wv = {"kind": "uv", "w": 1.0, "c0": [1.0, 0.0, 0.0], "c1": [0.0, 1.0, 0.0]}
    cases.append({"vars": [wv], "mode": "cc", "k": 1.0, "N": 4, "nstages": 1, "it0": 0, "fmt": "text", "accw": True, "uvwork": True,
                  "events": [("S", [[0.0, 0.0, 0.0], [0.0, 0.0, 1.0]])] * 6})
    scn = []
    fmtv = lambda q: ("%r" % q[0]) if len(q) == 1 else "(" + ", ".join("%r" % x for x in q) + ")"
    for k, c in enumerate(cases):
        conf = ["config EOF"]
        a0 = 1
        for i, v in enumerate(c["vars"]):
            conf += gen_var_block(i, v, a0)
            a0 += NATOMS[v["kind"]]
        nat = a0 - 1
        conf += ["harmonic {", "  name r", "  colvars " + " ".join("v%d" % i for i in range(len(c["vars"]))), "  forceConstant %r" % c["k"],
                 "  centers " + " ".join(fmtv(v["c0"]) for v in c["vars"])]
        if c["mode"] != "none":
            conf += ["  targetCenters " + " ".join(fmtv(v["c1"]) for v in c["vars"]), "  targetNumSteps %d" % c["N"]]
        if c["mode"] == "cs":
            conf += ["  targetNumStages %d" % c["nstages"]]
        if c["accw"]:
            conf += ["  outputAccumulatedWork on"]
        conf += ["}", "EOF"]
        L = ["echo CASE %d" % k, "natoms %d" % nat, "new"]
        if c["it0"]:
            L.append("setstep %d" % c["it0"])
        L += ["capture"] + conf + ["show atomf 0 cv 0 energy 0 bias 0"]
        nsave = 0
        for typ, pos in c["events"]:
            for i, q in enumerate(pos):
                L.append("pos %d %s %s %s" % (i + 1, hx(q[0]), hx(q[1]), hx(q[2])))
            if typ == "B":
                L.append("runboundary")
            elif typ == "R":
                f = os.path.join(runner.scratch, "m%d_%d.state" % (k, nsave))
                nsave += 1
                L += ["save %s %s" % (c["fmt"], f), "fresh", "capture"] + conf + ["load %s" % f]
            L += ["step", "rdump"]
        L.append("echo END %d" % k)
        c["scenario"] = L
        scn += L
    rc2, iout, e2 = V.run_lines(runner.unit, scn, cwd=runner.scratch, timeout=900)
    impl = parse_impl(iout)
    ml, where = [], []

    def vecs(o, key):
        x = o[key]
        return [q if isinstance(q, list) else [q] for q in x]

    for k, c in enumerate(cases):
        cs = impl.get(k)
        for v in c["vars"]:
            run.dist("anytype:%s:%s" % (v["kind"], c["mode"]))
        rp = {"kind": "manifold", "case": {kk: vv for kk, vv in c.items() if kk != "scenario"}, "scenario": c["scenario"]}
        if cs is None or not cs["complete"] or len(cs["steps"]) != len(c["events"]) or any("err=ok" not in l for l in cs["config"]):
            run.mismatch("manifold", rp["case"], ((cs or {}).get("config", []) + (cs or {}).get("raw", []))[-3:], "complete run")
            continue
        ends = []
        for v in c["vars"]:
            nrm = v["kind"] in ("uv", "q")
            ends.append((_norm(v["c0"]) if nrm else v["c0"], _norm(v["c1"]) if nrm else v["c1"]))
        first = c["it0"]
        t = None
        N, nst = c["N"], c["nstages"]
        W = 0.0
        wamb = False
        seen = set()
        prev_c = None
        okrun = True
        for (typ, pos), o in zip(c["events"], cs["steps"]):
            t = first if t is None else (t + 1 if typ == "S" else t)
            if o["it"] != t:
                run.violation("protocol:step-number", "any-type scenario: module at step %d, engine at %d" % (o["it"], t), rp)
                okrun = False
                break
            X, C, F = vecs(o, "X"), vecs(o, "C"), vecs(o, "F")
            E = 0.0
            for v, x, cen in zip(c["vars"], X, C):
                E += 0.5 * c["k"] / (v["w"] * v["w"]) * gen_dist2(v, x, cen)
            if not close(E, o["E"], 1e-9) and abs(E - o["E"]) > 1e-12:
                run.violation("potential:harmonic:anytype:energy", "values %r centres %r: energy %r, sum of k/(2 w^2) x geodesic distance^2 = %r" % (X, C, o["E"], E), rp)
            if c["mode"] == "none":
                lam = None
            elif c["mode"] == "cc":
                lam = min(1.0, (t - first) / float(N))
            else:
                nm = 0 if t <= first else min(nst + 1, (t - first - 1) // N + 1)
                lam = None if nm == 0 else (nm - 1) / float(nst)
            want = [a if lam is None else gen_interp(v, a, b, lam) for v, (a, b) in zip(c["vars"], ends)]
            for v, wv, cen in zip(c["vars"], want, C):
                if not gen_same(v, wv, cen):
                    run.violation("schedule:centers:%s" % v["kind"], "step %d (first %d, N %d, %s): centre %r, schedule prescribes %r" % (t, first, N, c["mode"], cen, wv), rp)
            # work (vector-space types: increment = difference of consecutive scheduled centres, closest image if periodic)
            if c["accw"] and all(v["kind"] in ("s", "p", "v3", "vl") for v in c["vars"]):
                if t not in seen and t > first and t - first <= N:
                    lam0 = min(1.0, (t - 1 - first) / float(N))
                    for v, (a, b), f in zip(c["vars"], ends, F):
                        cn, co = gen_interp(v, a, b, lam), gen_interp(v, a, b, lam0)
                        inc = [x - y for x, y in zip(cn, co)]
                        if v["kind"] == "p":
                            inc = [float(shortest(Fr(cn[0]) - Fr(co[0]), Fr(v["P"])))]
                            if abs(abs(inc[0]) - v["P"] / 2) < 1e-9:
                                wamb = True       # the centre moves by half a period in one step: two closest images (DESIGN 3.2)
                        W += sum(x * y for x, y in zip(f, inc))
                if not wamb and not close(W, o["W"], 1e-9) and abs(W - o["W"]) > 1e-11:
                    run.violation("work:centers:anytype", "step %d: accumulated work %r, sum of force . centre increment over the steps so far %r" % (t, o["W"], W), rp)
            seen.add(t)
        if not okrun:
            continue
        if c.get("uvwork"):
            Es = [o["E"] for o in cs["steps"]]
            Ws = [o["W"] for o in cs["steps"]]
            if max(Es) - min(Es) < 1e-9 and abs(Ws[-1]) > 1e-6:
                run.violation("work:centers:unit-vector", "centre moving (1,0,0)->(0,1,0) in 4 steps, value fixed at (0,0,1), k 1: the energy stays %r (no work is done on the variable) but the accumulated work is %r" % (Es[0], Ws), rp)
            continue
        # tie: the generic machine on the reported values
        parts = ["GRUN", str(len(c["vars"]))]
        for v in c["vars"]:
            kind = v["kind"]
            parts.append(kind)
            if kind == "p":
                parts += [hx(v["P"]), hx(v["wc"])]
            if kind == "vl":
                parts.append(str(DIM[kind]))
            parts.append(hx(v["w"]))
            parts += [hx(x) for x in v["c0"]] + [hx(x) for x in v["c1"]]
        parts += [hx(c["k"]), "1" if c["mode"] != "none" else "0", str(c["N"] if c["mode"] != "none" else 0),
                  str(c["nstages"] if c["mode"] == "cs" else 0), "1" if c["accw"] else "0", str(c["it0"]), str(len(c["events"]))]
        for (typ, pos), o in zip(c["events"], cs["steps"]):
            parts.append(typ)
            for x in vecs(o, "X"):
                parts += [hx(y) for y in x]
        ml.append(" ".join(parts))
        where.append((k, c, cs, rp))
        run.count("man%d" % k, c["mode"] != "none" or any(abs(o["E"]) > 1e-9 for o in cs["steps"]))
    rc, mout, e = V.run_lines(runner.model, ml)
    if len(mout) != len(where):
        run.mismatch("manifold", "model run", len(where), len(mout))
    for (k, c, cs, rp), line in zip(where, mout):
        recs = [parse_fields(part) for part in line.split(" ; ")]
        if len(recs) != len(cs["steps"]):
            run.mismatch("manifold", rp["case"], len(cs["steps"]), len(recs))
            continue
        for d_, o in zip(recs, cs["steps"]):
            bad = None
            me = float.fromhex(d_["E"])
            eq = lambda a, b: a == b or close(a, b, 1e-9) or abs(a - b) < 1e-11     # a == b: equal infinities (force at the antipode of a unit-vector centre)
            if int(d_["it"]) != o["it"]:
                bad = "step %s vs %d" % (d_["it"], o["it"])
            elif not eq(me, o["E"]):
                bad = "E impl %r model %r" % (o["E"], me)
            else:
                mc, mf = vlist(d_["C"]), vlist(d_["F"])
                for v, a, b in zip(c["vars"], mc, vecs(o, "C")):
                    if not (gen_same(v, a, b) if v["kind"] == "p" else all(eq(x, y) for x, y in zip(a, b))):
                        bad = "centres impl %r model %r" % (o["C"], mc)
                for a, b in zip(mf, vecs(o, "F")):
                    if len(a) != len(b) or not all(eq(x, y) for x, y in zip(a, b)):
                        bad = bad or "forces impl %r model %r" % (o["F"], mf)
                if c["mode"] != "none" and (int(d_["ST"]) != o["ST"] or int(d_["FS"]) != o["FS"]):
                    bad = bad or "stage/first impl %d/%d model %s/%s" % (o["ST"], o["FS"], d_["ST"], d_["FS"])
                if c["accw"] and not eq(float.fromhex(d_["W"]), o["W"]):
                    bad = bad or "W impl %r model %r" % (o["W"], float.fromhex(d_["W"]))
            if bad:
                run.mismatch("manifold", {"case": rp["case"], "step": o["it"]}, bad, "agreement")
                break


def kman_part(run, r, runner, n):
    """changing force constant (continuous / staged / lambdaSchedule, decoupling, exponent, equilibration, accumulated work,
    run boundaries and restarts) on a harmonic restraint with a FIXED centre on a manifold-valued variable (distanceDir,
    orientation, distanceVec).  By C06_k_moving_on_unit_vector / _quaternion the restraint is the scalar model run on the
    history of geodesic distances: the C++ runs on the real variable, the extracted scalar model and the scalar oracle on
    theta_t = sqrt(dist2(value_t, centre)) computed from the reported values."""
    cases = []
    tries = 0
    while len(cases) < n and tries < 50 * n:
        tries += 1
        c = gen_case(r, len(cases))
        if c["kind"] != "harmonic" or c["mode"] not in ("kc", "ks", "kl") or len(c["vars"]) != 1:
            continue
        kind = r.choice(["uv", "uv", "q", "q", "v3"])
        dim = DIM[kind]
        while True:
            cen = [V.dyadic(r, -2, 2, bits=3) for _ in range(dim)]
            if sum(x * x for x in cen) > 0.25:
                break
        c["vars"] = [{"w": c["vars"][0]["w"], "per": False}]
        c["mvar"] = {"kind": kind, "w": c["vars"][0]["w"], "c0": cen, "c1": cen}
        c["centers"] = [0.0]
        c["target_centers"] = [0.0]
        c["pos"] = [gen_positions(r, c["mvar"]) for _ in c["events"]]
        last = None
        for j, (typ, xs) in enumerate(c["events"]):      # a step computed again keeps its configuration (or is perturbed, as gen_case decided)
            if typ != "S" and last is not None:
                c["pos"][j] = c["pos"][last]       # same configuration (a jump of the value at a restart is an input error)
            if typ == "S":
                last = j
        cases.append(c)
    fmtv = lambda q: "(" + ", ".join("%r" % x for x in q) + ")"
    scn = []
    for k, c in enumerate(cases):
        bl = [l for l in bias_block(c) if not l.startswith("  centers ") and not l.startswith("  colvars ")]
        bl = [bl[0], bl[1], "  colvars v0", "  centers " + fmtv(c["mvar"]["c0"])] + bl[2:]
        conf = ["config EOF"] + gen_var_block(0, c["mvar"], 1) + bl + ["EOF"]
        L = ["echo CASE %d" % k, "natoms %d" % NATOMS[c["mvar"]["kind"]], "new"]
        if c["it0"]:
            L.append("setstep %d" % c["it0"])
        L += ["capture"] + conf + ["show atomf 0 cv 0 energy 0 bias 0"]
        nsave = 0
        for (typ, xs), pos in zip(c["events"], c["pos"]):
            for i, q in enumerate(pos):
                L.append("pos %d %s %s %s" % (i + 1, hx(q[0]), hx(q[1]), hx(q[2])))
            if typ == "B":
                L.append("runboundary")
            elif typ == "R":
                f = os.path.join(runner.scratch, "km%d_%d.state" % (k, nsave))
                nsave += 1
                ld = "load" if not c.get("mem") else ("loadbuf" if c.get("fmt", "text") == "binary" else "loadstr")   # file / memory buffer / string
                L += ["save %s %s" % (c.get("fmt", "text"), f), "fresh", "capture"] + conf + ["%s %s" % (ld, f)]
            L += ["step", "rdump"]
        L.append("echo END %d" % k)
        c["scenario"] = L
        scn += L
    rc2, iout, e2 = V.run_lines(runner.unit, scn, cwd=runner.scratch, timeout=900)
    impl = parse_impl(iout)
    mlines, ds, where = [], [], []
    for k, c in enumerate(cases):
        cs = impl.get(k)
        mv = c["mvar"]
        run.dist("k-moving:%s:%s" % (mv["kind"], c["mode"]))
        rp = {"kind": "kman", "case": {kk: vv for kk, vv in c.items() if kk != "scenario"}, "scenario": c["scenario"]}
        if cs is None or not cs["complete"] or len(cs["steps"]) != len(c["events"]) or any("err=ok" not in l for l in cs["config"]):
            run.mismatch("k-moving-manifold", rp["case"], ((cs or {}).get("config", []) + (cs or {}).get("raw", []))[-3:], "complete run")
            continue
        ths = []
        ps = []
        for o in cs["steps"]:
            x = o["X"][0] if isinstance(o["X"][0], list) else [o["X"][0]]
            cen = o["C"][0] if isinstance(o["C"][0], list) else [o["C"][0]]
            th = math.sqrt(max(0.0, gen_dist2(mv, x, cen)))
            ths.append(th)
            kk = o["K"] if o["K"] is not None else c["k"]
            ps.append(dict(o, C=[0.0], X=[th], F=[-kk / (mv["w"] ** 2) * th]))
        c2 = dict(c, events=[(typ, [th]) for (typ, _), th in zip(c["events"], ths)])
        c2.pop("scenario", None); c2.pop("pos", None); c2.pop("mvar", None)
        ml, d = model_case(c2, runner.wallsinit)
        for sig, text in oracle(c2, d, ps):
            run.violation(sig + ":manifold", "%s variable, geodesic distances %r: %s" % (mv["kind"], ths[:6], text), rp)
        mlines.append(ml)
        ds.append(d)
        where.append((c2, ps, rp))
        run.count("kman%d" % k, True)
    rc, mout, e = V.run_lines(runner.model, mlines)
    for (c2, ps, rp), d, line, mlc in zip(where, ds, mout, mlines):
        ms = parse_model_line(line)
        for a in ms:
            a["C"] = [0.0]
        for a, b in zip(ms, ps):
            b["F"] = a["F"] if all(close(x, y, 1e-7) for x, y in zip(a["F"], b["F"])) else b["F"]    # the scalar force is not observable: -k/w^2 theta
        bad = compare(c2, d, ms, ps)
        if bad:
            run.mismatch("k-moving-manifold", {"case": rp["case"], "model_case": mlc}, bad, "agreement")
    if len(mout) != len(where):
        run.mismatch("k-moving-manifold", "model run", len(where), len(mout))


def script_part(run, r, runner, n):
    """entry points other than the engine step: colvarmodule::energy_difference (replica exchange) on harmonic / linear
    restraints with fixed parameters - the alternative energy minus the current one, nothing changed afterwards - tied to
    the model's rediff; and `cv bias r update` (recorded findings: it runs the whole step again)."""
    cases = []
    for k in range(n):
        kind = r.choice(["harmonic", "harmonic", "linear"])
        nv = r.choice([1, 2])
        vars_ = []
        for i in range(nv):
            v = {"w": r.choice(WIDTHS), "per": False}
            if kind == "harmonic" and r.random() < 0.4:
                v.update(per=True, P=r.choice([4.0, 8.0]), wc=r.choice([0.0, 1.0, -2.5]))
            vars_.append(v)
        c = {"kind": kind, "vars": vars_, "mode": "none", "k": r.choice([0.5, 1.0, 2.0, 3.0]), "accw": False, "dec": False, "lexp": 1.0,
             "centers": [V.dyadic(r, -3, 3, bits=2) for _ in vars_],
             "k2": r.choice([None, 0.25, 4.0, 1.5]), "c2": None, "xs": [[V.dyadic(r, -5, 5, bits=3) for _ in vars_] for _ in range(3)]}
        if r.random() < 0.6 or c["k2"] is None:
            c["c2"] = [V.dyadic(r, -3, 3, bits=2) for _ in vars_]
        cases.append(c)
    scn = []
    for k, c in enumerate(cases):
        L = ["echo CASE %d" % k, "natoms %d" % len(c["vars"]), "new", "capture", "config EOF"] + config_text(c) + ["EOF", "show atomf 0 cv 0 energy 0 bias 0"]
        alt = []
        if c["k2"] is not None:
            alt += ["forceConstant", "%r" % c["k2"], "|"]
        if c["c2"] is not None:
            alt += ["centers"] + ["%r" % x for x in c["c2"]] + ["|"]
        for j, xs in enumerate(c["xs"]):
            for i, x in enumerate(xs):
                L.append("pos %d 0 0 %s" % (i + 1, hx(x)))
            L += ["step", "rdump"]
            if j == 1:
                L += ["ediff r " + " ".join(alt), "rdump"]
        L.append("echo END %d" % k)
        scn += L
    # recorded findings: `cv bias r update` in the middle of a step
    base = colvar_block(0, {"w": 0.5, "per": False})
    scn += ["echo CASE %d" % n, "natoms 1", "new", "capture", "config EOF"] + base + ["harmonic {", "  name r", "  colvars v0", "  centers 1.0", "  forceConstant 2.0",
            "  targetForceConstant 4.0", "  targetNumSteps 2", "  targetNumStages 2", "}", "EOF", "show atomf 0 cv 0 energy 0 bias 0", "pos 1 0 0 %s" % hx(0.5)] + \
           ["step", "rdump"] * 3 + ["script cv bias r update", "rdump", "echo END %d" % n]
    rc2, iout, e2 = V.run_lines(runner.unit, scn, cwd=runner.scratch)
    impl = parse_impl(iout)
    ed = {}
    cur = None
    for l in iout:
        if l.startswith("echo CASE"):
            cur = int(l.split()[2])
        elif l.startswith("EDIFF ") and cur is not None:
            d_ = parse_fields(l)
            ed[cur] = (float.fromhex(d_["de"]), d_["err"])
    ml, where = [], []
    for k, c in enumerate(cases):
        cs = impl.get(k)
        run.dist("energy_difference:%s" % c["kind"])
        rp = {"kind": "ediff", "case": c}
        if cs is None or not cs["complete"] or len(cs["steps"]) != 4 or k not in ed or any("err=ok" not in l for l in cs["config"]):
            run.mismatch("energy_difference", c, ((cs or {}).get("config", []) + (cs or {}).get("raw", []))[-3:], "complete run")
            continue
        de, err = ed[k]
        before, after, nxt = cs["steps"][1], cs["steps"][2], cs["steps"][3]
        xs = c["xs"][1]
        d = {"lk": -1.0, "uk": -1.0, "k0": c["k"]}
        E0, _, _ = spec_terms(c, d, fr(c["k"]), c["centers"], xs)
        c2 = c["c2"] if (c["c2"] is not None and c["kind"] == "harmonic") else c["centers"]     # linear: only the force constant is read
        E1, _, _ = spec_terms(c, d, fr(c["k2"] if c["k2"] is not None else c["k"]), c2, xs)
        if err != "ok" or not close(de, float(E1 - E0)):
            run.violation("energy-difference:value", "%s restraint k %r centres %r at values %r, alternative k %r centres %r: energy_difference %r (err %s), closed forms give %r" % (c["kind"], c["k"], c["centers"], xs, c["k2"], c["c2"], de, err, float(E1 - E0)), rp)
        if not (close(after["E"], before["E"]) and after["K"] == before["K"] and after["C"] == before["C"]):
            run.violation("energy-difference:state-changed", "after energy_difference: energy/k/centres %r %r %r, before %r %r %r" % (after["E"], after["K"], after["C"], before["E"], before["K"], before["C"]), rp)
        E3, F3, _ = spec_terms(c, d, fr(c["k"]), c["centers"], c["xs"][2])
        if not close(nxt["E"], float(E3)) or not all(close(float(a), b) for a, b in zip(F3, nxt["F"])):
            run.violation("energy-difference:next-step", "the step after energy_difference: energy %r forces %r, closed forms %r %r" % (nxt["E"], nxt["F"], float(E3), [float(f) for f in F3]), rp)
        p = ["EDIFF", c["kind"], str(len(c["vars"]))]
        for v in c["vars"]:
            p += [hx(v["w"]), "1" if v["per"] else "0", hx(v.get("P", 1.0)), hx(v.get("wc", 0.0))]
        p += [hx(x) for x in c["centers"]] + [hx(c["k"])] + [hx(x) for x in xs]
        p += (["1", hx(c["k2"])] if c["k2"] is not None else ["0"])
        p += (["1"] + [hx(x) for x in c["c2"]] if c["c2"] is not None else ["0"])
        ml.append(" ".join(p))
        where.append((c, de))
        run.count("ediff%d" % k, True)
    rc, mout, e = V.run_lines(runner.model, ml)
    if len(mout) != len(where):
        run.mismatch("energy_difference", "model run", len(where), len(mout))
    for (c, de), line in zip(where, mout):
        if not close(float.fromhex(line.strip()), de):
            run.mismatch("energy_difference", c, de, float.fromhex(line.strip()))
    cs = impl.get(n)
    if cs and cs["complete"] and len(cs["steps"]) == 4:
        a, b = cs["steps"][2], cs["steps"][3]
        if (b["ST"], b["K"]) != (a["ST"], a["K"]) or b["TI"]:
            run.violation("script:update-reruns-the-step", "staged k 2->4, N 2, 2 stages: after step 2 (stage %d, k %r) `cv bias r update` gives stage %d, k %r and writes %r" % (a["ST"], a["K"], b["ST"], b["K"], b["TI"]), {"kind": "script-update"})


def traj_part(run, r, runner, n):
    """the trajectory columns written by the restraints (write_traj_label / write_traj of harmonic, linear, harmonicWalls,
    histogramRestraint): x0_<variable> (outputCenters), W_<bias> (outputAccumulatedWork), E_<bias> (outputEnergy) against the
    internal members after every step (14 digits), and through them against the model (the members are tied elsewhere);
    plus refHistogramFile (one- and two-column files) and writeHistogram of the histogram restraint."""
    cases = []
    for k in range(n):
        c = gen_case(r, k)
        if any(t != "S" for t, _ in c["events"]):
            c["events"] = [e for e in c["events"] if e[0] == "S"]     # the trajectory file is per process: no restarts here
        c["outc"] = c["kind"] != "walls" and r.random() < 0.8
        cases.append(c)
    scn = []
    for k, c in enumerate(cases):
        conf = ["config EOF", "colvarsTrajFrequency 1"] + config_text(c)
        bi = max(j for j, l in enumerate(conf) if l == "}")
        extra = ["  outputEnergy on"] + (["  outputCenters on"] if c["outc"] else [])
        conf = conf[:bi] + extra + conf[bi:] + ["EOF"]
        L = ["echo CASE %d" % k, "natoms %d" % len(c["vars"]), "prefix tj%d" % k, "new"]
        if c["it0"]:
            L.append("setstep %d" % c["it0"])
        L += ["capture"] + conf + ["show atomf 0 cv 0 energy 0 bias 0"]
        for typ, xs in c["events"]:
            for i, x in enumerate(xs):
                L.append("pos %d 0 0 %s" % (i + 1, hx(x)))
            L += ["step", "rdump"]
        L += ["postrun", "echo END %d" % k]
        scn += L
    # histogram restraint: reference histogram from a file (x p(x) pairs, or p(x) only), histogram written at the end
    hfiles = []
    for j, two in enumerate([True, False]):
        fn = os.path.join(runner.scratch, "refhist%d.dat" % j)
        ref = [0.5, 1.0, 0.25, 0.25]
        with open(fn, "w") as f:
            f.write("# reference\n")
            for g, p_ in enumerate(ref):
                f.write(("%r %r\n" % (0.25 + 0.5 * g, p_)) if two else ("%r\n" % p_))
        hfiles.append((fn, ref))
        k = n + j
        scn += ["echo CASE %d" % k, "natoms 2", "prefix th%d" % j, "new", "capture", "config EOF", "colvarsTrajFrequency 1"] + \
               colvar_block(0, {"w": 1.0, "per": False}) + colvar_block(1, {"w": 1.0, "per": False}) + \
               ["histogramRestraint {", "  name r", "  colvars v0 v1", "  lowerBoundary 0.0", "  upperBoundary 2.0", "  width 0.5", "  gaussianSigma 0.5",
                "  refHistogramFile %s" % fn, "  writeHistogram on", "  outputEnergy on", "  forceConstant 2.0", "}", "EOF", "show atomf 0 cv 0 energy 0 bias 0"]
        for xs in ([0.25, 1.5], [0.75, 1.0]):
            scn += ["pos 1 0 0 %s" % hx(xs[0]), "pos 2 0 0 %s" % hx(xs[1]), "step", "rdump"]
        scn += ["postrun", "echo END %d" % k]
    # ABMD: the reference value column ref_<variable>
    kab = n + 2
    abx = [0.5, 1.0, 0.75, 1.5, 1.25, 2.5, 3.0]
    scn += ["echo CASE %d" % kab, "natoms 1", "prefix tab", "new", "config EOF", "colvarsTrajFrequency 1"] + colvar_block(0, {"w": 1.0, "per": False}) + \
           ["abmd {", "  name r", "  colvars v0", "  forceConstant 2.0", "  stoppingValue 2.0", "}", "EOF", "show atomf 0 cv 0 energy 0 bias 0"]
    for x in abx:
        scn += ["pos 1 0 0 %s" % hx(x), "step", "rdump"]
    scn += ["postrun", "echo END %d" % kab]
    rc2, iout, e2 = V.run_lines(runner.unit, scn, cwd=runner.scratch)
    impl = parse_impl(iout)

    def read_traj(fn):
        rows, labels = {}, None
        if not os.path.exists(fn):
            return None, {}
        for l in open(fn):
            if l.startswith("#"):
                labels = l[1:].split()
            elif l.strip():
                t = l.replace("(", " ").replace(")", " ").replace(",", " ").split()
                rows[int(t[0])] = [float(x) for x in t[1:]]
        return labels, rows

    c14 = lambda a, b: abs(a - b) <= 2e-14 * max(abs(a), abs(b)) + 1e-300
    for k, c in enumerate(cases):
        cs = impl.get(k)
        run.dist("traj:%s:%s" % (c["kind"], c["mode"]))
        if cs is None or not cs["complete"] or any("err=ok" not in l for l in cs["config"]):
            run.mismatch("traj", c, ((cs or {}).get("config", []) + (cs or {}).get("raw", []))[-3:], "complete run")
            continue
        labels, rows = read_traj(os.path.join(runner.scratch, "tj%d.colvars.traj" % k))
        rp = {"kind": "traj", "case": c, "labels": labels}
        nv = len(c["vars"])
        want = ["step"] + ["v%d" % i for i in range(nv)] + ["E_r"] + (["x0_v%d" % i for i in range(nv)] if c["outc"] else []) + \
               (["W_r"] if c["accw"] and c["mode"] in ("cc", "kc") else [])
        if labels != want:
            run.violation("traj:labels", "%s restraint (mode %s, outputCenters %s, work %s): columns %r, expected %r" % (c["kind"], c["mode"], c["outc"], c["accw"], labels, want), rp)
            continue
        for o in cs["steps"]:
            row = rows.get(o["it"])
            if row is None or len(row) != len(want) - 1:
                run.violation("traj:row-missing", "no (complete) trajectory line for step %d: %r" % (o["it"], row), rp)
                break
            col = dict(zip(want[1:], row))
            bad = not c14(col["E_r"], o["E"])
            if c["outc"]:
                bad = bad or not all(c14(col["x0_v%d" % i], o["C"][i]) for i in range(nv))
            if "W_r" in col:
                bad = bad or not c14(col["W_r"], o["W"])
            if bad:
                run.violation("traj:columns", "step %d: trajectory columns %r, members E %r centres %r W %r" % (o["it"], col, o["E"], o["C"], o["W"]), rp)
                break
        run.count("traj%d" % k, True)
    cs = impl.get(kab)
    run.dist("traj:abmd")
    if cs is None or not cs["complete"] or len(cs["steps"]) != len(abx):
        run.mismatch("traj", "abmd", ((cs or {}).get("config", []) + (cs or {}).get("raw", []))[-3:], "complete run")
    else:
        labels, rows = read_traj(os.path.join(runner.scratch, "tab.colvars.traj"))
        if labels != ["step", "v0", "ref_v0"]:
            run.violation("traj:labels", "ABMD: columns %r, expected step v0 ref_v0" % labels, {"kind": "traj", "case": "abmd"})
        else:
            for o in cs["steps"]:
                row = rows.get(o["it"])
                if row is None or not c14(row[1], o["REF"]):
                    run.violation("traj:columns", "ABMD step %d: trajectory line %r, reference value %r" % (o["it"], row, o["REF"]), {"kind": "traj", "case": "abmd"})
                    break
        run.count("traj:abmd", True)
    for j, (fn, ref) in enumerate(hfiles):
        k = n + j
        cs = impl.get(k)
        run.dist("histogramRestraint:refHistogramFile")
        if cs is None or not cs["complete"] or any("err=ok" not in l for l in cs["config"]) or len(cs["steps"]) != 2:
            run.mismatch("histogram-file", fn, ((cs or {}).get("config", []) + (cs or {}).get("raw", []))[-3:], "complete run")
            continue
        tot = sum(ref) * 0.5
        refn = [x / tot for x in ref]
        for xs, o in zip(([0.25, 1.5], [0.75, 1.0]), cs["steps"]):
            nrm = 1.0 / (math.sqrt(2.0 * math.pi) * 0.5 * 2)
            p_ = [nrm * sum(math.exp(-(0.25 + 0.5 * g - x) ** 2 / (2 * 0.25)) for x in xs) for g in range(4)]
            E = 0.5 * 2.0 * 2 * sum((a - b) ** 2 for a, b in zip(p_, refn))
            if not close(E, o["E"]):
                run.violation("potential:histogram:energy", "refHistogramFile (%s columns), values %r: energy %r, closed form %r" % ("two" if j == 0 else "one", xs, o["E"], E), {"kind": "histfile", "file": open(fn).read()})
        # written histogram: "x p(x)" per bin at the end of the run
        hf = os.path.join(runner.scratch, "th%d.r.hist.dat" % j)
        got = [[float(t) for t in l.split()] for l in open(hf) if l.strip() and not l.startswith("#")] if os.path.exists(hf) else []
        if len(got) != 4 or not all(abs(g[1] - q) < 1e-12 for g, q in zip(got, p_)):
            run.violation("histogram:written-histogram", "writeHistogram: file %r, histogram of the last step %r" % (got, p_), {"kind": "histfile"})
        elif not all(abs(g[0] - (0.25 + 0.5 * i)) < 1e-12 for i, g in enumerate(got)):
            run.violation("histogram:written-grid-points", "writeHistogram writes the grid points %r, the histogram is evaluated at the bin centres %r" % ([g[0] for g in got], [0.25 + 0.5 * i for i in range(4)]), {"kind": "histfile"})
        run.count("histfile%d" % j, True)


def badconfig_part(run, runner):
    """restraint configurations the manual forbids: each must be refused with an input error (no bias created, no crash)"""
    v = colvar_block(0, {"w": 1.0, "per": False})
    vp = colvar_block(1, {"w": 1.0, "per": True, "P": 4.0, "wc": 0.0})
    H = lambda *l: ["harmonic {", "  name r", "  colvars v0"] + ["  " + x for x in l] + ["}"]
    Wl = lambda cv, *l: ["harmonicWalls {", "  name r", "  colvars " + cv] + ["  " + x for x in l] + ["}"]
    bad = [
        ("harmonic:no-centers", H("forceConstant 1.0")),
        ("harmonic:two-centers-one-variable", H("centers 1.0 2.0")),
        ("harmonic:target-centers-count", H("centers 1.0", "targetCenters 1.0 2.0", "targetNumSteps 4")),
        ("harmonic:negative-force-constant", H("centers 1.0", "forceConstant -1.0")),
        ("harmonic:centers-and-k-both-moving", H("centers 1.0", "targetCenters 2.0", "targetForceConstant 2.0", "targetNumSteps 4")),
        ("harmonic:targetNumSteps-missing", H("centers 1.0", "targetCenters 2.0")),
        ("harmonic:stages-and-lambdaSchedule", H("centers 1.0", "targetForceConstant 2.0", "targetNumSteps 4", "targetNumStages 2", "lambdaSchedule 0 0.5 1")),
        ("harmonic:work-with-stages", H("centers 1.0", "targetCenters 2.0", "targetNumSteps 4", "targetNumStages 2", "outputAccumulatedWork on")),
        ("harmonic:decoupling-and-target-k", H("centers 1.0", "decoupling on", "targetForceConstant 2.0", "targetNumSteps 4")),
        ("walls:none", Wl("v0", "forceConstant 1.0")),
        ("walls:periodic-one-wall", Wl("v1", "lowerWalls 1.0")),
        ("walls:upper-below-lower", Wl("v0", "lowerWalls 2.0", "upperWalls 1.0")),
        ("walls:zero-wall-constant", Wl("v0", "lowerWalls 1.0", "upperWalls 2.0", "lowerWallConstant 0.0", "upperWallConstant 1.0")),
        ("walls:equal-in-the-period", Wl("v1", "lowerWalls -1.0", "upperWalls 3.0")),
        ("linear:periodic-variable", ["linear {", "  name r", "  colvars v1", "  centers 1.0", "}"]),
        ("abmd:two-variables", ["abmd {", "  name r", "  colvars v0 v1", "  forceConstant 1.0", "  stoppingValue 2.0", "}"]),
        ("histogram:zero-width", ["histogramRestraint {", "  name r", "  colvars v0", "  lowerBoundary 0", "  upperBoundary 2", "  width 0", "  refHistogram 1 1", "}"]),
        ("histogram:upper-below-lower", ["histogramRestraint {", "  name r", "  colvars v0", "  lowerBoundary 2", "  upperBoundary 0", "  width 0.5", "  refHistogram 1 1", "}"]),
        ("histogram:two-references", ["histogramRestraint {", "  name r", "  colvars v0", "  lowerBoundary 0", "  upperBoundary 1", "  width 0.5", "  refHistogram 1 1", "  refHistogramFile nofile.dat", "}"]),
    ]
    scn = []
    for k, (name, blk) in enumerate(bad):
        scn += ["echo CASE %d" % k, "natoms 2", "new", "config EOF"] + v + vp + blk + ["EOF", "pos 1 0 0 %s" % hx(0.5), "pos 2 0 0 %s" % hx(0.5), "step", "rdump", "echo END %d" % k]
    rc2, iout, e2 = V.run_lines(runner.unit, scn, cwd=runner.scratch)
    impl = parse_impl(iout)
    for k, (name, blk) in enumerate(bad):
        cs = impl.get(k)
        run.dist("invalid-configuration")
        if cs is None or not cs["complete"]:
            run.violation("config:invalid-crashes:" + name, "the configuration %r did not run to completion (rc %d)" % (blk, rc2), {"kind": "badconfig", "block": blk})
            continue
        conf = [l for l in cs["config"] if l.startswith("CONFIG")]
        run.count("badconfig:" + name, True)
        if not conf or "err=ok" in conf[0] or cs["steps"]:
            run.violation("config:invalid-accepted:" + name, "the forbidden configuration %r was accepted: %r, biases after it %d" % (blk, conf, len(cs["steps"])), {"kind": "badconfig", "block": blk})


def extl_part(run, r, runner, n):
    """harmonicWalls on an extended-Lagrangian variable: by default (bypassExtendedLagrangian on) the walls act on the value
    of the collective variable proper, with bypassExtendedLagrangian off on the extended coordinate.  The closed form and the
    extracted model are evaluated at the value the option selects (both are reported by the harness)."""
    cases = []
    for k in range(n):
        hl, hu = r.choice([(True, True), (True, False), (False, True)])
        lo = V.dyadic(r, 0, 2, bits=2)
        c = {"kind": "walls", "vars": [{"w": r.choice(WIDTHS), "per": False}], "mode": "none", "k": r.choice([0.5, 1.0, 2.0]), "accw": False,
             "dec": False, "lexp": 1.0, "equil": 0, "it0": 0, "hl": hl, "hu": hu, "lower": [lo], "upper": [lo + V.dyadic(r, 0.5, 2, bits=2)], "lwk": None,
             "bypass": r.random() < 0.5, "zs": [lo + V.dyadic(r, -2, 4, bits=3) for _ in range(r.randint(3, 6))]}
        if hl and hu and r.random() < 0.4:
            c["lwk"], c["uwk"] = r.choice([(1.0, 4.0), (4.0, 1.0), (2.0, 8.0)])
            c["k"] = None
        cases.append(c)
    scn = []
    for k, c in enumerate(cases):
        cv = colvar_block(0, c["vars"][0])
        cv = cv[:3] + ["  extendedLagrangian on", "  extendedFluctuation 0.25", "  extendedTimeConstant 50"] + cv[3:]
        bl = bias_block(c)
        if not c["bypass"]:
            bl = bl[:-1] + ["  bypassExtendedLagrangian off", "}"]
        scn += ["echo CASE %d" % k, "natoms 1", "temperature 300", "dt 1", "new", "capture", "config EOF"] + cv + bl + ["EOF", "show atomf 0 cv 0 energy 0 bias 0"]
        c["flip"] = r.randrange(1, len(c["zs"])) if r.random() < 0.6 else None     # the option switched by script before this event
        for j, z in enumerate(c["zs"]):
            if c["flip"] == j:
                scn.append("script cv bias r set bypass_extended_Lagrangian_coordinates %s" % ("off" if c["bypass"] else "on"))
            scn += ["pos 1 0 0 %s" % hx(z), "step", "rdump"]
        scn.append("echo END %d" % k)
    rc2, iout, e2 = V.run_lines(runner.unit, scn, cwd=runner.scratch)
    impl = parse_impl(iout)
    # AX is not kept by parse_impl: read it from the raw lines
    mlines, ds, where = [], [], []
    for k, c in enumerate(cases):
        cs = impl.get(k)
        run.dist("walls:extended-lagrangian:bypass-%s" % ("on" if c["bypass"] else "off"))
        rp = {"kind": "extl", "case": c}
        if cs is None or not cs["complete"] or len(cs["steps"]) != len(c["zs"]) or any("err=ok" not in l for l in cs["config"]):
            run.mismatch("walls-extended", c, ((cs or {}).get("config", []) + (cs or {}).get("raw", []))[-3:], "complete run")
            continue
        serr = [l for l in cs["raw"] if l.startswith("SCRIPT") and "err=ok" not in l]
        if serr:
            run.violation("script:feature-name-not-found", "cv bias r set bypass_extended_Lagrangian_coordinates %s: %s" % ("off" if c["bypass"] else "on", serr[0][:200]), rp)
            continue
        ax = [float.fromhex(parse_fields(l)["AX"]) for l in cs["raw"] if l.startswith("RD ")]
        vals = []
        moved = False
        for j, (z, a, o) in enumerate(zip(c["zs"], ax, cs["steps"])):
            if a != z:
                run.violation("harness:actual-value", "the variable proper is %r, imposed %r" % (a, z), rp)
            moved = moved or o["X"][0] != a
            byp = c["bypass"] if (c["flip"] is None or j < c["flip"]) else not c["bypass"]
            vals.append(a if byp else o["X"][0])
        c2 = dict(c, events=[("S", [v_]) for v_ in vals])
        ml, d = model_case(c2, runner.wallsinit)
        for sig, text in oracle(c2, d, cs["steps"]):
            run.violation(sig + ":extended-lagrangian", "bypassExtendedLagrangian %s, walls act on %r (extended coordinate %r, variable %r): %s" % ("on" if c["bypass"] else "off", vals, [o["X"][0] for o in cs["steps"]], ax, text), rp)
        mlines.append(ml); ds.append(d); where.append((c2, cs))
        run.count("extl%d" % k, moved)
    rc, mout, e = V.run_lines(runner.model, mlines)
    for (c2, cs), d, line, mlc in zip(where, ds, mout, mlines):
        bad = compare(c2, d, parse_model_line(line), cs["steps"])
        if bad:
            run.mismatch("walls-extended", {"case": c2, "model_case": mlc}, bad, "agreement")


def ediff_moving_part(run, r, runner, n):
    """colvarmodule::energy_difference on restraints whose centres or force constant are MOVING (any schedule, run boundaries,
    restarts): the value is the closed-form difference at the currently scheduled parameters, the call changes nothing
    (energy, k, centres, stage, work, TI accumulator), and the rest of the history is the model's history without the call."""
    cases = []
    tries = 0
    while len(cases) < n and tries < 40 * n:
        tries += 1
        c = gen_case(r, len(cases))
        if c["kind"] not in ("harmonic", "linear") or c["mode"] == "none":
            continue
        c["ej"] = r.randrange(1, len(c["events"]))
        if c["mode"] in ("ks", "kl") and r.random() < 0.6:        # aim at the end of a stage
            t = None
            for j, (typ, xs) in enumerate(c["events"]):
                t = c["it0"] if t is None else (t + 1 if typ == "S" else t)
                if j > 0 and (t - c["it0"]) % c["N"] == 0:
                    c["ej"] = j
                    break
        c["k2"] = r.choice([0.25, 4.0, 1.5])
        cases.append(c)
    scn = []
    for k, c in enumerate(cases):
        L = scenario(c, k, runner.scratch)
        pos = [j for j, l in enumerate(L) if l == "rdump"][c["ej"]]
        L = L[:pos + 1] + ["ediff r forceConstant %r" % c["k2"], "rdump"] + L[pos + 1:]
        scn += L
    mlines, ds = [], []
    for c in cases:
        ml, d = model_case(c, runner.wallsinit)
        mlines.append(ml); ds.append(d)
    rc, mout, e = V.run_lines(runner.model, mlines)
    rc2, iout, e2 = V.run_lines(runner.unit, scn, cwd=runner.scratch, timeout=900)
    impl = parse_impl(iout)
    ed = {}
    cur = None
    for l in iout:
        if l.startswith("echo CASE"):
            cur = int(l.split()[2])
        elif l.startswith("EDIFF ") and cur is not None:
            d_ = parse_fields(l)
            ed[cur] = (float.fromhex(d_["de"]), d_["err"])
    for k, c in enumerate(cases):
        cs = impl.get(k)
        run.dist("energy_difference:moving:%s:%s" % (c["kind"], c["mode"]))
        rp = {"kind": "scenario", "case": c, "ediff_after_event": c["ej"], "alternative_k": c["k2"]}
        if cs is None or not cs["complete"] or len(cs["steps"]) != len(c["events"]) + 1 or k not in ed or any("err=ok" not in l for l in cs["config"]):
            run.mismatch("energy_difference", {"case": c}, ((cs or {}).get("config", []) + (cs or {}).get("raw", []))[-3:], "complete run")
            continue
        j = c["ej"]
        before, after = cs["steps"][j], cs["steps"][j + 1]
        steps = cs["steps"][:j + 1] + cs["steps"][j + 2:]
        after["TI"] = after["TI"] or []
        same = all(before[f] == after[f] for f in ("K", "C", "ST", "W", "FE", "KI")) and close(before["E"], after["E"]) and not after["TI"] \
            and all(close(a, b) for a, b in zip(before["F"], after["F"]))
        if not same:
            run.violation("energy-difference:state-changed", "%s restraint, schedule %s, energy_difference after event %d (step %d): k/centres/stage/W/FE/forces %r, before the call %r; lines written %r" % (
                c["kind"], c["mode"], j, before["it"], [after[f] for f in ("K", "C", "ST", "W", "FE", "F")], [before[f] for f in ("K", "C", "ST", "W", "FE", "F")], after["TI"]), rp)
        de, err = ed[k]
        xs = c["events"][j][1]
        E0, _, _ = spec_terms(c, ds[k], fr(before["K"]), before["C"], xs)
        E1, _, _ = spec_terms(c, ds[k], fr(c["k2"]), before["C"], xs)
        if err != "ok" or not close(de, float(E1 - E0)):
            run.violation("energy-difference:value", "%s restraint, schedule %s, step %d, scheduled k %r centres %r, values %r, alternative k %r: energy_difference %r (err %s), closed forms give %r" % (
                c["kind"], c["mode"], before["it"], before["K"], before["C"], xs, c["k2"], de, err, float(E1 - E0)), rp)
        c2, isteps, ms, cut = cut_ambiguous(c, steps, parse_model_line(mout[k]) if k < len(mout) else [])
        bad = compare(c2, ds[k], ms, isteps)
        if bad:
            run.mismatch("energy_difference", {"case": c, "model_case": mlines[k]}, bad, "the history without the call")
        for sig, text in oracle(c2, ds[k], isteps):
            run.violation(sig, text + " (history with an energy_difference call after event %d)" % j, rp)
        run.count("ediffm%d" % k, True)


def session_part(run, r, runner, n):
    """one session with more than the restraint under test: a second harmonic restraint r2 on the same variables, a rejected
    configuration in the middle of the run, then r2 deleted by script.  The restraint r must follow its model as if alone;
    r2 has its closed-form energy while it exists."""
    cases = []
    tries = 0
    while len(cases) < n and tries < 40 * n:
        tries += 1
        c = gen_case(r, len(cases))
        if c["kind"] == "walls" and any(v["per"] for v in c["vars"]):
            continue
        c["events"] = [(("B" if t == "R" else t), xs) for t, xs in c["events"]]      # one process: the second restraint is not in the model
        ne = len(c["events"])
        if ne < 4:
            continue
        c["jbad"], c["jdel"] = ne // 3, (2 * ne) // 3
        sc = c.get("scale", 1.0)
        c["c2"] = [V.dyadic(r, -3, 3, bits=2) * sc for _ in c["vars"]]
        cases.append(c)
    scn = []
    for k, c in enumerate(cases):
        L = scenario(c, k, runner.scratch)
        e0 = L.index("EOF")
        L = L[:e0] + ["harmonic {", "  name r2", "  colvars " + " ".join("v%d" % i for i in range(len(c["vars"]))), "  centers " + vec(c["c2"]), "  forceConstant 0.75", "}"] + L[e0:]
        rd = [j for j, l in enumerate(L) if l == "rdump"]
        pd = rd[c["jdel"]]
        L = L[:pd + 1] + ["script cv bias r2 delete", "script cv bias r set apply_force on"] + L[pd + 1:]
        pb = rd[c["jbad"]]
        # ... and the restraint does not apply its force for a while (its parameters, energy and schedule go on)
        L = L[:pb + 1] + ["config EOF", "harmonic {", "  name bad", "  colvars v0", "  targetCenters 1.0", "}", "EOF", "script cv bias r set apply_force off"] + L[pb + 1:]
        scn += L
    mlines, ds = [], []
    for c in cases:
        ml, d = model_case(c, runner.wallsinit)
        mlines.append(ml); ds.append(d)
    rc, mout, e = V.run_lines(runner.model, mlines)
    rc2, iout, e2 = V.run_lines(runner.unit, scn, cwd=runner.scratch, timeout=900)
    # split the RD records by bias name
    per = {}
    cur = None
    for l in iout:
        if l.startswith("echo CASE"):
            cur = int(l.split()[2]); per[cur] = {"r": [], "r2": [], "cfg": [], "end": False}
        elif cur is not None and l.startswith("RD "):
            per[cur].setdefault(l.split()[1], []).append(l)
        elif cur is not None and l.startswith("TI "):
            per[cur]["r"].append(l)
        elif cur is not None and (l.startswith("CONFIG") or (l.startswith("STEP ") and "err=ok" not in l)):
            per[cur]["cfg"].append(l)
        elif cur is not None and l.startswith("echo END"):
            per[cur]["end"] = True
    for k, c in enumerate(cases):
        run.dist("session:two-restraints+rejected-config+delete")
        rp = {"kind": "scenario", "case": c}
        p_ = per.get(k)
        if not p_ or not p_["end"]:
            run.violation("harness:incomplete", "session scenario %d did not complete (rc %d)" % (k, rc2), rp)
            continue
        cfg = [l for l in p_["cfg"] if l.startswith("CONFIG")]
        if len(cfg) != 2 or "err=ok" not in cfg[0] or "err=ok" in cfg[1] or any(l.startswith("STEP") for l in p_["cfg"]):
            run.mismatch("session", {"case": c}, p_["cfg"], "first configuration accepted, second one refused, no step error")
            continue
        steps = parse_impl(["echo CASE 0"] + p_["r"] + ["echo END 0"])[0]["steps"]
        if len(steps) != len(c["events"]):
            run.mismatch("session", {"case": c}, len(steps), len(c["events"]))
            continue
        n2 = len(p_["r2"])
        if n2 != c["jdel"] + 1:
            run.violation("session:deleted-restraint", "the second restraint was dumped %d times, it exists for the first %d events" % (n2, c["jdel"] + 1), rp)
        for l, (typ, xs) in zip(p_["r2"], c["events"]):
            d_ = parse_fields(l)
            c2 = dict(c, kind="harmonic")
            E2, _, _ = spec_terms(c2, ds[k], Fr(3, 4), c["c2"], xs)
            if not close(float.fromhex(d_["E"]), float(E2)):
                run.violation("session:second-restraint-energy", "second restraint (centres %r, k 0.75) at values %r: energy %r, closed form %r" % (c["c2"], xs, float.fromhex(d_["E"]), float(E2)), rp)
                break
        c2, isteps, ms, cut = cut_ambiguous(c, steps, parse_model_line(mout[k]) if k < len(mout) else [])
        bad = compare(c2, ds[k], ms, isteps)
        if bad:
            run.mismatch("session", {"case": c, "model_case": mlines[k]}, bad, "the restraint alone")
        for sig, text in oracle(c2, ds[k], isteps):
            run.violation(sig, text + " (session with a second restraint, a rejected configuration after event %d and a deletion after event %d)" % (c["jbad"], c["jdel"]), rp)
        run.count("session%d" % k, True)


def reconfig_part(run, r, runner, n):
    """a job restarted from a state with a configuration that legally differs in a parameter the state does not carry: the
    force constant of a restraint whose centres move, the centres of a restraint whose force constant changes, the width of
    a variable.  From the restart on the new parameter is in effect, the schedule (first step, stage, moving parameter)
    continues from the state."""
    cases = []
    tries = 0
    while len(cases) < n and tries < 60 * n:
        tries += 1
        c = gen_case(r, len(cases))
        if c["kind"] != "harmonic" or c["mode"] == "none" or c.get("scale") or any(v["per"] for v in c["vars"]):
            continue
        c["events"] = [e for e in c["events"] if e[0] == "S"]
        if len(c["events"]) < 4:
            continue
        c["jr"] = r.randrange(1, len(c["events"]) - 1)
        what = r.choice(["width"] + (["k"] if c["mode"] in ("cc", "cs") else ["centers"]))
        c["what"] = what
        c["accw"] = False
        cases.append(c)
    scn = []
    for k, c in enumerate(cases):
        c2 = json.loads(json.dumps(c))
        if c["what"] == "k":
            c2["k"] = c["k"] * 2.0
        elif c["what"] == "centers":
            c2["centers"] = [x + 0.5 for x in c["centers"]]
        else:
            c2["vars"][0]["w"] = c["vars"][0]["w"] * 2.0
        c["c2"] = c2
        conf1 = ["config EOF"] + config_text(c) + ["EOF"]
        conf2 = ["config EOF"] + config_text(c2) + ["EOF"]
        L = ["echo CASE %d" % k, "natoms %d" % len(c["vars"]), "new"]
        if c["it0"]:
            L.append("setstep %d" % c["it0"])
        L += ["capture"] + conf1 + ["show atomf 0 cv 0 energy 0 bias 0"]
        for j, (typ, xs) in enumerate(c["events"]):
            for i, x in enumerate(xs):
                L.append("pos %d 0 0 %s" % (i + 1, hx(x)))
            L += ["step", "rdump"]
            if j == c["jr"]:
                f = os.path.join(runner.scratch, "rc%d.state" % k)
                ld = "load" if not c.get("mem") else ("loadbuf" if c["fmt"] == "binary" else "loadstr")
                L += ["save %s %s" % (c["fmt"], f), "fresh", "capture"] + conf2 + ["%s %s" % (ld, f), "step", "rdump"]
        L.append("echo END %d" % k)
        scn += L
    rc2, iout, e2 = V.run_lines(runner.unit, scn, cwd=runner.scratch, timeout=900)
    impl = parse_impl(iout)
    for k, c in enumerate(cases):
        cs = impl.get(k)
        run.dist("restart-with-changed-%s:%s" % (c["what"], c["mode"]))
        rp = {"kind": "reconfig", "case": {kk: vv for kk, vv in c.items() if kk != "c2"}, "changed": c["what"]}
        if cs is None or not cs["complete"] or len(cs["steps"]) != len(c["events"]) + 1 or any("err=ok" not in l for l in cs["config"]):
            run.mismatch("reconfig", rp["case"], ((cs or {}).get("config", []) + (cs or {}).get("raw", []))[-3:], "complete run")
            continue
        jr = c["jr"]
        dA = post_init(c, runner.wallsinit)
        cA = dict(c, events=c["events"][:jr + 1], no_accumulators=True)
        c2 = c["c2"]
        dB = post_init(c2, runner.wallsinit)
        if c["what"] == "k" and c["mode"] in ("cc", "cs"):
            pass                                   # the fixed force constant comes from the new configuration
        cB = dict(c2, events=[("S", c["events"][jr][1])] + c["events"][jr + 1:], t_start=c["it0"] + jr, no_accumulators=True)
        if c["what"] == "centers":
            pass                                   # fixed centres come from the new configuration; the moving k from the state
        for sig, text in oracle(cA, dA, cs["steps"][:jr + 1]):
            run.violation(sig, text, rp)
        for sig, text in oracle(cB, dB, cs["steps"][jr + 1:]):
            run.violation(sig + ":restart-with-changed-" + c["what"], text + " (job restarted at step %d with %s changed: %r -> %r)" % (
                c["it0"] + jr, c["what"], {"k": c["k"], "centers": c["centers"], "width": c["vars"][0]["w"]}[c["what"]],
                {"k": c2["k"], "centers": c2["centers"], "width": c2["vars"][0]["w"]}[c["what"]]), rp)
        run.count("reconfig%d" % k, True)


def accw_toggle_part(run, r, runner, n):
    """outputAccumulatedWork switched on, off and on again by script (cv bias r set output_accumulated_work) on a restraint
    whose force constant changes continuously: the work grows by dU/dk x (k increment) at the steps computed while the
    option is on and stays put while it is off."""
    cases = []
    for k in range(n):
        N = r.choice([3, 4, 5, 6, 7, 8])
        c = {"w": r.choice(WIDTHS), "k": r.choice([0.5, 1.0, 2.0]), "tk": r.choice([0.0, 4.0, 6.0]), "N": N, "cen": V.dyadic(r, -2, 2, bits=2),
             "xs": [V.dyadic(r, -4, 4, bits=3) for _ in range(N + 3)]}
        js = sorted(r.sample(range(0, N + 2), 3))
        c["on1"], c["off"], c["on2"] = js
        cases.append(c)
    scn = []
    for k, c in enumerate(cases):
        scn += ["echo CASE %d" % k, "natoms 1", "new", "capture", "config EOF"] + colvar_block(0, {"w": c["w"], "per": False}) + [
            "harmonic {", "  name r", "  colvars v0", "  centers %r" % c["cen"], "  forceConstant %r" % c["k"], "  targetForceConstant %r" % c["tk"],
            "  targetNumSteps %d" % c["N"], "}", "EOF", "show atomf 0 cv 0 energy 0 bias 0"]
        for j, x in enumerate(c["xs"]):
            scn += ["pos 1 0 0 %s" % hx(x), "step", "rdump"]
            if j in (c["on1"], c["on2"]):
                scn.append("script cv bias r set output_accumulated_work on")
            elif j == c["off"]:
                scn.append("script cv bias r set output_accumulated_work off")
        scn.append("echo END %d" % k)
    rc2, iout, e2 = V.run_lines(runner.unit, scn, cwd=runner.scratch)
    impl = parse_impl(iout)
    for k, c in enumerate(cases):
        cs = impl.get(k)
        run.dist("accumulated-work:switched-by-script")
        if cs is None or not cs["complete"] or len(cs["steps"]) != len(c["xs"]) or any("err=ok" not in l for l in cs["config"]):
            run.mismatch("accw-toggle", c, ((cs or {}).get("config", []) + (cs or {}).get("raw", []))[-3:], "complete run")
            continue
        W = Fr(0)
        kof = lambda t: fr(c["k"]) + (fr(c["tk"]) - fr(c["k"])) * min(Fr(1), Fr(t, c["N"]))
        for t, (x, o) in enumerate(zip(c["xs"], cs["steps"])):
            on = (c["on1"] < t <= c["off"]) or (t > c["on2"])
            if on and t >= 1:
                W += (fr(x) - fr(c["cen"])) ** 2 / (2 * fr(c["w"]) ** 2) * (kof(t) - kof(t - 1))
            if not close(float(W), o["W"]):
                run.violation("work:k:switched-by-script", "k %r -> %r in %d steps, work switched on after step %d, off after %d, on after %d: step %d accumulated work %r, expected %r" % (
                    c["k"], c["tk"], c["N"], c["on1"], c["off"], c["on2"], t, o["W"], float(W)), {"kind": "accw-toggle", "case": c})
                break
        run.count("accwtoggle%d" % k, True)


def tsf_tie_part(run, r, runner, n):
    """timeStepFactor 2, 3, 5 on every restraint kind and schedule (centres or force constant; continuous, staged, lambdaSchedule), every segmentation: the extracted
    protocol run_tsf (coq/C06/RestraintTSF.v) against the implementation after every event (centres, stage, first step), and
    the closed form of C06_center_schedule_timestepfactor: centre = schedule at the last updated step."""
    cases = []
    tries = 0
    while len(cases) < n and tries < 60 * n:
        tries += 1
        c = gen_case(r, len(cases))
        if c["it0"] > 2 ** 40:
            continue
        c["accw"] = False
        c["tsf"] = r.choice([2, 3, 5])
        cases.append(c)
    scn, ml, ds = [], [], []
    for k, c in enumerate(cases):
        L = scenario(c, k, runner.scratch)
        L = [("  timeStepFactor %d\n}" % c["tsf"]).split("\n") if False else l for l in L]
        out = []
        inbias = False
        for l in L:
            if l.startswith(("harmonic {", "linear {", "harmonicWalls {")):
                inbias = True
            if inbias and l == "}":
                out.append("  timeStepFactor %d" % c["tsf"])
                inbias = False
            out.append(l)
        scn += out
        m_, d = model_case(c, runner.wallsinit)
        ml.append("RUNF %d %s" % (c["tsf"], m_[4:]))
        ds.append(d)
    rc, mout, e = V.run_lines(runner.model, ml)
    rc2, iout, e2 = V.run_lines(runner.unit, scn, cwd=runner.scratch, timeout=900)
    impl = parse_impl(iout)
    for k, c in enumerate(cases):
        cs = impl.get(k)
        f = c["tsf"]
        run.dist("timeStepFactor-%d:%s" % (f, c["mode"]))
        rp = {"kind": "scenario", "case": c, "timeStepFactor": f}
        if cs is None or not cs["complete"] or len(cs["steps"]) != len(c["events"]) or any("err=ok" not in l for l in cs["config"]):
            run.mismatch("timestepfactor", {"case": c}, ((cs or {}).get("config", []) + (cs or {}).get("raw", []))[-3:], "complete run")
            continue
        recs = [parse_fields(p_) for p_ in (mout[k].split(" ; ") if k < len(mout) else [])]
        first = c["it0"]
        bad = None
        for j, o in enumerate(cs["steps"]):
            t = o["it"]
            tu = f * (t // f)
            # closed form (continuous): the schedule at the last updated step, the configured centres before the first update
            if c["mode"] == "cc":
                want = [fr(x) for x in c["centers"]] if tu < first else spec_centers(c, ds[k], tu, first)
                if not all(same_mod(a, b, v) for a, b, v in zip(want, o["C"], c["vars"])):
                    run.violation("timestepfactor:continuous-centers", "timeStepFactor %d, step %d (first %d, N %d): centres %r, the schedule at the last updated step %d gives %r" % (f, t, first, c["N"], o["C"], tu, [float(x) for x in want]), rp)
                    break
            if j < len(recs) and bad is None:
                d_ = recs[j]
                mc = flist(d_["C"]) if c["kind"] != "walls" else []
                if int(d_["it"]) != t or (c["mode"] != "none" and (int(d_["ST"]) != o["ST"] or int(d_["FS"]) != o["FS"])) or \
                   not all(same_mod(a, b, v) for a, b, v in zip(mc, o["C"], c["vars"])) or \
                   (o["K"] is not None and not close(float.fromhex(d_["K"]), o["K"])) or not close(float.fromhex(d_["FE"]), o["FE"]):
                    bad = "event %d step %d: centres/k/stage/first/FE impl %r %r %d %d %r, model %r %r %s %s %r" % (
                        j, t, o["C"], o["K"], o["ST"], o["FS"], o["FE"], mc, float.fromhex(d_["K"]), d_["ST"], d_["FS"], float.fromhex(d_["FE"]))
        if len(recs) != len(cs["steps"]):
            bad = bad or "model executed %d events, implementation %d" % (len(recs), len(cs["steps"]))
        if bad:
            run.mismatch("timestepfactor", {"case": c, "model_case": ml[k]}, bad, "agreement")
        run.count("tsftie%d" % k, c["mode"] != "none")


def tsf_part(run, runner):
    """timeStepFactor f > 1: the bias is updated every f steps.  Continuous schedules are evaluated at the updated steps
    (and are stale in between, by design); staged schedules test exact step numbers and miss them (recorded finding)."""
    def scen(extra, nsteps, k):
        L = ["echo CASE %d" % k, "natoms 1", "new", "capture", "config EOF"] + colvar_block(0, {"w": 0.5, "per": False}) + [
            "harmonic {", "  name r", "  colvars v0", "  centers 1.0", "  forceConstant 2.0"] + extra + ["  timeStepFactor 2", "}", "EOF",
            "show atomf 0 cv 0 energy 0 bias 0", "pos 1 0 0 %s" % hx(0.5)]
        return L + ["step", "rdump"] * nsteps + ["echo END %d" % k]
    scn = scen(["  targetCenters 3.0", "  targetNumSteps 4"], 8, 0)                          # continuous centres
    scn += scen(["  targetForceConstant 4.0", "  targetNumSteps 4", "  lambdaExponent 2"], 8, 1)   # continuous k
    scn += scen(["  targetCenters 3.0", "  targetNumSteps 4", "  targetNumStages 2"], 12, 2)    # staged centres: moves due at steps 1, 5, 9
    scn += scen(["  targetForceConstant 4.0", "  targetNumSteps 3", "  targetNumStages 2"], 8, 3)   # staged k: stage ends at 3, 6
    scn += scen(["  targetCenters 3.0", "  targetNumSteps 3"], 8, 4)                          # continuous centres, N not a multiple of f
    rc2, iout, e2 = V.run_lines(runner.unit, scn, cwd=runner.scratch)
    impl = parse_impl(iout)
    for k in range(5):
        cs = impl.get(k)
        run.dist("timeStepFactor")
        if cs is None or not cs["complete"] or any("err=ok" not in l for l in cs["config"]):
            run.mismatch("timestepfactor", k, ((cs or {}).get("config", []) + (cs or {}).get("raw", []))[-3:], "complete run")
            continue
        run.count("tsf%d" % k, True)
        for o in cs["steps"]:
            t = o["it"]
            tu = t - t % 2            # last updated step
            rp = {"kind": "tsf", "scenario": k, "steps": [(q["it"], q["C"], q["K"]) for q in cs["steps"]]}
            if k == 0:
                want = 1.0 + 2.0 * min(1.0, tu / 4.0)
                if not close(o["C"][0], want):
                    run.violation("timestepfactor:continuous-centers", "timeStepFactor 2, step %d: centre %r, schedule at the last updated step %d prescribes %r" % (t, o["C"][0], tu, want), rp)
            elif k == 4:
                # theorem C06_center_schedule_timestepfactor: centre = schedule at the last updated step f*(t/f): the target from step 4 on
                want = 1.0 + 2.0 * min(1.0, tu / 3.0)
                if not close(o["C"][0], want):
                    run.violation("timestepfactor:continuous-schedule-stops-short", "timeStepFactor 2, centres 1->3, targetNumSteps 3, step %d: centre %r, schedule at the last updated step %d prescribes %r" % (t, o["C"][0], tu, want), rp)
            elif k == 1:
                want = 2.0 + 2.0 * min(1.0, tu / 4.0) ** 2
                if not close(o["K"], want):
                    run.violation("timestepfactor:continuous-k", "timeStepFactor 2, step %d: k %r, schedule at the last updated step %d prescribes %r" % (t, o["K"], tu, want), rp)
            elif k == 2:
                nm = 0 if tu <= 0 else min(3, (tu - 1) // 4 + 1)
                want = 1.0 if nm == 0 else 1.0 + 2.0 * (nm - 1) / 2.0
                if not close(o["C"][0], want):
                    run.violation("timestepfactor:staged-schedule-misses-steps", "timeStepFactor 2, centres 1->3, targetNumSteps 4, 2 stages, step %d: centre %r, schedule (at the last updated step %d) prescribes %r" % (t, o["C"][0], tu, want), rp)
            else:
                if o["TI"] and abs(o["TI"][0][1] - 1.0) > 1e-4:
                    run.violation("timestepfactor:ti-divisor", "timeStepFactor 2, k 2->4, targetNumSteps 3, 2 stages, dU/dlambda 1 at every step: dA/dLambda %r written at step %d (only every second step is sampled, the sum is divided by targetNumSteps)" % (o["TI"][0][1], t), rp)
                want = 2.0 + 2.0 * min(2, tu // 3) / 2.0
                if not close(o["K"], want):
                    run.violation("timestepfactor:staged-schedule-misses-steps", "timeStepFactor 2, k 2->4, targetNumSteps 3, 2 stages, step %d: k %r, schedule (at the last updated step %d) prescribes %r" % (t, o["K"], tu, want), rp)


def ti_part(run, r, runner, n):
    """colvarbias_ti attached to a harmonic restraint (writeTISamples): per bin of the variable, the collected samples are the
    system forces (total force minus the force this bias applied) of the steps at which the variable was in that bin, each
    step once.  Engine forces are imposed exactly (eforce on the single atom of a distanceZ variable)."""
    cases = []
    for k in range(n):
        same = r.random() < 0.5
        c = {"same": same, "k": r.choice([0.0, 0.5, 1.0, 2.0]), "center": V.dyadic(r, 0, 4, bits=2), "seg": r.choice(["none", "none", "B", "R"]),
             "fmt": r.choice(["text", "binary"]), "steps": []}
        for s_ in range(r.randint(4, 9)):
            c["steps"].append((V.dyadic(r, -0.5, 4.5, bits=3), V.dyadic(r, -4, 4, bits=2)))
        cases.append(c)
    scn = []
    for k, c in enumerate(cases):
        conf = ["config EOF", "colvar {", "  name v0", "  width 1.0", "  lowerBoundary 0.0", "  upperBoundary 4.0", "  distanceZ {",
                "    main { atomNumbers 1 }", "    ref { dummyAtom (0,0,0) }", "    axis (0,0,1)", "    oneSiteTotalForce on", "  }", "}",
                "harmonic {", "  name r", "  colvars v0", "  centers %r" % c["center"], "  forceConstant %r" % c["k"], "  writeTISamples on", "}", "EOF"]
        L = ["echo CASE %d" % k, "natoms 1", "totalforces 1", "samestep %d" % (1 if c["same"] else 0), "includecv 1", "new"] + conf + [
             "show atomf 0 cv 0 energy 0 bias 0"]
        ev = []
        for i, (x, f) in enumerate(c["steps"]):
            L += ["pos 1 0 0 %s" % hx(x), "eforce 1 0 0 %s" % hx(f), "step", "tidump"]
            ev.append(("S", x, f))
            if c["seg"] != "none" and 0 < i < len(c["steps"]) - 1 and r.random() < 0.35:
                if c["seg"] == "B":
                    L += ["runboundary", "step", "tidump"]
                else:
                    fn = os.path.join(runner.scratch, "ti%d_%d.state" % (k, i))
                    L += ["save %s %s" % (c["fmt"], fn), "fresh"] + conf + ["load %s" % fn, "step", "tidump"]
                ev.append((c["seg"], x, f))
        L.append("echo END %d" % k)
        c["events"] = ev
        c["scenario"] = L
        scn += L
    rc2, iout, e2 = V.run_lines(runner.unit, scn, cwd=runner.scratch)
    # parse TID lines per case
    cur = None
    got = {}
    aux = {}
    okc = {}
    for l in iout:
        if l.startswith("echo CASE"):
            cur = int(l.split()[2]); got[cur] = []; okc[cur] = True
        elif cur is not None and l.startswith("TID "):
            d_ = parse_fields(l)
            got[cur].append([(int(t.split(":")[0]), float.fromhex(t.split(":")[1])) for t in d_["G"].split(",") if t])
            aux.setdefault(cur, []).append((float.fromhex(d_["X"]), float.fromhex(d_["TF"]), float.fromhex(d_["FB"])))
        elif cur is not None and (l.startswith("CONFIG") or l.startswith("LOAD") or l.startswith("SAVE")) and "err=ok" not in l:
            okc[cur] = False
    tie_lines, tie_where = [], []
    for k, c in enumerate(cases):
        run.dist("colvarbias_ti:%s" % ("same-step" if c["same"] else "lagged"))
        g = got.get(k, [])
        rp = {"kind": "ti", "case": {kk: vv for kk, vv in c.items() if kk != "scenario"}, "scenario": c["scenario"]}
        if not okc.get(k, False) or len(g) != len(c["events"]):
            run.mismatch("colvarbias_ti", rp["case"], len(g), "%d dumps" % len(c["events"]))
            continue
        cnt = [0] * 4
        sm = [0.0] * 4
        binof = lambda x: int(math.floor(x)) if 0.0 <= x < 4.0 else None
        prev = None          # (bin, force) of the previous NEW step (lagged mode)
        bad = False
        for j, (typ, x, f) in enumerate(c["events"]):
            if typ == "S" and j > 0:
                if c["same"]:
                    b = binof(x)
                    if b is not None:
                        cnt[b] += 1; sm[b] += f
                else:
                    pb, pf = prev
                    if pb is not None:
                        cnt[pb] += 1; sm[pb] += pf
            if typ == "S":
                prev = (binof(x), f)
            have = g[j]
            if [h[0] for h in have] != cnt or not all(close(h[1], s_) for h, s_ in zip(have, sm)):
                sig = "ti-estimator:samples" if typ == "S" else ("ti-estimator:run-boundary-step-sampled-twice" if typ == "B" else "ti-estimator:restart")
                run.violation(sig, "%s total forces, event %d (%s, value %r, engine force %r): per-bin (count, sum of system forces) %r; the steps so far give counts %r sums %r" % ("same-step" if c["same"] else "lagged", j, typ, x, f, have, cnt, sm), rp)
                bad = True
                break
        run.count("ti%d" % k, sum(cnt) >= 3)
        # tie: the extracted estimator model (coq/C06/TIEstimator.v) on the values, total forces and bias forces the implementation reports
        ax = aux.get(k, [])
        if len(ax) == len(c["events"]):
            tie_lines.append("TIRUN %d %s %s 4 0 %d %s" % (1 if c["same"] else 0, hx(0.0), hx(1.0), len(ax),
                                                         " ".join("%s %s %s %s" % (typ if typ == "S" else typ, hx(x_), hx(tf), hx(fb)) for (typ, _, _), (x_, tf, fb) in zip(c["events"], ax))))
            tie_where.append((k, g, rp))
    rc, mout, e = V.run_lines(runner.model, tie_lines)
    if len(mout) != len(tie_where):
        run.mismatch("colvarbias_ti", "model run", len(tie_where), len(mout))
    for (k, g, rp), line in zip(tie_where, mout):
        mg = [[(int(t.split(":")[0]), float.fromhex(t.split(":")[1])) for t in part.split()] for part in line.split(" ; ")]
        for j, (a, b) in enumerate(zip(g, mg)):
            if [h[0] for h in a] != [h[0] for h in b] or not all(close(x[1], y[1]) for x, y in zip(a, b)):
                run.mismatch("colvarbias_ti", {"case": rp["case"], "event": j}, a, b)
                break


def setup():
    V.extract_model("C06", EXTRACT, DRIVER, ["ocaml/fops.ml"])
    V.build_prog("c06unit", PROGS["c06unit"])


def load_corpus():
    out = []
    cp = os.path.join(V.ROOT, "corpus", "C06_cases.txt")
    if os.path.exists(cp):
        for l in open(cp):
            l = l.strip()
            if l and not l.startswith("#"):
                out.append(json.loads(l))
    return out


def check(run):
    r = V.rng("C06")
    quick = run.tier == "quick"
    run.cov["rule"] = ("scenarios: harmonic / harmonicWalls / linear restraints on 1-2 exact scalar variables (distanceZ, periodic or not, "
                       "power-of-two widths and periods), fixed, continuous or staged moving centres, continuous / staged / lambdaSchedule / "
                       "decoupling force constants with lambdaExponent and targetEquilSteps, accumulated work; values on walls and centres, "
                       "half a period away, several periods away; every history is segmented by in-process run boundaries and save/fresh/load "
                       "restarts aimed at the stage boundaries. non-trivial = >=2 stages completed, a wall crossed, a periodic variable, or a "
                       "segmentation event; distinct = distinct scenario")
    run.assumptions += [
        "theorems about potentials and accumulated work are about the R instance of the model; schedule theorems hold for every numeric carrier; the tie runs the float instance on dyadic inputs",
        "values that passed through a text state file (centres, force constant, accumulated work) are compared with relative tolerance 1e-9",
        "manifold-valued variables (unit vector, quaternion, 3-vector): the energy and the interpolated centres are tied through coq/C18/ValueModel.v's distances; quaternion interpolation and all non-scalar forces are checked by the oracle only; the colvarbias_ti estimator is outside the model (see NOTES.md)",
    ]
    st = V.standard_start(run, PROP, EXTRACT, DRIVER, PROGS)
    if st is None:
        return
    model, exes = st
    runner = Runner(model, os.environ.get("C06_UNIT_EXE") or exes["c06unit"])      # C06_UNIT_EXE: an instrumented (gcov) build of the harness

    # ---- regression scenarios of the repaired defects (first: they are the minimised failing cases)
    wit = witness_cases()
    wc = [w[2] for w in wit]
    mlines, ds, mout, impl, _ = runner.run(wc)
    for k, (sig, osig, c) in enumerate(wit):
        cs = impl.get(k)
        run.dist("regression")
        if cs is None or not cs["complete"]:
            run.mismatch("regression:" + sig, c, (cs or {}).get("raw", [])[-3:], "complete run")
            continue
        ms = parse_model_line(mout[k]) if k < len(mout) else []
        bad = compare(c, ds[k], ms, cs["steps"])
        if bad:
            run.mismatch("regression:" + sig, {"case": c, "model_case": mlines[k]}, bad, "agreement")
        run.count("regression:" + sig, True)
        for osg, text in oracle(c, ds[k], cs["steps"]):
            run.violation(sig if osg == osig else osg, text,
                          {"kind": "scenario", "case": c, "scenario": scenario(c, 0, "."), "model_case": mlines[k]})

    # ---- generated scenarios (corpus first)
    n = 260 if quick else 20000
    cases = load_corpus() + [gen_case(r, k, quick) for k in range(n)]
    B = 130
    nmis = 0
    for b0 in range(0, len(cases), B):
        chunk = cases[b0:b0 + B]
        mlines, ds, mout, impl, (rc2, e2) = runner.run(chunk)
        for k, c in enumerate(chunk):
            cs = impl.get(k)
            key = json.dumps(c, sort_keys=True)
            run.dist("kind:%s" % c["kind"])
            run.dist("mode:%s" % c["mode"])
            run.dist("events:boundary", sum(1 for t, _ in c["events"] if t == "B"))
            run.dist("events:restart", sum(1 for t, _ in c["events"] if t == "R"))
            if cs is None or not cs["complete"]:
                run.violation("harness:incomplete", "the scenario did not run to completion (rc=%d): %s" % (rc2, ((cs or {}).get("raw", []) or [e2[-200:]])[-1]),
                              {"kind": "scenario", "case": c, "scenario": scenario(c, 0, ".")})
                continue
            if any("err=ok" not in l for l in cs["config"]):
                errs = [l for l in cs["config"] if "err=ok" not in l]
                if errs[0].startswith("STEP "):
                    run.violation("step:error", "a valid restraint history raised an error: %s" % errs[0][:200],
                                  {"kind": "scenario", "case": c, "scenario": scenario(c, 0, ".")})
                else:
                    run.mismatch("config", {"case": c}, errs[:2], "accepted")
                continue
            run.count(key, nontrivial(c, ds[k], cs["steps"]))
            ms = parse_model_line(mout[k]) if k < len(mout) else []
            if len(ms) != len(cs["steps"]):
                run.mismatch("restraint:%s:%s" % (c["kind"], c["mode"]), {"case": c, "model_case": mlines[k]},
                             "%d events executed" % len(cs["steps"]), "%d events executed" % len(ms))
                continue
            cfull = c
            c, isteps, ms, cut = cut_ambiguous(c, cs["steps"], ms)
            if cut:
                run.dist("boundary-ambiguous (half a period from the centre): scenario cut")
            bad = compare(c, ds[k], ms, isteps)
            if bad:
                nmis += 1
                run.mismatch("restraint:%s:%s" % (c["kind"], c["mode"]), {"case": cfull, "model_case": mlines[k]}, bad, "agreement")
            for sig, text in oracle(c, ds[k], isteps):
                run.violation(sig, text, {"kind": "scenario", "case": c, "scenario": scenario(c, 0, "."), "model_case": mlines[k]})
            if b0 == 0 and k < 2:
                run.sample({"scenario": config_text(c), "events": c["events"][:6], "first_outputs": cs["raw"][:6]})
    abmd_part(run, r, runner, 40 if quick else 2000)
    hist_part(run, r, runner, 40 if quick else 2500)
    manifold_part(run, r, runner, 60 if quick else 3000)
    kman_part(run, r, runner, 40 if quick else 1500)
    script_part(run, r, runner, 30 if quick else 600)
    ediff_moving_part(run, r, runner, 40 if quick else 1000)
    traj_part(run, r, runner, 30 if quick else 600)
    badconfig_part(run, runner)
    accw_toggle_part(run, r, runner, 20 if quick else 500)
    reconfig_part(run, r, runner, 30 if quick else 800)
    session_part(run, r, runner, 30 if quick else 800)
    extl_part(run, r, runner, 30 if quick else 800)
    tsf_part(run, runner)
    tsf_tie_part(run, r, runner, 40 if quick else 1000)
    ti_part(run, r, runner, 40 if quick else 1500)
    run.cov["correspondence"].update({"scenarios": len(cases), "regression_scenarios": len(wit)})


def replay(path):
    j = json.load(open(path))
    rp = j["replay"]
    print(json.dumps({k: v for k, v in j.items() if k != "replay"}, indent=1)[:2000])
    if rp.get("kind") == "scenario":
        model = V.extract_model("C06", EXTRACT, DRIVER, ["ocaml/fops.ml"])
        unit = V.build_prog("c06unit", PROGS["c06unit"])
        runner = Runner(model, unit)
        c = rp["case"]
        mlines, ds, mout, impl, _ = runner.run([c])
        print("scenario:\n  " + "\n  ".join(scenario(c, 0, runner.scratch)))
        print("impl :")
        for l in impl.get(0, {}).get("raw", []):
            print("  ", l)
        print("model:")
        for part in (mout[0] if mout else "").split(" ; "):
            print("  ", part)
        if impl.get(0):
            print("tie  :", compare(c, ds[0], parse_model_line(mout[0]), impl[0]["steps"]))
            print("oracle:", oracle(c, ds[0], impl[0]["steps"]))
    else:
        print(json.dumps(rp, indent=1)[:3000])
    return 0
