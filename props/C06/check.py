# C06: restraints implement their documented potentials and time schedules.
import os, sys, json, math, re
from fractions import Fraction as Fr
import vcommon as V

PROP = "coq/C06/Properties_C06.v"
EXTRACT = "coq/C06/Extract_C06.v"
DRIVER = "props/C06/driver.ml"
PROGS = {"c06unit": ["props/C06/unit.cpp"]}
TOL = 1e-9
_NOHYP = [False]


def close(a, b, tol=TOL):
    return abs(a - b) <= tol * max(1.0, abs(a), abs(b))


def hx(x):
    return V.hexf(x)


# ------------------------------------------------------------------ scenario -> config text
def colvar_block(i, v):
    L = ["colvar {", "  name v%d" % i, "  width %r" % v["w"], "  distanceZ {", "    main { atomNumbers %d }" % (i + 1),
         "    ref { dummyAtom (0,0,0) }", "    axis (0,0,1)"]
    if v["per"]:
        L += ["    period %r" % v["P"], "    wrapAround %r" % v["wc"]]
    L += ["  }", "}"]
    return L


def vec(l):
    return " ".join("%r" % x for x in l)


def bias_block(c):
    kw = {"harmonic": "harmonic", "walls": "harmonicWalls", "linear": "linear"}[c["kind"]]
    L = [kw + " {", "  name r", "  colvars " + " ".join("v%d" % i for i in range(len(c["vars"])))]
    if c["kind"] != "walls":
        L.append("  centers " + vec(c["centers"]))
    else:
        if c["hl"]:
            L.append("  lowerWalls " + vec(c["lower"]))
        if c["hu"]:
            L.append("  upperWalls " + vec(c["upper"]))
        if c.get("lwk") is not None:
            if c["hl"]:
                L.append("  lowerWallConstant %r" % c["lwk"])
            if c["hu"]:
                L.append("  upperWallConstant %r" % c["uwk"])
    if c.get("k") is not None:
        L.append("  forceConstant %r" % c["k"])
    m = c["mode"]
    if m in ("cc", "cs"):
        L.append("  targetCenters " + vec(c["target_centers"]))
    if m in ("kc", "ks", "kl"):
        if c["dec"]:
            L.append("  decoupling on")
        else:
            L.append("  targetForceConstant %r" % c["tk"])
        if c["lexp"] != 1.0:
            L.append("  lambdaExponent %r" % c["lexp"])
    if m != "none":
        L.append("  targetNumSteps %d" % c["N"])
    if m in ("cs", "ks"):
        L.append("  targetNumStages %d" % c["nstages"])
    if m == "kl":
        L.append("  lambdaSchedule " + vec(c["sched"]))
    if m in ("ks", "kl") and c["equil"]:
        L.append("  targetEquilSteps %d" % c["equil"])
    if c["accw"]:
        L.append("  outputAccumulatedWork on")
    L.append("}")
    return L


def config_text(c):
    L = []
    for i, v in enumerate(c["vars"]):
        L += colvar_block(i, v)
    L += bias_block(c)
    return L


def scenario(c, k, scratch):
    conf = ["config EOF"] + config_text(c) + ["EOF"]
    L = ["echo CASE %d" % k, "natoms %d" % len(c["vars"]), "new"]
    if c["it0"]:
        L.append("setstep %d" % c["it0"])
    L += ["capture"] + conf + ["show atomf 0 cv 0 energy 0 bias 0"]
    nsave = 0
    for typ, xs in c["events"]:
        for i, x in enumerate(xs):
            L.append("pos %d 0 0 %s" % (i + 1, hx(x)))
        if typ == "B":
            L.append("runboundary")
        elif typ == "R":
            f = os.path.join(scratch, "c%d_%d.state" % (k, nsave))
            nsave += 1
            L += ["save %s %s" % (c.get("fmt", "text"), f), "fresh", "capture"] + conf + ["load %s" % f]
        L += ["step", "rdump"]
    L.append("echo END %d" % k)
    return L


# ------------------------------------------------------------------ scenario -> model case
def post_init(c, wallsinit):
    """configuration as it stands after init (mirrors the init functions; the wall constants go
    through the model's own walls_init)"""
    nv = len(c["vars"])
    d = {}
    kcfg = c["k"] if c.get("k") is not None else 1.0
    if c["kind"] == "walls":
        lk = c["lwk"] if (c.get("lwk") is not None and c["hl"]) else (kcfg if c["hl"] else -1.0)
        uk = c["uwk"] if (c.get("lwk") is not None and c["hu"]) else (kcfg if c["hu"] else -1.0)
        k0, lk2, uk2 = wallsinit(c["hl"], c["hu"], lk, uk)
        d["lk"], d["uk"] = lk2, uk2
    else:
        k0 = kcfg
        d["lk"], d["uk"] = -1.0, -1.0
    d["k0"] = k0
    m = c["mode"]
    d["chgc"] = m in ("cc", "cs")
    d["chgk"] = m in ("kc", "ks", "kl")
    d["sk"], d["tk"] = -1.0, -1.0
    if d["chgk"]:
        if c["dec"]:
            d["sk"], d["tk"] = 0.0, kcfg
        else:
            d["sk"], d["tk"] = kcfg, c["tk"]
        if c["kind"] == "walls":
            d["sk"] = 0.0 if c["dec"] else k0
    d["nstages"] = (len(c["sched"]) - 1) if m == "kl" else (c["nstages"] if m in ("cs", "ks") else 0)
    return d


def model_case(c, wallsinit):
    d = post_init(c, wallsinit)
    nv = len(c["vars"])
    p = ["RUN", c["kind"], str(nv)]
    for v in c["vars"]:
        p += [hx(v["w"]), "1" if v["per"] else "0", hx(v.get("P", 1.0)), hx(v.get("wc", 0.0))]
    cen = c["centers"] if c["kind"] != "walls" else [0.0] * nv
    p += [hx(x) for x in cen]
    p += ["1" if d["chgc"] else "0"] + [hx(x) for x in (c["target_centers"] if d["chgc"] else cen)]
    p += [hx(d["k0"]), "1" if d["chgk"] else "0", "1" if c.get("dec") else "0", hx(d["sk"]), hx(d["tk"]), hx(c.get("lexp", 1.0))]
    sched = c["sched"] if c["mode"] == "kl" else []
    p += [str(len(sched))] + [hx(x) for x in sched]
    p += [str(c.get("N", 0)), str(d["nstages"]), str(c.get("equil", 0) if c["mode"] in ("ks", "kl") else 0)]
    p += ["1" if c["accw"] else "0", "1" if c.get("hl") else "0", "1" if c.get("hu") else "0"]
    p += [hx(x) for x in (c["lower"] if c.get("hl") else [0.0] * nv)]
    p += [hx(x) for x in (c["upper"] if c.get("hu") else [0.0] * nv)]
    p += [hx(d["lk"]), hx(d["uk"]), str(c["it0"]), str(len(c["events"]))]
    for typ, xs in c["events"]:
        p += [typ] + [hx(x) for x in xs]
    return " ".join(p), d


# ------------------------------------------------------------------ output parsing
def parse_fields(s):
    d = {}
    for tok in s.split():
        if "=" in tok:
            a, b = tok.split("=", 1)
            d[a] = b
    return d


def flist(s):
    if s is None or s == "-" or s == "":
        return []
    return [float.fromhex(t) for t in s.split(",")]


def parse_model_line(line):
    out = []
    for part in line.split(" ; "):
        d = parse_fields(part)
        if not d:
            continue
        o = {"it": int(d["it"]), "E": float.fromhex(d["E"]), "F": flist(d["F"]), "C": flist(d["C"]),
             "K": float.fromhex(d["K"]), "ST": int(d["ST"]), "FS": int(d["FS"]), "W": float.fromhex(d["W"]),
             "FE": float.fromhex(d["FE"]), "KI": float.fromhex(d["KI"]), "L": None}
        if d["L"] != "-":
            a, b = d["L"].split(":")
            o["L"] = (float.fromhex(a), float.fromhex(b))
        out.append(o)
    return out


def parse_impl(lines):
    """split the harness output into cases: {k: {"steps": [...], "raw": [...], "complete": bool}}"""
    cases = {}
    cur = None
    ti = []
    for l in lines:
        if l.startswith("echo CASE"):
            cur = int(l.split()[2])
            cases[cur] = {"steps": [], "raw": [], "complete": False, "config": []}
            ti = []
            continue
        if cur is None:
            continue
        cs = cases[cur]
        cs["raw"].append(l)
        if l.startswith("echo END"):
            cs["complete"] = True
            cur = None
        elif l.startswith("CONFIG") or l.startswith("LOAD") or l.startswith("SAVE"):
            cs["config"].append(l)
        elif l.startswith("TI "):
            m = re.search(r"Lambda=\s*(\S+)\s+dA/dLambda=\s*(\S+)", l)
            if m:
                ti.append((float(m.group(1)), float(m.group(2))))
        elif l.startswith("RD "):
            d = parse_fields(l)
            o = {"it": int(d["it"]), "E": float.fromhex(d["E"]), "F": flist(d.get("F")), "C": flist(d.get("C")),
                 "K": float.fromhex(d["K"]) if "K" in d else None, "ST": int(d.get("ST", 0)), "FS": int(d.get("FS", 0)),
                 "W": float.fromhex(d.get("W", "0x0p+0")), "FE": float.fromhex(d.get("FE", "0x0p+0")),
                 "KI": float.fromhex(d.get("KI", "0x0p+0")), "TI": ti,
                 "REF": float.fromhex(d["REF"]) if "REF" in d else None}
            ti = []
            cs["steps"].append(o)
    return cases


# ------------------------------------------------------------------ exact closed forms (the specification)
def fr(x):
    return Fr(x)


def shortest(d, P):
    """representative of d modulo P with the smallest absolute value (either one at a tie)"""
    n = (d / P + Fr(1, 2)).__floor__()
    return d - n * P


def spec_terms(c, d, k, centers, xs):
    """(energy, forces, dU/dk) of the documented potential at force constant k and the given centres"""
    E = Fr(0)
    F = []
    dUdk = Fr(0)
    for i, v in enumerate(c["vars"]):
        w2 = fr(v["w"]) ** 2
        x = fr(xs[i])
        if c["kind"] == "harmonic":
            dd = x - fr(centers[i])
            if v["per"]:
                dd = shortest(dd, fr(v["P"]))
            E += k * dd * dd / (2 * w2)
            dUdk += dd * dd / (2 * w2)
            F.append(-k * dd / w2)
        elif c["kind"] == "linear":
            E += k * (x - fr(centers[i])) / fr(v["w"])
            dUdk += (x - fr(centers[i])) / fr(v["w"])
            F.append(-k / fr(v["w"]))
        else:
            lk, uk = fr(d["lk"]), fr(d["uk"])
            if v["per"]:
                P = fr(v["P"])
                lo, up = fr(c["lower"][i]), fr(c["upper"][i])
                # position on the circle relative to the lower wall: inside the arc [lo, up] -> no force
                a = (x - lo) - ((x - lo) / P).__floor__() * P      # in [0, P)
                arc = up - lo
                if a <= arc:
                    dist, sc = Fr(0), lk
                else:
                    da = a - arc         # beyond the upper wall
                    db = P - a           # before the lower wall
                    if db < da:
                        dist, sc = -db, lk
                    else:
                        dist, sc = da, uk
            else:
                dist, sc = Fr(0), lk
                if c["hl"] and x < fr(c["lower"][i]):
                    dist, sc = x - fr(c["lower"][i]), lk
                elif c["hu"] and x > fr(c["upper"][i]):
                    dist, sc = x - fr(c["upper"][i]), uk
            E += k * sc * dist * dist / (2 * w2)
            dUdk += sc * dist * dist / (2 * w2)
            F.append(-k * sc * dist / w2)
    return E, F, dUdk


def fpow(lam, e):
    if float(e).is_integer() and e >= 0:
        return lam ** int(e)
    return Fr(math.pow(float(lam), e)) if lam > 0 else (Fr(0) if e > 0 else Fr(1))


def spec_stage_k(c, d, t, first):
    return min(d["nstages"], (t - first) // c["N"])


def spec_lambda_stage(c, d, g):
    if c["mode"] == "kl":
        return fr(c["sched"][g])
    lam = Fr(g, d["nstages"])
    return 1 - lam if c["dec"] else lam


def spec_k(c, d, t, first):
    m = c["mode"]
    if m == "kc":
        lam = min(Fr(1), Fr(t - first, c["N"]))
        if c["dec"]:
            lam = 1 - lam
    elif m in ("ks", "kl"):
        lam = spec_lambda_stage(c, d, spec_stage_k(c, d, t, first))
    else:
        return fr(d["k0"])
    return fr(d["sk"]) + (fr(d["tk"]) - fr(d["sk"])) * fpow(lam, c["lexp"])


def spec_centers(c, d, t, first, wrap=True):
    if c["kind"] == "walls":
        return []
    m = c["mode"]
    if m == "cc":
        lam = min(Fr(1), Fr(t - first, c["N"]))
    elif m == "cs":
        nupd = 0 if t - first <= 0 else min(d["nstages"] + 1, (t - first - 1) // c["N"] + 1)
        if nupd == 0:
            return [fr(x) for x in c["centers"]]
        lam = Fr(nupd - 1, d["nstages"])
    else:
        return [fr(x) for x in c["centers"]]
    out = []
    for i, v in enumerate(c["vars"]):
        x = (1 - lam) * fr(c["centers"][i]) + lam * fr(c["target_centers"][i])
        if v["per"] and wrap:
            x = fr(v["wc"]) + shortest(x - fr(v["wc"]), fr(v["P"]))
            if x - fr(v["wc"]) >= fr(v["P"]) / 2:
                x -= fr(v["P"])
        out.append(x)
    return out


def same_mod(a, b, v):
    """centres of a periodic variable are compared modulo the period"""
    if v["per"]:
        dd = float(shortest(Fr(a) - Fr(b), fr(v["P"])))
        return abs(dd) <= TOL * max(1.0, abs(float(a)))
    return close(float(a), float(b))


def oracle(c, d, steps):
    """Property oracle on the implementation's outputs alone.  Returns a list of (signature, text).
    `steps` are the parsed RD records, one per event."""
    bad = []
    first = c["it0"]
    m = c["mode"]
    N = c.get("N", 0)
    # which events re-execute a step (boundary/restart) and at which step
    t = None
    evinfo = []
    for (typ, xs) in c["events"]:
        if t is None:
            t = c["it0"]
            typ_eff = "S" if typ == "S" else typ
        elif typ == "S":
            t += 1
        evinfo.append((typ, t, xs))
    # hypotheses of the _partial theorems
    nohyp = _NOHYP[0]
    sched_ok = True     # schedule (centres / k) is claimed for this scenario
    if nohyp:
        pass
    elif m == "cs":
        if N < 2 or any(typ == "B" and t > first and (t - first) % N == 1 for typ, t, _ in evinfo[1:]):
            sched_ok = False
    if m in ("ks", "kl") and not nohyp:
        if any(typ in ("B", "R") and t > first and (t - first) % N == 0 for typ, t, _ in evinfo[1:]):
            sched_ok = False
    W = Fr(0)
    seen = set()
    prevc = None
    prevk = None
    work_ok = c["accw"] and (nohyp or not any(v["per"] for v in c["vars"]))
    ti_acc = {}     # stage -> (sum, count, clean)
    dirty_stages = set()
    for idx, ((typ, t, xs), o) in enumerate(zip(evinfo, steps)):
        if o["it"] != t:
            bad.append(("protocol:step-number", "event %d: the module is at step %d, the engine at %d" % (idx, o["it"], t)))
            break
        # ---- potentials at the parameters the implementation reports
        kimp = fr(o["K"]) if o["K"] is not None else fr(d["k0"])
        cimp = o["C"] if c["kind"] != "walls" else []
        E, F, dUdk = spec_terms(c, d, kimp, cimp, xs)
        if not close(float(E), o["E"]):
            bad.append(("potential:%s:energy" % c["kind"], "step %d values %s centres %s k %s: energy %r, documented closed form %r" % (t, xs, cimp, float(kimp), o["E"], float(E))))
        if len(F) != len(o["F"]) or not all(close(float(a), b) for a, b in zip(F, o["F"])):
            bad.append(("potential:%s:force" % c["kind"], "step %d values %s centres %s k %s: forces %r, minus the gradient of the closed form %r" % (t, xs, cimp, float(kimp), o["F"], [float(f) for f in F])))
        # ---- schedules: function of the step number alone
        if sched_ok and m != "none":
            ks = spec_k(c, d, t, first)
            if o["K"] is not None and not close(float(ks), o["K"]):
                bad.append(("schedule:k", "step %d (first %d, N %d): force constant %r, schedule prescribes %r" % (t, first, N, o["K"], float(ks))))
            cs = spec_centers(c, d, t, first)
            if cs and not all(same_mod(a, b, v) for a, b, v in zip(cs, o["C"], c["vars"])):
                bad.append(("schedule:centers", "step %d (first %d, N %d): centres %r, schedule prescribes %r" % (t, first, N, o["C"], [float(x) for x in cs])))
            if m in ("cc", "cs", "kc", "ks", "kl") and o["FS"] != first:
                bad.append(("schedule:first_step", "step %d: first_step is %d, the restraint was defined at step %d" % (t, o["FS"], first)))
        # ---- accumulated work (each step counted once: at its first execution)
        if work_ok and m in ("cc", "kc"):
            if t not in seen and t > first and t - first <= N:
                if m == "cc":
                    cu = spec_centers(c, d, t, first, wrap=False)
                    cp = spec_centers(c, d, t - 1, first, wrap=False)
                    Es, Fs, _ = spec_terms(c, d, kimp, cu, xs)
                    W += sum(f * (a - b) for f, a, b in zip(Fs, cu, cp))
                else:
                    _, _, dk = spec_terms(c, d, kimp, cimp, xs)
                    W += dk * (spec_k(c, d, t, first) - spec_k(c, d, t - 1, first))
            if (m == "cc" or t - first <= N or nohyp) and not close(float(W), o["W"]):
                bad.append(("work:%s" % ("centers" if m == "cc" else "k"), "step %d: accumulated work %r, sum of force x increment over the steps so far %r" % (t, o["W"], float(W))))
        # ---- staged TI
        if m in ("ks", "kl"):
            eq = c["equil"]
            g = min(d["nstages"], max(0, (t - first - 1)) // N) if t > first else 0    # stage whose window (first+gN, first+(g+1)N] contains t
            if typ in ("B", "R") and idx > 0:
                dirty_stages.add(g)
                if (t - first) % N == 0:
                    dirty_stages.add(g + 1)
            if t not in seen and t <= first + (d["nstages"] + 1) * N:
                r = (t - first) % N
                counted = (eq == 0) or (r >= eq)
                if counted:
                    lam = spec_lambda_stage(c, d, g)
                    e = c["lexp"]
                    fac = Fr(e) * fpow(lam, e - 1.0) * (fr(d["tk"]) - fr(d["sk"]))
                    s_, n_ = ti_acc.get(g, (Fr(0), 0))
                    ti_acc[g] = (s_ + fac * dUdk, n_ + 1)
            if t not in seen and t > first and (t - first) % N == 0 and t <= first + (d["nstages"] + 1) * N and sched_ok:
                s_, n_ = ti_acc.get(g, (Fr(0), 0))
                claimed = nohyp or (g not in dirty_stages and not any(gg in dirty_stages for gg in range(g)) and not (g == 0 and eq == 0))
                if claimed and n_ > 0:
                    mean = s_ / n_
                    if not o["TI"]:
                        bad.append(("ti:line-missing", "step %d: stage %d ended and no dA/dLambda line was written" % (t, g)))
                    else:
                        got = o["TI"][0][1]
                        if abs(got - float(mean)) > 2e-5 * max(1.0, abs(got), abs(float(mean))):
                            sig = "ti:first-stage-mean" if (g == 0 and eq == 0) else "ti:stage-mean"
                            bad.append((sig, "stage %d (lambda %r) ended at step %d: dA/dLambda written %r, mean of dU/dlambda over the %d sampled steps of the stage %r" % (g, float(spec_lambda_stage(c, d, g)), t, got, n_, float(mean))))
        seen.add(t)
    return bad


# ------------------------------------------------------------------ generators
WIDTHS = [0.25, 0.5, 1.0, 2.0]


def gen_case(r, k, quick=True):
    kind = r.choice(["harmonic", "harmonic", "harmonic", "walls", "walls", "linear"])
    nv = r.choice([1, 1, 2])
    vars_ = []
    for i in range(nv):
        v = {"w": r.choice(WIDTHS), "per": False}
        if kind != "linear" and r.random() < 0.45:
            v["per"] = True
            v["P"] = r.choice([4.0, 8.0])
            v["wc"] = r.choice([0.0, 0.0, 1.0, -2.5, 4.0])
        vars_.append(v)
    c = {"kind": kind, "vars": vars_, "id": k, "it0": r.choice([0, 0, 0, 5, 12]), "accw": False,
         "dec": False, "lexp": 1.0, "equil": 0, "fmt": r.choice(["text", "text", "binary"])}
    if kind == "walls":
        modes = ["none", "none", "kc", "ks", "ks", "kl"]
    else:
        modes = ["none", "cc", "cc", "cs", "cs", "kc", "ks", "ks", "kl"]
    c["mode"] = m = r.choice(modes)
    c["k"] = r.choice([0.5, 1.0, 2.0, 3.0, 1.5])
    if kind == "linear" and r.random() < 0.3:
        c["k"] = -c["k"]
    # centres / walls
    if kind != "walls":
        c["centers"] = [V.dyadic(r, -4, 4, bits=2) for _ in vars_]
        c["target_centers"] = [x + r.choice([-1, 1]) * V.dyadic(r, 0.5, 6, bits=1) for x in c["centers"]]
    else:
        c["hl"], c["hu"] = r.choice([(True, True), (True, True), (True, False), (False, True)])
        if any(v["per"] for v in vars_):
            c["hl"] = c["hu"] = True
        c["lower"] = []
        c["upper"] = []
        for v in vars_:
            lo = V.dyadic(r, -3, 1, bits=2)
            span = V.dyadic(r, 0.5, 3, bits=2)
            if v["per"]:
                span = min(span, v["P"] - 0.5)
            c["lower"].append(lo)
            c["upper"].append(lo + span)
        c["lwk"] = None
        if r.random() < 0.35 and m in ("none", "kc", "ks", "kl"):
            c["lwk"], c["uwk"] = r.choice([(1.0, 4.0), (4.0, 1.0), (2.0, 8.0), (0.5, 2.0), (9.0, 4.0), (3.0, 3.0)])
            c["k"] = None
    # schedules
    c["N"] = r.choice([1, 2, 2, 3, 3, 4, 5, 8])
    c["nstages"] = r.choice([1, 2, 3, 4])
    if m in ("kc", "ks", "kl"):
        c["dec"] = r.random() < 0.3 and not (kind == "walls" and c.get("lwk") is not None)
        c["tk"] = r.choice([0.0, 0.25, 4.0, 6.0, 1.0])
        if kind == "linear" and r.random() < .3:
            c["tk"] = -c["tk"]
        c["lexp"] = r.choice([1.0, 1.0, 2.0, 3.0, 1.5, 4.0])
        if m == "kl":
            n = r.randint(2, 5)
            c["sched"] = sorted([r.choice([0.0, 0.125, 0.25, 0.5, 0.75, 1.0]) for _ in range(n)])
            if r.random() < .5:
                c["sched"] = [0.0] + c["sched"][1:-1] + [1.0]
        if m in ("ks", "kl"):
            c["equil"] = r.choice([0, 0, 1, 1, 2]) if c["N"] >= 2 else 0
            if c["equil"] >= c["N"]:
                c["equil"] = c["N"] - 1
    if m in ("cc", "kc"):
        c["accw"] = r.random() < 0.7
    ns = {"none": 0}.get(m)
    nstg = (len(c["sched"]) - 1) if m == "kl" else c["nstages"]
    if m == "none":
        nsteps = r.randint(3, 8)
    elif m in ("cc", "kc"):
        nsteps = c["N"] + r.randint(1, 4)
    else:
        nsteps = min((nstg + 1) * c["N"] + r.randint(1, 3), 40)
    # events: values near centres/walls, across the period; segmentation aimed at stage boundaries
    seg = r.choice(["none", "none", "B", "R", "BR", "BR"])
    ev = []
    t = c["it0"]
    for s in range(nsteps + 1):
        xs = []
        for i, v in enumerate(vars_):
            mode = r.random()
            if kind == "walls":
                anchor = r.choice([c["lower"][i], c["upper"][i]])
            else:
                anchor = r.choice([c["centers"][i], c["target_centers"][i]])
            if mode < 0.25:
                x = anchor                       # exactly on the wall / the centre
            elif mode < 0.5 and v["per"]:
                x = anchor + r.choice([-1, 1]) * v["P"] / 2 + r.choice([0, 0, 0.25, -0.25])   # at the far side of the circle
            elif mode < 0.8:
                x = anchor + V.dyadic(r, -2, 2, bits=3)
            else:
                x = V.dyadic(r, -9, 9, bits=3)
            if v["per"] and r.random() < 0.3:
                x += r.randint(-2, 2) * v["P"]
            xs.append(x)
        typ = "S"
        ev.append((typ, xs))
        if s > 0:
            t += 1
        # possibly re-execute this step (run boundary or restart), more often at stage boundaries
        if seg != "none" and s > 0 and s < nsteps:
            rel = (t - c["it0"]) % c["N"] if m != "none" else 2
            pr = 0.45 if rel in (0, 1) else 0.12
            if r.random() < pr:
                ev.append((r.choice(list(seg)), xs if r.random() < 0.6 else [x + 0.125 for x in xs]))
    c["events"] = ev
    return c


def witness_cases():
    """replay scenarios of the _refuted theorems of Properties_C06.v (same inputs as the Coq witnesses)"""
    v1 = [{"w": 0.5, "per": False}]
    base = {"kind": "harmonic", "vars": v1, "it0": 0, "accw": False, "dec": False, "lexp": 1.0, "equil": 0,
            "centers": [1.0], "target_centers": [3.0], "k": 2.0, "N": 3, "nstages": 2, "fmt": "text"}
    S = lambda n, x=0.5: [("S", [x])] * n
    W = []
    # staged k, boundary / restart exactly at the end of a stage: the stage advances twice
    c = dict(base, mode="ks", tk=4.0, N=3, nstages=2, equil=1, events=S(4) + [("B", [0.5])] + S(3))
    W.append(("staged-k:run-boundary-at-stage-end-advances-stage-twice", "schedule:k", c, True))
    c = dict(base, mode="ks", tk=4.0, N=3, nstages=2, equil=1, events=S(4) + [("R", [0.5])] + S(3))
    W.append(("staged-k:restart-at-stage-end-advances-stage-twice", "schedule:k", c, True))
    # staged centres
    c = dict(base, mode="cs", N=2, nstages=2, events=S(2) + [("B", [0.5])] + S(4))
    W.append(("staged-centers:run-boundary-at-stage-start-advances-stage-twice", "schedule:centers", c, True))
    c = dict(base, mode="cs", N=1, nstages=2, events=S(5))
    W.append(("staged-centers:targetNumSteps-1-never-moves", "schedule:centers", c, True))
    # work of a changing force constant keeps growing after the schedule has ended
    c = dict(base, mode="kc", tk=3.0, k=1.0, N=2, accw=True, events=S(6))
    W.append(("work-k:accumulates-after-schedule-end", "work:k", c, True))
    # moving centre of a periodic variable: increment taken between unwrapped new and wrapped old centre
    c = dict(base, mode="cc", vars=[{"w": 0.5, "per": True, "P": 4.0, "wc": 0.0}], centers=[1.5], target_centers=[3.5],
             k=1.0, N=4, accw=True, events=S(6))
    W.append(("work-centers:periodic-centre-wrap-adds-period-to-increment", "work:centers", c, True))
    # TI: first stage with no equilibration sums N+1 samples and divides by N
    c = dict(base, mode="ks", tk=4.0, N=3, nstages=2, equil=0, events=S(8))
    W.append(("ti:first-stage-N+1-samples-divided-by-N", "ti:first-stage-mean", c, False))
    # TI: restraint_FE is not saved: a restart inside a stage loses the samples taken before it
    c = dict(base, mode="ks", tk=4.0, N=4, nstages=2, equil=1, events=S(3) + [("R", [0.5])] + S(4))
    W.append(("ti:restart-inside-stage-loses-samples", "ti:stage-mean", c, False))
    # TI: the repeated step at a run boundary is sampled twice
    c = dict(base, mode="ks", tk=4.0, N=4, nstages=2, equil=1, events=S(3, 0.5) + [("B", [0.5])] + S(4))
    W.append(("ti:run-boundary-inside-stage-samples-step-twice", "ti:stage-mean", c, False))
    return W


# ------------------------------------------------------------------ running
class Runner:
    def __init__(self, model, unit):
        self.model, self.unit = model, unit
        self.scratch = V.scratch("C06")

    def wallsinit(self, hl, hu, lk, uk):
        rc, out, e = V.run_lines(self.model, ["WALLSINIT %d %d %s %s" % (hl, hu, hx(lk), hx(uk))])
        return tuple(float.fromhex(t) for t in out[0].split())

    def run(self, cases):
        mlines, ds, scn = [], [], []
        for k, c in enumerate(cases):
            ml, d = model_case(c, self.wallsinit)
            mlines.append(ml)
            ds.append(d)
            scn += scenario(c, k, self.scratch)
        rc, mout, e = V.run_lines(self.model, mlines)
        rc2, iout, e2 = V.run_lines(self.unit, scn, cwd=self.scratch, timeout=900)
        impl = parse_impl(iout)
        return mlines, ds, mout, impl, (rc2, e2)


def compare(c, d, msteps, isteps):
    """tie: model vs implementation, event by event; returns None or a description"""
    if len(msteps) != len(isteps):
        return "model executed %d events, implementation %d" % (len(msteps), len(isteps))
    moving = c["mode"] != "none"
    for idx, (a, b) in enumerate(zip(msteps, isteps)):
        if a["it"] != b["it"]:
            return "event %d: step %d vs %d" % (idx, b["it"], a["it"])
        for key in ("E", "W", "FE", "KI"):
            if key in ("W",) and not moving:
                continue
            if not close(a[key], b[key]):
                return "event %d step %d: %s impl %r model %r" % (idx, a["it"], key, b[key], a[key])
        if b["K"] is not None and not close(a["K"], b["K"]):
            return "event %d step %d: K impl %r model %r" % (idx, a["it"], b["K"], a["K"])
        if len(a["F"]) != len(b["F"]) or not all(close(x, y) for x, y in zip(a["F"], b["F"])):
            return "event %d step %d: F impl %r model %r" % (idx, a["it"], b["F"], a["F"])
        if c["kind"] != "walls" and (len(a["C"]) != len(b["C"]) or not all(close(x, y) for x, y in zip(a["C"], b["C"]))):
            return "event %d step %d: centres impl %r model %r" % (idx, a["it"], b["C"], a["C"])
        if moving and (a["ST"] != b["ST"] or a["FS"] != b["FS"]):
            return "event %d step %d: stage/first_step impl %d/%d model %d/%d" % (idx, a["it"], b["ST"], b["FS"], a["ST"], a["FS"])
        if (a["L"] is None) != (len(b["TI"]) == 0):
            return "event %d step %d: dA/dLambda line impl %r model %r" % (idx, a["it"], b["TI"], a["L"])
        if a["L"] is not None:
            if len(b["TI"]) != 1 or abs(b["TI"][0][1] - a["L"][1]) > 2e-5 * max(1.0, abs(a["L"][1])) or abs(b["TI"][0][0] - a["L"][0]) > 2e-5:
                return "event %d step %d: dA/dLambda line impl %r model %r" % (idx, a["it"], b["TI"], a["L"])
    return None



def cut_ambiguous(c, isteps, msteps):
    """DESIGN 3.2: a harmonic restraint on a periodic variable whose value is (within rounding) exactly half a
    period from the centre has two shortest images; which one the floor picks depends on the last bit of a
    centre that was interpolated or went through a text state.  Such an event, and what follows it in the
    scenario (the accumulated work integrates the force), is counted as boundary-ambiguous and not compared."""
    if c["kind"] != "harmonic" or not any(v["per"] for v in c["vars"]):
        return c, isteps, msteps, False
    for idx, ((typ, xs), o) in enumerate(zip(c["events"], isteps)):
        for i, v in enumerate(c["vars"]):
            if v["per"] and i < len(o["C"]):
                P = fr(v["P"])
                sd = shortest(fr(xs[i]) - fr(o["C"][i]), P)
                if abs(sd) != P / 2 and abs(float(abs(sd) - P / 2)) < 1e-9:    # exact (dyadic) ties are deterministic and stay compared
                    c2 = dict(c, events=c["events"][:idx])
                    return c2, isteps[:idx], msteps[:idx], True
    return c, isteps, msteps, False


def nontrivial(c, d, steps):
    """>= 2 stages completed, or a wall crossed, or a period boundary crossed, or a segmentation event"""
    if c["mode"] in ("cs", "ks", "kl") and steps and max(s["ST"] for s in steps) >= 2:
        return True
    if any(typ != "S" for typ, _ in c["events"][1:]):
        return True
    if c["kind"] == "walls":
        z = [any(f != 0.0 for f in s["F"]) for s in steps]
        return any(z) and not all(z)
    if any(v["per"] for v in c["vars"]):
        return True
    return c["mode"] in ("cc", "kc") and len(steps) > c["N"]


def abmd_part(run, r, runner, n):
    """ABMD ratchet: energy 1/2 k min(0, x - ref)^2 with a reference that only moves forward"""
    cases = []
    for k in range(n):
        dec = r.random() < 0.4
        kk = r.choice([0.5, 1.0, 2.0, 4.0])
        x = V.dyadic(r, -2, 2, bits=3)
        stop = x + (-1 if dec else 1) * V.dyadic(r, 0.5, 4, bits=2)
        xs = []
        for s in range(r.randint(4, 14)):
            x = x + V.dyadic(r, -1, 1.5, bits=3) * (-1 if dec else 1)
            xs.append(x)
        cases.append({"k": kk, "dec": dec, "stop": stop, "xs": xs})
    scn, ml = [], []
    for k, c in enumerate(cases):
        scn += ["echo CASE %d" % k, "natoms 1", "new", "config EOF"] + colvar_block(0, {"w": 1.0, "per": False}) + [
            "abmd {", "  name r", "  colvars v0", "  forceConstant %r" % c["k"], "  stoppingValue %r" % c["stop"],
            "  decreasing %s" % ("on" if c["dec"] else "off"), "}", "EOF", "show atomf 0 cv 0 energy 0 bias 0"]
        for x in c["xs"]:
            scn += ["pos 1 0 0 %s" % hx(x), "step", "rdump"]
        scn.append("echo END %d" % k)
        ml.append("ABMD %s %s %d %d %s" % (hx(c["k"]), hx(c["stop"]), c["dec"], len(c["xs"]), " ".join(hx(x) for x in c["xs"])))
    rc, mout, e = V.run_lines(runner.model, ml)
    rc2, iout, e2 = V.run_lines(runner.unit, scn, cwd=runner.scratch)
    impl = parse_impl(iout)
    for k, c in enumerate(cases):
        cs = impl.get(k)
        run.dist("abmd")
        if cs is None or not cs["complete"] or len(cs["steps"]) != len(c["xs"]):
            run.mismatch("abmd", c, (cs or {}).get("raw", [])[-3:], "complete run")
            continue
        mo = [[float.fromhex(t) for t in part.split()] for part in mout[k].split(" ; ")] if k < len(mout) else []
        ref = None
        sign = -1.0 if c["dec"] else 1.0
        moved = 0
        for i, (x, o) in enumerate(zip(c["xs"], cs["steps"])):
            # oracle: ratchet
            if ref is None:
                ref = x
            diff = (x - ref) * sign
            if diff > 0:
                e_, f_ = 0.0, 0.0
                if (ref - c["stop"]) * sign <= 0:
                    ref = x
                    moved += 1
            else:
                e_, f_ = 0.5 * c["k"] * diff * diff, -sign * c["k"] * diff
            if not (close(o["E"], e_) and close(o["F"][0], f_) and close(o["REF"], ref)):
                run.violation("abmd:ratchet", "ABMD step %d value %r: energy/force/reference %r %r %r, ratchet gives %r %r %r" % (i, x, o["E"], o["F"][0], o["REF"], e_, f_, ref),
                              {"kind": "abmd", "case": c})
            if i < len(mo) and not (close(mo[i][0], o["E"]) and close(mo[i][1], o["F"][0]) and close(mo[i][2], o["REF"])):
                run.mismatch("abmd", {"case": c, "step": i}, [o["E"], o["F"][0], o["REF"]], mo[i])
        run.count("abmd%d" % k, moved >= 2)


def setup():
    V.extract_model("C06", EXTRACT, DRIVER, ["ocaml/fops.ml"])
    V.build_prog("c06unit", PROGS["c06unit"])


def load_corpus():
    out = []
    cp = os.path.join(V.ROOT, "corpus", "C06_cases.txt")
    if os.path.exists(cp):
        for l in open(cp):
            l = l.strip()
            if l and not l.startswith("#"):
                out.append(json.loads(l))
    return out


def check(run):
    r = V.rng("C06")
    quick = run.tier == "quick"
    run.cov["rule"] = ("scenarios: harmonic / harmonicWalls / linear restraints on 1-2 exact scalar variables (distanceZ, periodic or not, "
                       "power-of-two widths and periods), fixed, continuous or staged moving centres, continuous / staged / lambdaSchedule / "
                       "decoupling force constants with lambdaExponent and targetEquilSteps, accumulated work; values on walls and centres, "
                       "half a period away, several periods away; every history is segmented by in-process run boundaries and save/fresh/load "
                       "restarts aimed at the stage boundaries. non-trivial = >=2 stages completed, a wall crossed, a periodic variable, or a "
                       "segmentation event; distinct = distinct scenario")
    run.assumptions += [
        "theorems about potentials and accumulated work are about the R instance of the model; schedule theorems hold for every numeric carrier; the tie runs the float instance on dyadic inputs",
        "values that passed through a text state file (centres, force constant, accumulated work) are compared with relative tolerance 1e-9",
        "non-scalar variable types, histogramRestraint and the colvarbias_ti estimator are outside the model (see NOTES.md)",
    ]
    st = V.standard_start(run, PROP, EXTRACT, DRIVER, PROGS)
    if st is None:
        return
    model, exes = st
    runner = Runner(model, exes["c06unit"])

    # ---- replay of the _refuted witnesses on the implementation
    wit = witness_cases()
    wc = [w[2] for w in wit]
    mlines, ds, mout, impl, _ = runner.run(wc)
    for k, (sig, osig, c, _) in enumerate(wit):
        cs = impl.get(k)
        run.dist("witness")
        if cs is None or not cs["complete"]:
            run.mismatch("witness:" + sig, c, (cs or {}).get("raw", [])[-3:], "complete run")
            continue
        ms = parse_model_line(mout[k]) if k < len(mout) else []
        bad = compare(c, ds[k], ms, cs["steps"])
        if bad:
            run.mismatch("witness:" + sig, {"case": c, "model_case": mlines[k]}, bad, "agreement")
        # the oracle is applied with the side conditions of the partial theorems removed
        hits = [b for b in oracle_nohyp(c, ds[k], cs["steps"]) if b[0] == osig]
        run.count("witness:" + sig, True)
        if hits:
            run.violation(sig, hits[0][1], {"kind": "scenario", "case": c, "scenario": scenario(c, 0, "."), "model_case": mlines[k]})
        else:
            run.notes.append("witness %s is no longer exhibited by the implementation" % sig)

    # ---- generated scenarios (corpus first)
    n = 260 if quick else 6000
    cases = load_corpus() + [gen_case(r, k, quick) for k in range(n)]
    B = 130
    nmis = 0
    for b0 in range(0, len(cases), B):
        chunk = cases[b0:b0 + B]
        mlines, ds, mout, impl, (rc2, e2) = runner.run(chunk)
        for k, c in enumerate(chunk):
            cs = impl.get(k)
            key = json.dumps(c, sort_keys=True)
            run.dist("kind:%s" % c["kind"])
            run.dist("mode:%s" % c["mode"])
            run.dist("events:boundary", sum(1 for t, _ in c["events"] if t == "B"))
            run.dist("events:restart", sum(1 for t, _ in c["events"] if t == "R"))
            if cs is None or not cs["complete"]:
                run.violation("harness:incomplete", "the scenario did not run to completion (rc=%d): %s" % (rc2, ((cs or {}).get("raw", []) or [e2[-200:]])[-1]),
                              {"kind": "scenario", "case": c, "scenario": scenario(c, 0, ".")})
                continue
            if any("err=ok" not in l for l in cs["config"]):
                run.mismatch("config", {"case": c}, [l for l in cs["config"] if "err=ok" not in l][:2], "accepted")
                continue
            run.count(key, nontrivial(c, ds[k], cs["steps"]))
            ms = parse_model_line(mout[k]) if k < len(mout) else []
            if len(ms) != len(cs["steps"]):
                run.mismatch("restraint:%s:%s" % (c["kind"], c["mode"]), {"case": c, "model_case": mlines[k]},
                             "%d events executed" % len(cs["steps"]), "%d events executed" % len(ms))
                continue
            cfull = c
            c, isteps, ms, cut = cut_ambiguous(c, cs["steps"], ms)
            if cut:
                run.dist("boundary-ambiguous (half a period from the centre): scenario cut")
            bad = compare(c, ds[k], ms, isteps)
            if bad:
                nmis += 1
                run.mismatch("restraint:%s:%s" % (c["kind"], c["mode"]), {"case": cfull, "model_case": mlines[k]}, bad, "agreement")
            for sig, text in oracle(c, ds[k], isteps):
                run.violation(sig, text, {"kind": "scenario", "case": c, "scenario": scenario(c, 0, "."), "model_case": mlines[k]})
            if b0 == 0 and k < 2:
                run.sample({"scenario": config_text(c), "events": c["events"][:6], "first_outputs": cs["raw"][:6]})
    abmd_part(run, r, runner, 40 if quick else 800)
    run.cov["correspondence"].update({"scenarios": len(cases), "witness_replays": len(wit)})


def oracle_nohyp(c, d, steps):
    """the oracle with the side conditions of the _partial theorems removed (for witnesses)"""
    _NOHYP[0] = True
    try:
        return oracle(c, d, steps)
    finally:
        _NOHYP[0] = False


def replay(path):
    j = json.load(open(path))
    rp = j["replay"]
    print(json.dumps({k: v for k, v in j.items() if k != "replay"}, indent=1)[:2000])
    if rp.get("kind") == "scenario":
        model = V.extract_model("C06", EXTRACT, DRIVER, ["ocaml/fops.ml"])
        unit = V.build_prog("c06unit", PROGS["c06unit"])
        runner = Runner(model, unit)
        c = rp["case"]
        mlines, ds, mout, impl, _ = runner.run([c])
        print("scenario:\n  " + "\n  ".join(scenario(c, 0, runner.scratch)))
        print("impl :")
        for l in impl.get(0, {}).get("raw", []):
            print("  ", l)
        print("model:")
        for part in (mout[0] if mout else "").split(" ; "):
            print("  ", part)
        if impl.get(0):
            print("tie  :", compare(c, ds[0], parse_model_line(mout[0]), impl[0]["steps"]))
            print("oracle:", oracle_nohyp(c, ds[0], impl[0]["steps"]))
    else:
        print(json.dumps(rp, indent=1)[:3000])
    return 0
