(* C06 model driver: evaluates the extracted RestraintModel at floats on case lines from stdin.
   RUN  <cfg...> <events...>  -> one line, events separated by " ; "
   WALLSINIT hl hu lk uk      -> k lk' uk'
   ABMD k stop decreasing n x1..xn -> "e f ref ; ..." *)
open Model
open X_fops

let rec nat_of_int n = if n <= 0 then O else S (nat_of_int (n - 1))
let hexl l = if l = [] then "-" else String.concat "," (List.map hex l)

let () =
  try
    while true do
      let line = input_line stdin in
      let w = Array.of_list (words line) in
      if Array.length w > 0 then begin
        let p = ref 1 in
        let next () = let s = w.(!p) in Stdlib.incr p; s in
        let nf () = fl (next ()) in
        let ni () = int_of_string (next ()) in
        let nb () = ni () <> 0 in
        let nz () = z_of_int (ni ()) in
        let nflist n = List.init n (fun _ -> nf ()) in
        (match w.(0) with
         | "RUN" | "RUNF" ->
           (* RUNF f <as RUN>: the run protocol with timeStepFactor f (coq/C06/RestraintTSF.v); prints the state after EVERY event *)
           let tsf = if w.(0) = "RUNF" then ni () else 1 in
           let kind = (match next () with "harmonic" -> Harmonic | "walls" -> Walls | _ -> Linear) in
           let nv = ni () in
           let vars = List.init nv (fun _ ->
               let wd = nf () in let per = nb () in let pp = nf () in let wc = nf () in
               { v_width = wd; v_periodic = per; v_period = pp; v_wrap_center = wc }) in
           let c0 = nflist nv in
           let chgc = nb () in let tc = nflist nv in
           let k0 = nf () in let chgk = nb () in let dec = nb () in
           let sk = nf () in let tk = nf () in let lexp = nf () in
           let ns = ni () in let sched = nflist ns in
           let nsteps = nz () in let nstages = nz () in let equil = nz () in
           let accw = nb () in let hl = nb () in let hu = nb () in
           let lower = nflist nv in let upper = nflist nv in
           let lk = nf () in let uk = nf () in
           let it0 = nz () in
           let c = { c_kind = kind; c_vars = vars; c_centers0 = c0; c_chg_centers = chgc; c_target_centers = tc;
                     c_k0 = k0; c_chg_k = chgk; c_decoupling = dec; c_start_k = sk; c_target_k = tk;
                     c_lambda_exp = lexp; c_lambda_sched = sched; c_nsteps = nsteps; c_nstages = nstages;
                     c_equil = equil; c_acc_work = accw; c_has_lower = hl; c_has_upper = hu;
                     c_lower = lower; c_upper = upper; c_lower_k = lk; c_upper_k = uk; c_it0 = it0 } in
           let nev = ni () in
           let evs = List.init nev (fun _ ->
               let t = next () in let xs = nflist nv in
               match t with "S" -> EStep xs | "B" -> EBoundary xs | _ -> ERestart xs) in
           if w.(0) = "RUNF" then begin
             let m = ref (init_m fops c) in
             let outs = List.map (fun e ->
                 m := mstep_tsf fops (z_of_int tsf) c !m e;
                 let s = (!m).m_st in
                 Printf.sprintf "it=%d C=%s K=%s ST=%d FS=%d W=%s FE=%s"
                   (int_of_z (!m).m_it) (hexl s.s_centers) (hex s.s_k) (int_of_z s.s_stage) (int_of_z s.s_first) (hex s.s_W) (hex s.s_FE)) evs in
             Printf.printf "%s\n" (String.concat " ; " outs)
           end else
           let m = run fops c evs in
           let outs = List.map (fun ((it, s), o) ->
               Printf.sprintf "it=%d E=%s F=%s C=%s K=%s ST=%d FS=%d W=%s FE=%s KI=%s L=%s"
                 (int_of_z it) (hex o.o_energy) (hexl o.o_forces) (hexl s.s_centers) (hex s.s_k)
                 (int_of_z s.s_stage) (int_of_z s.s_first) (hex s.s_W) (hex s.s_FE) (hex s.s_kincr)
                 (match o.o_log with None -> "-" | Some (l, d) -> hex l ^ ":" ^ hex d)) m.m_outs in
           Printf.printf "%s\n" (String.concat " ; " outs)
         | "WALLSINIT" ->
           let hl = nb () in let hu = nb () in let lk = nf () in let uk = nf () in
           let ((k, a), b) = walls_init fops hl hu lk uk in
           Printf.printf "%s %s %s\n" (hex k) (hex a) (hex b)
         | "ABMD" ->
           let k = nf () in let stop = nf () in let dec = nb () in let n = ni () in
           let xs = nflist n in
           let r = abmd_run fops k stop dec { ab_init = false; ab_ref = 0.0 } xs in
           Printf.printf "%s\n" (String.concat " ; " (List.map (fun ((e, f), rf) -> hex e ^ " " ^ hex f ^ " " ^ hex rf) r))
         | "HIST" ->
           (* HIST k sigma lower width nref ref.. nx x.. -> "E ; f1,f2,.. ; p1,p2,.." *)
           let k = nf () in let sigma = nf () in let lower = nf () in let width = nf () in
           let nr = ni () in let refp = nflist nr in
           let nx = ni () in let xs = nflist nx in
           let pi = 4.0 *. atan 1.0 in
           let e = hist_energy fops k pi sigma lower width refp xs in
           let f = hist_forces fops k pi sigma lower width refp xs in
           let p = hist_p fops pi sigma lower width (nat_of_int nr) xs in
           Printf.printf "%s ; %s ; %s\n" (hex e) (hexl f) (hexl p)
         | "MAN" ->
           (* MAN kind(v3|uv|q) k w lambda c0.. c1.. x.. -> "energy ; interpolated centre" ; the energy is taken at the
              interpolated centre; quaternion centres are not interpolated by the model (lambda must be 0: centre c0) *)
           let kind = next () in
           let k = nf () in let w = nf () in let lam = nf () in
           let pi = 4.0 *. atan 1.0 in
           (match kind with
            | "q" ->
              let q () = let a = nf () in let b = nf () in let c = nf () in let d = nf () in (((a, b), c), d) in
              let c0 = q () in let _ = q () in let x = q () in
              Printf.printf "%s ; -\n" (hex (harm_potential_d2 fops k w (q_dist2 fops pi x c0)))
            | _ ->
              let v () = let a = nf () in let b = nf () in let c = nf () in ((a, b), c) in
              let c0 = v () in let c1 = v () in let x = v () in
              let ((cx, cy), cz) = if kind = "uv" then uv_interp fops c0 c1 lam else v3_interp fops c0 c1 lam in
              let d2 = if kind = "uv" then uv_dist2 fops x ((cx, cy), cz) else v3_dist2 fops x ((cx, cy), cz) in
              Printf.printf "%s ; %s\n" (hex (harm_potential_d2 fops k w d2)) (hexl [cx; cy; cz]))
         | "GRUN" ->
           (* GRUN nv {kind w c0 c1}  k chg N nstages accw it0 nev {S|B|R values}  with kind = s | p P c | v3 | uv | q | vl n ;
              one value = 1 / 3 / 4 / n floats.  Output per event: it E C F ST FS W *)
           let pi = 4.0 *. atan 1.0 in
           let nv = ni () in
           let rd kind = (match kind with
               | `S -> VS (nf ())
               | `V3 -> let a = nf () in let b = nf () in let c = nf () in V3 ((a, b), c)
               | `Q -> let a = nf () in let b = nf () in let c = nf () in let d = nf () in VQ (((a, b), c), d)
               | `L n -> VL (nflist n)) in
           let kinds = ref [] and shapes = ref [] and ws = ref [] and c0s = ref [] and c1s = ref [] in
           for _ = 1 to nv do
             let kd = next () in
             let (k, sh) = (match kd with
                 | "s" -> (KScalar, `S)
                 | "p" -> let pp = nf () in let c = nf () in (KPeriodic (pp, c), `S)
                 | "v3" -> (KVec3 (false, None), `V3)
                 | "uv" -> (KUnit, `V3)
                 | "q" -> (KQuat, `Q)
                 | _ -> let n = ni () in (KVector, `L n)) in
             let w = nf () in
             let constrain v = (match k, v with
                 | KUnit, V3 x -> V3 (uv_constrain fops x)
                 | KQuat, VQ x -> VQ (q_constrain fops x)
                 | _, _ -> v) in
             let c0 = constrain (rd sh) in let c1 = constrain (rd sh) in
             kinds := !kinds @ [k]; shapes := !shapes @ [sh]; ws := !ws @ [w]; c0s := !c0s @ [c0]; c1s := !c1s @ [c1]
           done;
           let k = nf () in let chg = nb () in let nsteps = nz () in let nstages = nz () in let accw = nb () in let it0 = nz () in
           let c = { g_kinds = !kinds; g_widths = !ws; g_c0 = !c0s; g_c1 = !c1s; g_k = k; g_chg = chg;
                     g_nsteps = nsteps; g_nstages = nstages; g_acc_work = accw; g_it0 = it0 } in
           let nev = ni () in
           let evs = List.init nev (fun _ ->
               let t = next () in let xs = List.map rd !shapes in
               match t with "S" -> GStep xs | "B" -> GBoundary xs | _ -> GRestart xs) in
           let m = grun fops pi c evs in
           let cvs v = (match v with
               | VS x -> hex x
               | V3 ((a, b), c) -> String.concat "/" [hex a; hex b; hex c]
               | VQ (((a, b), c), d) -> String.concat "/" [hex a; hex b; hex c; hex d]
               | VL l -> String.concat "/" (List.map hex l)) in
           let cvl l = if l = [] then "-" else String.concat "," (List.map cvs l) in
           let outs = List.map (fun ((it, s), (e, f)) ->
               Printf.sprintf "it=%d E=%s C=%s F=%s ST=%d FS=%d W=%s"
                 (int_of_z it) (hex e) (cvl s.gs_centers) (cvl f) (int_of_z s.gs_stage) (int_of_z s.gs_first) (hex s.gs_W)) m.gm_outs in
           Printf.printf "%s\n" (String.concat " ; " outs)
         | "TIRUN" ->
           (* TIRUN same lower width nb it0 nev {S|B|R x tf fb} -> per event "c0:s0 c1:s1 .." separated by " ; " *)
           let same = nb () in let lower = nf () in let width = nf () in let nbins = ni () in let it0 = nz () in
           let c = { ti_lower = lower; ti_width = width; ti_nb = z_of_int nbins; ti_same = same } in
           let nev = ni () in
           let m = ref (ti_init_m fops it0) in
           let outs = ref [] in
           for _ = 1 to nev do
             let t = next () in let x = nf () in let tf = nf () in let fb = nf () in
             let i = { in_x = x; in_tf = tf; in_fb = fb } in
             m := ti_mstep fops c !m (match t with "S" -> TStep i | "B" -> TBoundary i | _ -> TRestart i);
             let s = (!m).tm_st in
             outs := !outs @ [String.concat " " (List.init nbins (fun b ->
                 Printf.sprintf "%d:%s" (int_of_z (s.ts_cnt (z_of_int b))) (hex (s.ts_sum (z_of_int b)))))]
           done;
           Printf.printf "%s\n" (String.concat " ; " !outs)
         | "EDIFF" ->
           (* EDIFF kind nv {w per P wc} centres.. k x.. hasK k' hasC c'.. -> energy difference of a restraint with fixed parameters *)
           let kind = (match next () with "harmonic" -> Harmonic | "walls" -> Walls | _ -> Linear) in
           let nv = ni () in
           let vars = List.init nv (fun _ ->
               let wd = nf () in let per = nb () in let pp = nf () in let wc = nf () in
               { v_width = wd; v_periodic = per; v_period = pp; v_wrap_center = wc }) in
           let cen = nflist nv in let k = nf () in let xs = nflist nv in
           let k' = if nb () then Some (nf ()) else None in
           let c' = if nb () then Some (nflist nv) else None in
           let z0 = z_of_int 0 in
           let c = { c_kind = kind; c_vars = vars; c_centers0 = cen; c_chg_centers = false; c_target_centers = cen;
                     c_k0 = k; c_chg_k = false; c_decoupling = false; c_start_k = k; c_target_k = k;
                     c_lambda_exp = 1.0; c_lambda_sched = []; c_nsteps = z0; c_nstages = z0;
                     c_equil = z0; c_acc_work = false; c_has_lower = false; c_has_upper = false;
                     c_lower = cen; c_upper = cen; c_lower_k = 1.0; c_upper_k = 1.0; c_it0 = z0 } in
           let s = { s_centers = cen; s_incr = cen; s_k = k; s_kincr = 0.0; s_stage = z0; s_first = z0; s_W = 0.0; s_FE = 0.0 } in
           Printf.printf "%s\n" (hex (rediff fops c s xs k' c'))
         | _ -> Printf.printf "?\n")
      end
    done
  with End_of_file -> ()
