// C06 harness: the engine simulator plus a command `rdump` that prints, in hex floats, the internal
// parameters and accumulators of every restraint-type bias (centres, force constant, stage,
// first_step, acc_work, restraint_FE, per-variable forces and values, energy, ABMD reference) and the
// "dA/dLambda" log lines emitted since the previous dump.  Reads scenarios from stdin/argv[1].
#include <cstdio>
#include <cstdlib>
#include <cstring>
#include <cmath>
#include <iostream>
#include <fstream>
#include <sstream>
#include <string>
#include <vector>
#include <map>
#include <algorithm>
#include <functional>
#include <thread>
#include <mutex>
#include <list>
#include <set>
#include <memory>
#include <iomanip>
#include <unordered_map>
#define private public
#define protected public
#include "vsim.h"
#include "colvarbias_restraint.h"
#include "colvarbias_abmd.h"
#include "colvargrid.h"

struct c06_session : public vsim_session {
  std::ostringstream cap;
  c06_session(std::ostream *o) : vsim_session(o) {}

  static std::string hexlist(std::vector<colvarvalue> const &v)
  {
    std::string s;
    for (size_t i = 0; i < v.size(); i++) {
      if (i) s += ",";
      std::string e = vs_hex(v[i]);           // components of a non-scalar value are joined by '/'
      std::replace(e.begin(), e.end(), ' ', '/');
      s += e;
    }
    return s.size() ? s : "-";
  }

  void attach() { if (proxy) proxy->logos = &cap; }

  bool exec_extra(std::string const &cmd, std::vector<std::string> const &a, std::istream &) override
  {
    std::ostream &o = *out;
    if (cmd == "capture") { attach(); return true; }
    if (cmd == "ediff") {
      // colvarmodule::energy_difference(bias, conf): the rest of the line after the bias name is the alternative configuration
      std::string conf;
      for (size_t i = 1; i < a.size(); i++) { if (a[i] == "|") { conf += "\n"; continue; } conf += a[i]; conf += " "; }
      conf += "\n";
      cvm::clear_error();
      cvm::real const de = proxy->colvars->energy_difference(a[0], conf);
      o << "EDIFF " << a[0] << " de=" << vs_hex(de) << " err=" << vs_errclass(cvm::get_error()) << "\n";
      cvm::clear_error();
      return true;
    }
    if (cmd == "tidump") {
      // TI estimator attached to a bias (colvarbias_ti): per bin the number of samples and the SUM of the collected forces
      for (colvarbias *b : proxy->colvars->biases) {
        colvarbias_ti *ti = dynamic_cast<colvarbias_ti *>(b);
        if (!ti || !ti->ti_avg_forces) continue;
        o << "TID " << b->name << " it=" << cvm::step_absolute()
          << " X=" << vs_hex(b->variables(0)->value()) << " TF=" << vs_hex(b->variables(0)->total_force())
          << " FB=" << vs_hex(b->colvar_forces[0]) << " G=";
        std::vector<int> ix = ti->ti_count->new_index();
        for ( ; ti->ti_count->index_ok(ix); ti->ti_count->incr(ix)) {
          o << ti->ti_count->value(ix) << ":" << vs_hex(ti->ti_avg_forces->value(ix)) << ",";
        }
        o << "\n";
      }
      return true;
    }
    if (cmd == "rdump") {
      // log lines since the last dump
      std::string txt = cap.str(); cap.str(""); cap.clear();
      std::istringstream ls(txt);
      std::string l;
      while (std::getline(ls, l)) {
        size_t p = l.find("dA/dLambda=");
        size_t q = l.find("Lambda=");
        if (p != std::string::npos && q != std::string::npos) {
          o << "TI " << l.substr(q) << "\n";
        }
      }
      for (colvarbias *b : proxy->colvars->biases) {
        o << "RD " << b->name << " it=" << cvm::step_absolute() << " E=" << vs_hex(b->get_energy());
        o << " F=" << hexlist(b->colvar_forces);
        {
          std::vector<colvarvalue> xv;
          for (size_t i = 0; i < b->num_variables(); i++) xv.push_back(b->variables(i)->value());
          o << " X=" << hexlist(xv);
          std::vector<colvarvalue> av;      // values of the collective variable proper (differ from X for extended-Lagrangian variables)
          for (size_t i = 0; i < b->num_variables(); i++) av.push_back(b->variables(i)->actual_value());
          o << " AX=" << hexlist(av);
        }
        if (colvarbias_restraint_centers *c = dynamic_cast<colvarbias_restraint_centers *>(b)) o << " C=" << hexlist(c->colvar_centers);
        if (colvarbias_restraint_k *k = dynamic_cast<colvarbias_restraint_k *>(b)) o << " K=" << vs_hex(k->force_k);
        if (colvarbias_restraint_moving *m = dynamic_cast<colvarbias_restraint_moving *>(b))
          o << " ST=" << m->stage << " FS=" << m->first_step << " W=" << vs_hex(m->acc_work);
        if (colvarbias_restraint_k_moving *km = dynamic_cast<colvarbias_restraint_k_moving *>(b))
          o << " FE=" << vs_hex(km->restraint_FE) << " KI=" << vs_hex(km->force_k_incr);
        if (colvarbias_abmd *ab = dynamic_cast<colvarbias_abmd *>(b)) o << " REF=" << vs_hex(ab->ref_val);
        o << "\n";
      }
      return true;
    }
    return false;
  }
};

int main(int argc, char **argv)
{
  c06_session s(&std::cout);
  if (argc > 1 && std::string(argv[1]) != "-") {
    std::ifstream f(argv[1]);
    if (!f) { std::cerr << "cannot open " << argv[1] << "\n"; return 2; }
    s.run(f);
  } else {
    s.run(std::cin);
  }
  std::cout.flush();
  return 0;
}
