# C13: define-then-delete is the identity; feature dependencies stay consistent.
import os, sys, json, re
import vcommon as V
import depsutil as D

PROP = "coq/C13/Properties_C13.v"
EXTRACT = "coq/C13/Extract_C13.v"
DRIVER = "props/C13/driver.ml"
UNIT_SRC = ["props/C13/unit.cpp"]
FUEL = 160        # GenDeps_enable_terminates: 4 levels * 39 + 38 < 160
NATOMS = 12

SEED_CONF = """colvar {
  name seedx
  distance {
    group1 { atomNumbers 1 }
    group2 { atomNumbers 2 }
  }
}
harmonic {
  name seedh
  colvars seedx
  centers 1.0
  forceConstant 1.0
}
"""


# ------------------------------------------------------------------ tables from the binary
def dump_tables(unit, samestep):
    d = V.scratch("C13t")
    scn = "natoms 4\nsamestep %d\nnew\nconfig EOF\n%sEOF\ndumptables\n" % (samestep, SEED_CONF)
    open(os.path.join(d, "t.scn"), "w").write(scn)
    rc, o, e = V.sh([unit, "t.scn"], cwd=d, timeout=120)
    if "ENDTABLES samestep=%d" % samestep not in o:
        raise V.InfraError("table dump failed (rc=%d): %s %s" % (rc, o[-500:], e[-500:]))
    return D.parse_tables(o.split("\n"))


def regen_tables(unit):
    ts, tl = dump_tables(unit, 1), dump_tables(unit, 0)
    txt = D.gen_v(ts, tl)
    p = os.path.join(V.COQ, "Gen", "GenDeps.v")
    os.makedirs(os.path.dirname(p), exist_ok=True)
    old = open(p).read() if os.path.exists(p) else None
    if old != txt:
        open(p, "w").write(txt)
    return ts, tl


def presetup():
    """before the Coq build: coq/Gen/GenDeps.v from the tables of the freshly built binary"""
    unit = V.build_prog("c13unit", UNIT_SRC)
    regen_tables(unit)
    V.coq_project()


def setup():
    presetup()
    V.extract_model("C13", EXTRACT, DRIVER, [])
    V.build_prog("c13unit", UNIT_SRC, variant="asan")      # the name-reference family runs under the sanitizers in the quick tier too


# ------------------------------------------------------------------ scenario generator
CV_KINDS = ["distanceZ", "distance", "dihedral", "distanceVec", "gyration", "angle", "combo", "fitdist", "rmsd", "lincomb"]


def gen_colvar(r, name, ext_ok=True, partners=()):
    kind = r.choice(CV_KINDS)
    a = lambda: r.randint(1, NATOMS)
    L = ["colvar {", "  name " + name]
    scalar = kind != "distanceVec"
    opts = {}
    if scalar and r.random() < 0.6:
        L += ["  lowerBoundary -4.0", "  upperBoundary 4.0", "  width 0.5"]
        opts["grid"] = True
    if r.random() < 0.25:
        L.append("  outputTotalForce on")
    if r.random() < 0.2:
        L.append("  outputVelocity on")
    if r.random() < 0.2:
        L.append("  outputAppliedForce on")
    if scalar and r.random() < 0.3 and ext_ok:
        L += ["  extendedLagrangian on", "  extendedFluctuation 0.5", "  extendedTimeConstant 200.0"]
        opts["ext"] = True
        if r.random() < 0.5:
            # without Langevin_dynamics (a user feature that requires extended_Lagrangian) nothing references extended_Lagrangian
            # until a bias takes the total force through it
            L += ["  extendedLangevinDamping 0.0"]
        if opts.get("grid") and r.random() < 0.3:
            L += ["  reflectingLowerBoundary on"]                                  # requires lower_boundary and extended_Lagrangian
    if opts.get("grid") and r.random() < 0.2:
        L.append("  hardUpperBoundary on")                                        # user feature requiring the user feature upper_boundary
    if r.random() < 0.15:
        L.append("  timeStepFactor 2")
    if scalar and r.random() < 0.15:
        L.append("  subtractAppliedForce on")
    if scalar and partners and r.random() < 0.2:
        # a reference to ANOTHER variable by name, resolved at every step (colvar::calc_acf); the partner keeps no back-reference
        opts["corr"] = r.choice(list(partners))
        L += ["  corrFunc on", "  corrFuncWithColvar " + opts["corr"], "  corrFuncType " + r.choice(["coordinate", "velocity"]), "  corrFuncLength 4"]
    def comp(k):
        if k == "distanceZ":
            return ["  distanceZ {", "    main { atomNumbers %d }" % a(), "    ref { dummyAtom (0,0,0) }", "    axis (0,0,1)", "  }"]
        if k == "distance":
            return ["  distance {", "    group1 { atomNumbers %d %d }" % (a(), a()), "    group2 { atomNumbers %d }" % a()] + (["    oneSiteTotalForce on"] if r.random() < 0.2 else []) + ["  }"]
        if k == "dihedral":
            ids = r.sample(range(1, NATOMS + 1), 4)
            return ["  dihedral {"] + ["    group%d { atomNumbers %d }" % (i + 1, ids[i]) for i in range(4)] + ["  }"]
        if k == "angle":
            ids = r.sample(range(1, NATOMS + 1), 3)
            return ["  angle {"] + ["    group%d { atomNumbers %d }" % (i + 1, ids[i]) for i in range(3)] + ["  }"]
        if k == "distanceVec":
            return ["  distanceVec {", "    group1 { atomNumbers %d }" % a(), "    group2 { atomNumbers %d %d }" % (a(), a()), "  }"]
        if k == "gyration":
            ids = r.sample(range(1, NATOMS + 1), 3)
            return ["  gyration {", "    atoms { atomNumbers %d %d %d }" % tuple(ids), "  }"]
    if kind == "fitdist":
        # an atom group with a separate fitting group (atoms held by the group AND by its fitting group, shared with other
        # variables): centerToReference moves the frame, the fitting group's atoms are requested from the engine too
        ids = r.sample(range(1, NATOMS + 1), 3)
        L += ["  distance {", "    group1 {", "      atomNumbers %d %d" % (a(), a()), "      centerToReference on",
              "      fittingGroup {", "        atomNumbers %d %d %d" % tuple(ids), "      }",
              "      refPositions (0.0, 0.0, 0.0) (1.0, 0.0, 0.0) (0.0, 1.0, 0.5)", "    }",
              "    group2 { atomNumbers %d }" % a(), "  }"]
    elif kind == "lincomb":
        # a component made of components: the atom groups of the nested components are registered a second time in the outer one
        # (two dependency parents per group; the nested components are reachable only as parents of their groups)
        L += ["  linearCombination {", "    name lc"] + ["  " + x for x in comp("distanceZ")] + ["  " + x for x in comp("distance")] + ["  }"]
    elif kind == "rmsd":
        ids = r.sample(range(1, NATOMS + 1), 3)
        L += ["  rmsd {", "    atoms { atomNumbers %d %d %d }" % tuple(ids),
              "    refPositions (0.0, 0.0, 0.0) (1.0, 0.0, 0.0) (0.0, 1.0, 0.5)", "  }"]
    elif kind == "combo":
        L += comp("distanceZ") + comp("distance")
    else:
        L += comp(kind)
    L.append("}")
    return {"name": name, "kind": kind, "scalar": scalar, "opts": opts, "conf": "\n".join(L) + "\n"}


BIAS_KINDS = ["harmonic", "harmonicWalls", "linear", "histogram", "abf", "metadynamics"]


def gen_bias(r, name, cvs, counters=None, like=None):
    """cvs: list of live colvar dicts; returns None when no suitable variable exists.
    counters: per-kind number of biases defined so far (colvarmodule::num_biases_types_used_: only grows, cleared by reset);
    an UNNAMED bias gets the default name <kind in lower case><rank>"""
    # like: a live bias; the new one is a SECOND HOLDER of whatever that kind requests of its variables by a top-level,
    # uncounted enable (abf: grid, hide_Jacobian_force; histogram, metadynamics: grid) -- same kind, same variables
    kind = like["kind"] if like else r.choice(BIAS_KINDS)
    if like:
        cand = [c for c in cvs if c["name"] in like["cvs"]]
        if len(cand) != len(set(like["cvs"])):
            return None
    elif kind in ("abf", "metadynamics", "histogram", "harmonicWalls", "linear"):
        cand = [c for c in cvs if c["scalar"] and (c["opts"].get("grid") or kind in ("harmonicWalls", "linear"))]
    else:
        cand = list(cvs)
    if not cand:
        return None
    n = 1 if (kind == "abf" or r.random() < 0.7) else min(2, len(cand))
    sel = r.sample(cand, n)
    if like:
        sel, n = cand, len(cand)
    unnamed = False
    if counters is not None:
        counters[kind] = counters.get(kind, 0) + 1
        if r.random() < 0.4:
            unnamed = True
            name = kind.lower() + str(counters[kind])
    if kind == "harmonic" and n == 1 and r.random() < 0.15:
        sel = sel + sel          # `colvars x x`: the same variable twice (children/parents with multiplicity 2)
        n = 2
    names = [c["name"] for c in sel]
    L = [kind + " {"] + ([] if unnamed else ["  name " + name]) + ["  colvars " + " ".join(names)]
    if kind == "harmonic":
        cs = []
        for c in sel:
            cs.append("(1.0, 0.5, 0.25)" if not c["scalar"] else "0.5")
        L += ["  centers " + " ".join(cs), "  forceConstant 2.0"]
        if r.random() < 0.3:
            L.append("  outputAccumulatedWork on")
        if r.random() < 0.2 and all(c["scalar"] for c in sel):
            L += ["  writeTIPMF on"] if all(c["opts"].get("grid") for c in sel) and n == 1 else []
        if r.random() < 0.25 and all(c["scalar"] and c["opts"].get("grid") for c in sel) and len(set(c["name"] for c in sel)) == len(sel):
            L += ["  writeTISamples on"]      # obtains the total force of its variables (extended Lagrangian, if on, is the alternative taken)
    elif kind == "harmonicWalls":
        L += ["  lowerWalls " + " ".join(["-1.0"] * n), "  upperWalls " + " ".join(["1.0"] * n), "  forceConstant 2.0"]
    elif kind == "linear":
        L += ["  centers " + " ".join(["0.0"] * n), "  forceConstant 1.0"]
    elif kind == "abf":
        L += ["  fullSamples 2"]
        if r.random() < 0.5 or (like and "hideJacobian on" in like["conf"]):
            L += ["  hideJacobian on"]      # top-level enable of the user feature hide_Jacobian_force in the variable, not counted
    elif kind == "metadynamics":
        L += ["  hillWeight 0.25", "  newHillFrequency 2", "  hillWidth 1.0"]
    if r.random() < 0.15:
        L.append("  timeStepFactor 2")
    if kind in ("histogram",) and r.random() < 0.3:
        L.append("  stepZeroData on")
    L.append("}")
    return {"name": name, "kind": kind, "cvs": names, "conf": "\n".join(L) + "\n", "unnamed": unnamed,
            "rank": counters[kind] if counters is not None else None}


def gen_sequence(r, k, length, with_set=True):
    """A random history over {add variable, add bias, delete bias, delete variable, reset, step, script set}.
    Returns list of events; each event is a dict with 'op' and what it concerns."""
    ev = []
    cvs, biases = [], []
    counters = {}
    ncv = nb = 0
    samestep = 1 if r.random() < 0.8 else 0
    for i in range(length):
        x = r.random()
        if not cvs or x < 0.22:
            c = gen_colvar(r, "v%d" % ncv, ext_ok=with_set, partners=[x["name"] for x in cvs if x["scalar"]]); ncv += 1
            cvs.append(c)
            ev.append({"op": "addcv", "cv": c})
        elif x < 0.45:
            holders = [bb for bb in biases if bb["kind"] in ("abf", "histogram", "metadynamics")]
            b = gen_bias(r, "b%d" % nb, cvs, counters, like=(r.choice(holders) if holders and r.random() < 0.35 else None))
            if b is None:
                continue
            nb += 1
            biases.append(b)
            ev.append({"op": "addbias", "bias": b})
        elif x < 0.58 and biases:
            b = biases.pop(r.randrange(len(biases)))
            ev.append({"op": "delbias", "name": b["name"]})
        elif x < 0.66 and cvs:
            c = cvs.pop(r.randrange(len(cvs)))
            gone = [b for b in biases if c["name"] in b["cvs"]]
            biases = [b for b in biases if c["name"] not in b["cvs"]]
            ev.append({"op": "delcv", "name": c["name"], "also": [b["name"] for b in gone]})
        elif x < 0.68:
            cvs, biases = [], []
            counters.clear()
            ev.append({"op": "reset"})
        elif x < 0.71:
            # the state is written (text or binary) and read back in the same session: everything is found again by NAME
            ev.append({"op": "saveload", "fmt": r.choice(["text", "binary"]), "file": "st%d" % i})
        elif x < 0.86:
            pos = [(a, V.dyadic(r, -3, 3, 4), V.dyadic(r, -3, 3, 4), V.dyadic(r, -3, 3, 4)) for a in range(1, NATOMS + 1)]
            ev.append({"op": "step", "pos": pos})
        elif not with_set:
            continue
        else:
            # script "set" of a feature of a variable or a bias
            if biases and r.random() < 0.4:
                b = r.choice(biases)
                fid = r.choice([0, 0, 2, 3, 4, 6, 12, 13, 16, r.randint(0, 16)])
                ev.append({"op": "set", "kind": "bias", "name": b["name"], "fid": fid, "val": r.randint(0, 1)})
            else:
                c = r.choice(cvs)
                fid = r.choice([0, 3, 4, 5, 6, 7, 8, 10, 11, 12, 17, 18, 19, 20, 27, r.randint(0, 37)])
                ev.append({"op": "set", "kind": "colvar", "name": c["name"], "fid": fid, "val": r.randint(0, 1)})
    # identity stream: no extended-Lagrangian variables and engine total forces that do not contain the Colvars
    # forces, so that a deleted bias cannot legitimately have changed the state of a survivor while it existed
    return {"id": k, "samestep": samestep, "events": ev, "includecv": 1 if with_set else 0}


# ------------------------------------------------------------------ references by name (corrFuncWithColvar)
def simple_cv(r, name, corr=None, ctype="coordinate"):
    kind = r.choice(["distanceZ", "distance", "angle", "dihedral"])
    ids = r.sample(range(1, NATOMS + 1), 4)
    L = ["colvar {", "  name " + name]
    opts = {}
    if r.random() < 0.5:
        L += ["  lowerBoundary -4.0", "  upperBoundary 4.0", "  width 0.5"]
        opts["grid"] = True
    if corr is not None:
        opts["corr"] = corr
        L += ["  corrFunc on", "  corrFuncWithColvar " + corr, "  corrFuncType " + ctype, "  corrFuncLength 3"]
    if kind == "distanceZ":
        L += ["  distanceZ {", "    main { atomNumbers %d }" % ids[0], "    ref { dummyAtom (0,0,0) }", "    axis (0,0,1)", "  }"]
    elif kind == "distance":
        L += ["  distance {", "    group1 { atomNumbers %d %d }" % (ids[0], ids[1]), "    group2 { atomNumbers %d }" % ids[2], "  }"]
    else:
        n = 3 if kind == "angle" else 4
        L += ["  %s {" % kind] + ["    group%d { atomNumbers %d }" % (i + 1, ids[i]) for i in range(n)] + ["  }"]
    L.append("}")
    return {"name": name, "kind": kind, "scalar": True, "opts": opts, "conf": "\n".join(L) + "\n"}


def gen_nameref_sequence(r, k, dangling_steps=True):
    """A variable (the holder) that refers to ANOTHER variable by NAME (corrFuncWithColvar; the only reference by name that
    colvars resolves while running: colvar::calc_acf): partner and holder defined, steps, the partner deleted (steps with the
    dangling reference: each must report that the variable is not defined), the partner defined AGAIN under the same name
    (another object), steps; sometimes a second holder, a bias on the partner, the holder deleted at the end"""
    ev = []
    def steps(n):
        for _ in range(n):
            ev.append({"op": "step", "pos": [(a, V.dyadic(r, -3, 3, 4), V.dyadic(r, -3, 3, 4), V.dyadic(r, -3, 3, 4)) for a in range(1, NATOMS + 1)]})
    ctype = r.choice(["coordinate", "velocity", "coordinate_p2"]) if False else r.choice(["coordinate", "velocity"])
    ev.append({"op": "addcv", "cv": simple_cv(r, "v0")})
    if r.random() < 0.5:
        ev.append({"op": "addcv", "cv": simple_cv(r, "v2")})
    ev.append({"op": "addcv", "cv": simple_cv(r, "v1", corr="v0", ctype=ctype)})
    second = r.random() < 0.4
    if second:
        ev.append({"op": "addcv", "cv": simple_cv(r, "v3", corr="v0", ctype=r.choice(["coordinate", "velocity"]))})
    biases = []
    if r.random() < 0.5:
        b = {"name": "b0", "kind": "harmonic", "cvs": ["v0"], "conf": "harmonic {\n  name b0\n  colvars v0\n  centers 0.5\n  forceConstant 2.0\n}\n"}
        ev.append({"op": "addbias", "bias": b}); biases.append("b0")
    steps(r.randint(1, 5))
    for rep in range(r.randint(1, 2)):
        ev.append({"op": "delcv", "name": "v0", "also": list(biases)}); biases = []
        if dangling_steps and r.random() < 0.7:
            steps(r.randint(1, 2))
        ev.append({"op": "addcv", "cv": simple_cv(r, "v0")})
        steps(r.randint(1, 4))
    if r.random() < 0.4:
        ev.append({"op": "delcv", "name": "v1", "also": []})
        steps(1)
    if second and r.random() < 0.5:
        ev.append({"op": "delcv", "name": "v0", "also": []})
        steps(1)
    steps(1)
    return {"id": "nr%d" % k, "samestep": 1 if r.random() < 0.8 else 0, "events": ev, "includecv": 1, "nameref": True}


def sanitizer_report(e):
    m = re.search(r"ERROR: (AddressSanitizer|LeakSanitizer): ([^\n]*)", e) or re.search(r"(runtime error): ([^\n]*)", e)
    if not m:
        return None
    kind = "undefined-behaviour" if m.group(1) == "runtime error" else ("leak" if m.group(1) == "LeakSanitizer" else m.group(2).split()[0])
    frames = [l.strip() for l in e.split("\n") if re.match(r"\s*#\d+ ", l) and "colvar" in l][:6]
    return kind, "%s: %s; %s" % (m.group(1), m.group(2)[:200], " | ".join(frames)[:700])


def nameref_asan(run, seqs):
    """QUICK and thorough tier: the name-reference family and witness W_C under AddressSanitizer (a reference to a deleted
    variable that is kept and USED is visible only there: the freed object still looks alive to the plain build)"""
    try:
        unit = V.build_prog("c13unit", UNIT_SRC, variant="asan")
    except V.InfraError as e:
        run.notes.append("asan variant could not be built: %s" % str(e)[-300:])
        return
    d = V.scratch("C13n")
    env = dict(os.environ, ASAN_OPTIONS="detect_leaks=1:exitcode=99", UBSAN_OPTIONS="print_stacktrace=1")
    items = [("W_C", W_C), ("W_C2", W_C2)] + [(str(q["id"]), scenario(q, dumps=False)) for q in seqs]
    for name, sc in items:
        open(os.path.join(d, "n.scn"), "w").write(sc)
        rc, o, e = V.sh([unit, "n.scn"], cwd=d, timeout=600, env=env)
        run.count("nameref-asan:" + name, True)
        run.dist("nameref:asan-histories")
        rep = sanitizer_report(e)
        if rep:
            run.violation("asan:" + rep[0], "a variable refers to another one by name (corrFuncWithColvar), the partner is deleted / defined again, steps: %s" % rep[1],
                          {"kind": "scenario", "scenario": sc, "variant": "asan"})
        elif "echo END" not in o:
            run.violation("asan:crash", "the engine simulator (sanitizer build) died (rc=%d) in a history with a reference by name to a deleted variable: %s" % (rc, e[-300:]),
                          {"kind": "scenario", "scenario": sc, "variant": "asan"})


# ------------------------------------------------------------------ exhaustive enumeration (thorough tier)
ENUM_ALPHABET = ["A", "B", "H", "G", "DB", "DV", "R", "S"]


def enum_sequences(maxlen):
    """ALL sequences up to length maxlen over {A: add variable (distance 1-2, outputTotalForce), B: add variable (distance with
    a fitting group, shares atom 2), H: add harmonic (timeStepFactor 2) on the first live variable, G: add harmonic on every
    live variable (at most 2), DB: delete the OLDEST live bias (the harmonic restraints are unnamed), DV: delete the first live variable, R: reset, S: step};
    a sequence whose operation has nothing to act on is dropped (it is not a history); a final step is appended"""
    import itertools
    k = 0
    for n in range(1, maxlen + 1):
        for word in itertools.product(ENUM_ALPHABET, repeat=n):
            ev, cvs, biases = [], [], []
            ncv = nb = nstep = 0
            ok = True
            for w in word:
                if w in ("A", "B"):
                    name = "e%s%d" % (w.lower(), ncv); ncv += 1
                    if w == "A":
                        conf = ("colvar {\n  name %s\n  outputTotalForce on\n  distance {\n    group1 { atomNumbers 1 }\n    group2 { atomNumbers 2 }\n  }\n}\n" % name)
                    else:
                        conf = ("colvar {\n  name %s\n  distance {\n    group1 {\n      atomNumbers 3 4\n      centerToReference on\n      fittingGroup {\n"
                                "        atomNumbers 2 5 6\n      }\n      refPositions (0.0, 0.0, 0.0) (1.0, 0.0, 0.0) (0.0, 1.0, 0.5)\n    }\n"
                                "    group2 { atomNumbers 2 }\n  }\n}\n" % name)
                    c = {"name": name, "kind": "distance", "scalar": True, "opts": {}, "conf": conf}
                    cvs.append(c); ev.append({"op": "addcv", "cv": c})
                elif w in ("H", "G"):
                    if not cvs:
                        ok = False; break
                    sel = cvs[:1] if w == "H" else cvs[:2]
                    nb += 1                      # both kinds are UNNAMED harmonic restraints: default names harmonic<rank>
                    name = "harmonic%d" % nb
                    conf = "harmonic {\n  colvars %s\n  centers %s\n  forceConstant 2.0\n%s}\n" % (
                        " ".join(c["name"] for c in sel), " ".join(["0.5"] * len(sel)), "  timeStepFactor 2\n" if w == "H" else "")
                    b = {"name": name, "kind": "harmonic", "cvs": [c["name"] for c in sel], "conf": conf, "unnamed": True, "rank": nb}
                    biases.append(b); ev.append({"op": "addbias", "bias": b})
                elif w == "DB":
                    if not biases:
                        ok = False; break
                    b = biases.pop(0); ev.append({"op": "delbias", "name": b["name"]})     # the OLDEST live bias
                elif w == "DV":
                    if not cvs:
                        ok = False; break
                    c = cvs.pop(0)
                    gone = [b for b in biases if c["name"] in b["cvs"]]
                    biases = [b for b in biases if c["name"] not in b["cvs"]]
                    ev.append({"op": "delcv", "name": c["name"], "also": [b["name"] for b in gone]})
                elif w == "R":
                    if not cvs and not biases:
                        ok = False; break
                    cvs, biases = [], []; nb = 0; ev.append({"op": "reset"})
                elif w == "S":
                    nstep += 1
                    ev.append({"op": "step", "pos": [(a, 0.5 * a + 0.25 * nstep, 0.25 * ((a * 7 + nstep) % 5) - 0.5, 0.125 * ((a * 3) % 7) + 0.25 * nstep) for a in range(1, NATOMS + 1)]})
            if not ok:
                continue
            ev.append({"op": "step", "pos": [(a, 0.5 * a - 0.125, 0.25 * ((a * 7) % 5) - 0.25, 0.125 * ((a * 3) % 7) + 1.0) for a in range(1, NATOMS + 1)]})
            yield {"id": "enum-%d" % k, "word": " ".join(word), "samestep": 1, "events": ev, "includecv": 0, "enum": True}
            k += 1


def start_lines(seq):
    L = ["natoms %d" % NATOMS, "samestep %d" % seq["samestep"], "includecv %d" % seq.get("includecv", 1), "temperature 300.0",
         "tfonrequest 1",      # total forces are exported only while requested, as NAMD/LAMMPS do
         "new"]
    for a in range(1, NATOMS + 1):
        # a non-degenerate start configuration
        L.append("pos %d %r %r %r" % (a, 0.5 * a, 0.25 * ((a * 7) % 5) - 0.5, 0.125 * ((a * 3) % 7) + 0.25))
    L.append("show atomf 1 energy 1 bias 1 cv 1")
    return L


def event_lines(e):
    op = e["op"]
    if op == "addcv":
        return ["config EOF"] + e["cv"]["conf"].rstrip("\n").split("\n") + ["EOF"]
    if op == "addbias":
        return ["config EOF"] + e["bias"]["conf"].rstrip("\n").split("\n") + ["EOF"]
    if op == "delbias":
        return ["script cv bias %s delete" % e["name"]]
    if op == "delcv":
        return ["script cv colvar %s delete" % e["name"]]
    if op == "reset":
        return ["script cv reset"]
    if op == "step":
        return ["pos %d %s %s %s" % (a, V.hexf(x), V.hexf(y), V.hexf(z)) for (a, x, y, z) in e["pos"]] + ["step"]
    if op == "set":
        return ["scriptset %s %s %d %d" % (e["kind"], e["name"], e["fid"], e["val"])]
    if op == "saveload":
        return ["save %s %s.colvars.state" % (e["fmt"], e["file"]), "load %s" % e["file"]]
    return []


def scenario(seq, dumps=True, tail=None):
    L = start_lines(seq)
    for i, e in enumerate(seq["events"]):
        L.append("echo EVENT %d %s" % (i, e["op"]))
        L += event_lines(e)
        if dumps:
            L.append("dumpdeps")
    if not dumps:
        L.append("dumpdeps")
    L += tail or []
    L.append("echo END")
    return "\n".join(L) + "\n"


def survivors_only(seq):
    """the same history with every event that concerns an object deleted later removed; objects are told apart by the
    event that defined them (a name may be defined again after its object was deleted)"""
    ev = seq["events"]
    dead = set()                      # indices of the defining events of objects deleted later
    live_cv, live_b = {}, {}          # name -> index of the defining event
    owner = {}                        # index of a `set` event -> defining event of the object it concerns
    for i, e in enumerate(ev):
        if e["op"] == "addcv":
            live_cv[e["cv"]["name"]] = i
        elif e["op"] == "addbias":
            live_b[e["bias"]["name"]] = i
        elif e["op"] == "delbias":
            dead.add(live_b.pop(e["name"], None))
        elif e["op"] == "delcv":
            dead.add(live_cv.pop(e["name"], None))
            for b in e["also"]:
                dead.add(live_b.pop(b, None))
        elif e["op"] == "reset":
            dead |= set(live_cv.values()) | set(live_b.values())
            live_cv, live_b = {}, {}
        elif e["op"] == "set":
            owner[i] = (live_cv if e["kind"] == "colvar" else live_b).get(e["name"])
    out = []
    for i, e in enumerate(ev):
        if e["op"] in ("addcv", "addbias") and i in dead:
            continue
        if e["op"] in ("delbias", "delcv", "reset"):
            continue
        if e["op"] == "set" and (owner.get(i) is None or owner[i] in dead):
            continue
        out.append(e)
    return {"id": seq["id"], "samestep": seq["samestep"], "events": out, "includecv": seq.get("includecv", 1)}, sorted(live_cv), sorted(live_b)


# ------------------------------------------------------------------ output parsing
def split_events(out):
    """returns (list of per-event text blocks, tail text); None if the run did not reach END"""
    if "echo END" not in out:
        return None
    parts = re.split(r"(?m)^echo EVENT \d+ \S+\n", out)
    head, blocks = parts[0], parts[1:]
    if blocks:
        last, _, _ = blocks[-1].partition("echo END")
        blocks[-1] = last
    return blocks


def last_step_block(text):
    """observables of the last STEP in a run: dict name->line set"""
    idx = text.rfind("\nSTEP ")
    if idx < 0:
        return None
    seg = text[idx + 1:]
    obs = []
    for l in seg.split("\n"):
        w = l.split()
        if not w:
            continue
        if w[0] in ("STEP", "ENERGY", "CV", "BIAS", "ATOMF"):
            if w[0] == "BIAS":
                # biases are compared by creation order: the default name of an unnamed bias depends on how many biases of its
                # type were defined before it, deleted ones included
                nbias = sum(1 for x in obs if x.startswith("BIAS "))
                l = " ".join(["BIAS", "#%d" % nbias] + w[2:])
            obs.append(l)
        elif w[0] in ("echo", "DEPS", "SCRIPT", "CONFIG"):
            break
    return obs


def feq(a, b):
    try:
        x, y = float.fromhex(a), float.fromhex(b)
    except ValueError:
        return a == b
    return x == y or abs(x - y) <= 1e-9 * max(1.0, abs(x), abs(b and y))


def obs_equal(A, B):
    if len(A) != len(B):
        return False
    for la, lb in zip(A, B):
        wa, wb = la.split(), lb.split()
        if len(wa) != len(wb):
            return False
        for x, y in zip(wa, wb):
            if x != y and not feq(x, y):
                return False
    return True


def deps_key(st):
    """dependency state without descriptions, as comparable structure"""
    return [(o["cls"], o["ch"], sorted(o["pa"]), o["fs"]) for o in st["objs"]]


def live_atoms(st):
    return {a: c for a, c in st["atoms"].items() if c > 0}


# ------------------------------------------------------------------ primitive-step correspondence
def gen_depsops(r, st, tabs, n):
    ops = []
    nobj = len(st["objs"])
    if nobj == 0:
        return ops
    parents = [i for i, ob in enumerate(st["objs"]) if ob["ch"] and ob["fs"]]
    # aimed at the automatic disable of decr_ref_count: features that are NOT dynamic (user, static), enabled and referenced:
    # release one reference directly, and disable one of their enabled dependents (a release through the cascade);
    # only dynamic features may be switched off by reference counting
    nd = []
    for oi, ob in enumerate(st["objs"]):
        tab = tabs.get(ob["cls"], [])
        if len(tab) != len(ob["fs"]):
            continue
        for g, (a, e, rc, alts) in enumerate(ob["fs"]):
            if e and rc >= 1 and tab[g]["type"] != 1:
                deps = [f for f, (a2, e2, rc2, alts2) in enumerate(ob["fs"]) if e2 and (g in tab[f]["S"] or g in alts2)]
                nd.append((oi, g, deps))
    r.shuffle(nd)
    for oi, g, deps in nd[:4]:
        if deps and r.random() < 0.6:
            ops.append("depsop %d disable %d" % (oi, r.choice(deps)))
        else:
            ops.append("depsop %d decr %d" % (oi, g))
    for _ in range(n):
        o = r.randrange(nobj)
        nf = len(st["objs"][o]["fs"])
        if nf == 0:
            continue
        if parents and r.random() < 0.3:
            # aimed at the "parent inactive => children only probed" branch and at restore/free on (de)activation:
            # put a parent to sleep, enable a feature that has children requirements, wake it up
            o = r.choice(parents)
            tab = tabs.get(st["objs"][o]["cls"], [])
            withc = [f for f, ft in enumerate(tab) if ft["C"] and f != 0]
            ops.append("depsop %d disable 0" % o)
            if withc:
                f = r.choice(withc)
                ops.append("depsop %d enable %d 0 1 0" % (o, f))
                if r.random() < 0.5:
                    ops.append("depsop %d disable %d" % (o, f))
            ops.append("depsop %d enable 0 0 1 0" % o)
            continue
        x = r.random()
        f = r.randrange(nf)
        if r.random() < 0.25:
            f = 0
        if x < 0.45:
            m = r.random()
            if m < 0.6:
                flags = (0, 1, 0)         # the public call
            elif m < 0.8:
                flags = (0, 0, 0)         # as a dependency
            else:
                flags = (r.randint(0, 1), r.randint(0, 1), r.randint(0, 1))
            ops.append("depsop %d enable %d %d %d %d" % ((o, f) + flags))
        elif x < 0.75:
            ops.append("depsop %d disable %d" % (o, f))
        elif x < 0.87:
            ops.append("depsop %d decr %d" % (o, f))
        elif x < 0.94:
            ops.append("depsop %d free" % o)
        else:
            ops.append("depsop %d restore" % o)
    return ops


def model_line(lagged, opline, st):
    w = opline.split()
    o, op = w[1], w[2]
    args = [o] + w[3:]
    return "OP %d %d %s %s ST %s" % (1 if lagged else 0, FUEL, op, " ".join(args), D.encode_state(st))


def obj_index(st, desc):
    k = [j for j, ob in enumerate(st["objs"]) if ob["desc"] == desc]
    return k[0] if len(k) == 1 else None


def shape_tokens(avail):
    return [str(len(avail))] + [str(a) for a in avail]


def tsf_map(seq):
    """timeStepFactor of every variable / bias defined in a history, by dump description"""
    m = {}
    for e in seq["events"]:
        if e["op"] in ("addcv", "addbias"):
            ob = e["cv"] if e["op"] == "addcv" else e["bias"]
            t = re.search(r"timeStepFactor\s+(\d+)", ob["conf"])
            m[("colvar_" if e["op"] == "addcv" else "bias_") + ob["name"]] = int(t.group(1)) if t else 1
    return m


def module_case(ev, blk, prev, cur, lag, tsfs=None):
    """the model's module-level operation that corresponds to a history event, as a driver line, or None.
    Returns (line, compare_feature_states)"""
    if not D.encodable(prev) or not D.encodable(cur):
        return None        # e.g. nested components (linearCombination): atom groups with a second parent that is not a child of anything
    head = "MOP %d %d " % (lag, FUEL)
    tail = " " + D.encode_mstate(prev, NATOMS)
    op = ev["op"]
    if op == "delbias" and "SCRIPT err=ok" in blk:
        k = obj_index(prev, "bias_" + ev["name"])
        return (head + "deletebias %d" % k + tail, True) if k is not None else None
    if op == "delcv" and "SCRIPT err=ok" in blk:
        k = obj_index(prev, "colvar_" + ev["name"])
        return (head + "deletecolvar %d" % k + tail, True) if k is not None else None
    if op == "reset":
        return (head + "reset" + tail, True)
    if op == "step" and tsfs is not None:
        # the dependency part of calc_colvars: awake/asleep scheduling of biases, then variables, with timeStepFactor > 1
        st = re.search(r"(?m)^STEP (\d+) err=ok", blk)
        if not st or any(o["cls"] in (0, 1) and o["desc"] not in tsfs for o in prev["objs"]):
            return None
        ots = [(i, tsfs[o["desc"]]) for i, o in enumerate(prev["objs"]) if o["cls"] == 0] + \
              [(i, tsfs[o["desc"]]) for i, o in enumerate(prev["objs"]) if o["cls"] == 1]
        if all(t == 1 for _, t in ots):
            return None
        return (head + "sched %s %d %s" % (st.group(1), len(ots), " ".join("%d %d" % x for x in ots)) + tail, True)
    if op == "set" and "SCRIPT err=ok" in blk:
        k = obj_index(prev, ("colvar_" if ev["kind"] == "colvar" else "bias_") + ev["name"])
        if k is None or ev["fid"] >= len(prev["objs"][k]["fs"]):
            return None
        return (head + "%s %d %d" % ("enable" if ev["val"] else "disable", k, ev["fid"]) + tail, True)
    if op in ("addcv", "addbias") and "CONFIG err=ok" in blk and len(cur["objs"]) > len(prev["objs"]):
        # structure only (links, numbering, atoms): which features an init function requests is not modelled
        if op == "addbias":
            k = len(cur["objs"]) - 1
            ob = cur["objs"][k]
            if ob["cls"] != 0 or len(cur["objs"]) != len(prev["objs"]) + 1:
                return None
            t = ["newbias"] + shape_tokens([f[0] for f in ob["fs"]]) + [str(len(ob["ch"]))] + [str(c) for c in ob["ch"]]
            return (head + " ".join(t) + tail, False)
        tops = [j for j, ob in enumerate(cur["objs"]) if ob["cls"] == 1]
        if not tops:
            return None
        v = tops[-1]
        ob = cur["objs"][v]
        t = ["newcolvar"] + shape_tokens([f[0] for f in ob["fs"]]) + [str(len(ob["ch"]))]
        for c in ob["ch"]:
            co = cur["objs"][c]
            t += shape_tokens([f[0] for f in co["fs"]]) + [str(len(co["ch"]))]
            for g in co["ch"]:
                go = cur["objs"][g]
                held = go.get("atoms", []) + go.get("fit", [])
                t += shape_tokens([f[0] for f in go["fs"]]) + [str(len(held))] + [str(a) for a in held]
        return (head + " ".join(t) + tail, False)
    return None


# ------------------------------------------------------------------ findings (root causes) and their fixed witnesses
F1 = "double-release-on-delete-of-inactive-bias"
F2 = "variable-deactivated-when-last-bias-deleted"
F3 = "disable-with-one-dependent"
F4 = "failed-enable-leaks-ref-counts"
F9 = "uncounted-request-outlives-its-holder"

XZ = """colvar {
  name x
  distanceZ {
    main { atomNumbers 1 }
    ref { dummyAtom (0,0,0) }
    axis (0,0,1)
  }
}
"""
HARM = """harmonic {
  name %s
  colvars x
  centers 0.0
  forceConstant 2.0
%s}
"""

W_F1 = ("natoms 2\nnew\nconfig EOF\n" + XZ + HARM % ("h1", "  timeStepFactor 2\n") + HARM % ("h2", "") + "EOF\n"
        "pos 1 0 0 1.0\nstep\npos 1 0 0 2.0\nstep\nscript cv bias h1 delete\npos 1 0 0 3.0\nstep\necho END\n")
W_F1_REF = ("natoms 2\nnew\nconfig EOF\n" + XZ + HARM % ("h2", "") + "EOF\n"
            "pos 1 0 0 1.0\nstep\npos 1 0 0 2.0\nstep\npos 1 0 0 3.0\nstep\necho END\n")
W_F2 = ("natoms 2\nnew\nconfig EOF\n" + XZ + HARM % ("h1", "") + "EOF\n"
        "pos 1 0 0 1.0\nstep\nscript cv bias h1 delete\npos 1 0 0 3.0\nstep\necho END\n")
W_F2_REF = ("natoms 2\nnew\nconfig EOF\n" + XZ + "EOF\npos 1 0 0 1.0\nstep\npos 1 0 0 3.0\nstep\necho END\n")
# colvar x with outputTotalForce: feature 20 (output_total_force, user) requires 7 (total_force, dynamic, ref_count 1)
W_F3 = ("natoms 2\nnew\nconfig EOF\ncolvar {\n  name x\n  outputTotalForce on\n  distance {\n    group1 { atomNumbers 1 }\n    group2 { atomNumbers 2 }\n  }\n}\nEOF\n"
        "dumpdeps\nscriptset colvar x 7 0\ndumpdeps\necho END\n")
# failed enable: colvar d (distanceVec, not scalar): enabling 4 (collect_gradient) requires 3 (gradient: taken), then 34 (scalar: fails)
W_F4 = ("natoms 3\nnew\nconfig EOF\ncolvar {\n  name d\n  distanceVec {\n    group1 { atomNumbers 1 }\n    group2 { atomNumbers 2 }\n  }\n}\nEOF\n"
        "dumpdeps\ndepsop 0 enable 4 0 1 0\ndumpdeps\necho END\n")


# F5 (repaired in /repo: "fix: running average switched on by script divided by an uninitialised stride"): a capability
# enabled at run time whose parameters were only ever initialised by the configuration keyword that enables it
F5 = "script-set-running-average-sigfpe"
W_F5 = ("natoms 2\nnew\nconfig EOF\n" + XZ + "EOF\nscriptset colvar x 28 1\npos 1 0 0 1.0\nstep\npos 1 0 0 2.0\nstep\npos 1 0 0 3.0\nstep\necho END\n")
W_F5_REF = ("natoms 2\nnew\nconfig EOF\n" + XZ + "EOF\npos 1 0 0 1.0\nstep\npos 1 0 0 2.0\nstep\npos 1 0 0 3.0\nstep\necho END\n")


# F7 (repair on fix-C13-2: "fix: scaledBiasingForce switched on by script dereferenced a null map of scaling factors"): like F5,
# a capability switched on at run time whose data is only created by the configuration keyword
F7 = "script-set-scaled-biasing-force-null-map"
XZG = XZ.replace("  distanceZ {", "  lowerBoundary -4.0\n  upperBoundary 4.0\n  width 0.5\n  distanceZ {")
W_F7 = ("natoms 2\nnew\nconfig EOF\n" + XZG + HARM % ("h", "") + "EOF\nscriptset bias h 14 1\npos 1 0 0 1.0\nstep\npos 1 0 0 2.0\nstep\necho END\n")
W_F7_REF = ("natoms 2\nnew\nconfig EOF\n" + XZG + HARM % ("h", "") + "EOF\npos 1 0 0 1.0\nstep\npos 1 0 0 2.0\nstep\necho END\n")


# U: a user feature (extendedLagrangian on) that a bias referenced (total force through the extended coordinate) must survive the
# deletion of that bias: only dynamic features are switched off by reference counting
XE = XZG.replace("  distanceZ {", "  extendedLagrangian on\n  extendedFluctuation 0.5\n  extendedTimeConstant 200.0\n  extendedLangevinDamping 0.0\n  distanceZ {")
W_U = ("natoms 2\ntemperature 300.0\nnew\nconfig EOF\n" + XE + HARM % ("h", "  writeTISamples on\n") + HARM % ("k", "") + "EOF\n"
       "pos 1 0 0 1.0\nstep\ndumpdeps\nscript cv bias h delete\ndumpdeps\npos 1 0 0 1.5\nstep\necho END\n")


# F8 (repair on fix-C13-4: "fix: a restraint with outputAccumulatedWork switched on by script could not read the state it had
# written"): the state written by a session must be readable by it
F8 = "script-set-accumulated-work-state-unreadable"
W_F8 = ("natoms 2\nnew\nconfig EOF\n" + XZ + HARM % ("h", "") + "EOF\nscriptset bias h 6 1\npos 1 0 0 1.0\nstep\n"
        "save text w8.colvars.state\nload w8\nsave binary w8b.colvars.state\nload w8b\npos 1 0 0 2.0\nstep\necho END\n")


# H: a feature of a variable requested by a top-level, UNCOUNTED enable of a bias (abf with hideJacobian: hide_Jacobian_force; also
# grid) has two holders; one is deleted: nothing may be given back on behalf of the other
XG = ("colvar {\n  name x\n  lowerBoundary 0.0\n  upperBoundary 8.0\n  width 0.5\n  distance {\n    group1 { atomNumbers 1 }\n"
      "    group2 { atomNumbers 2 }\n  }\n}\n")
ABF_H = "abf {\n  name %s\n  colvars x\n  fullSamples 2\n  hideJacobian on\n}\n"
W_H = ("natoms 2\ntemperature 300.0\nnew\nconfig EOF\n" + XG + ABF_H % "a1" + ABF_H % "a2" + "EOF\npos 1 0 0 1.0\nstep\ndumpdeps\n"
       "script cv bias a1 delete\ndumpdeps\npos 1 0 0 1.25\nstep\npos 1 0 0 1.5\nstep\necho END\n")
W_H_REF = ("natoms 2\ntemperature 300.0\nnew\nconfig EOF\n" + XG + ABF_H % "a2" + "EOF\npos 1 0 0 1.0\nstep\n"
           "pos 1 0 0 1.25\nstep\npos 1 0 0 1.5\nstep\necho END\n")


# F9: the ONLY holder of an uncounted request is deleted: the request stays (known finding)
WALL_H = "harmonicWalls {\n  name w\n  colvars x\n  lowerWalls 0.0\n  upperWalls 0.5\n  forceConstant 2.0\n}\n"
W_F9 = ("natoms 2\ntemperature 300.0\nnew\nshow atomf 1 energy 1 bias 1 cv 1\nconfig EOF\n" + XG + WALL_H + ABF_H % "a1" + "EOF\npos 1 0 0 1.0\nstep\n"
        "script cv bias a1 delete\ndumpdeps\npos 1 0 0 1.25\nstep\npos 1 0 0 1.5\nstep\necho END\n")
W_F9_REF = ("natoms 2\ntemperature 300.0\nnew\nshow atomf 1 energy 1 bias 1 cv 1\nconfig EOF\n" + XG + WALL_H + "EOF\npos 1 0 0 1.0\nstep\n"
            "dumpdeps\npos 1 0 0 1.25\nstep\npos 1 0 0 1.5\nstep\necho END\n")


# E: the engine-side request of total forces is ONE flag for all variables: a (outputTotalForce on: its own need of total forces
# survives its biases) and b (grid, outputTotalForce on, abf on it); `tfonrequest 1` (the engine exports total forces only while
# requested); a step; a deleted by script; two more steps: the request must stay on for b (monitor E1 on every dump) and b / its abf
# must see what they see in the history in which a never existed
CV_E = ("colvar {\n  name %s\n  lowerBoundary 0.0\n  upperBoundary 8.0\n  width 0.5\n  outputTotalForce on\n  distance {\n    group1 { atomNumbers %d }\n"
        "    group2 { atomNumbers %d }\n  }\n}\n")
ABF_E = "abf {\n  name ab\n  colvars b\n  fullSamples 1\n}\n"
def _we(with_a):
    pos = lambda k: "pos 1 0 0 %s\npos 3 0 %s 0\n" % (1.0 + 0.25 * k, 1.5 - 0.125 * k)
    return ("natoms 4\nsamestep 1\nincludecv 0\ntemperature 300.0\ntfonrequest 1\nnew\nshow atomf 1 energy 1 bias 1 cv 1\neforce 3 0 0.5 0\neforce 4 0 -0.5 0\nconfig EOF\n" +
            (CV_E % ("a", 1, 2) if with_a else "") + CV_E % ("b", 3, 4) + ABF_E + "EOF\n" + pos(0) + "step\ndumpdeps\n" +
            ("script cv colvar a delete\ndumpdeps\n" if with_a else "") + pos(1) + "step\ndumpdeps\n" + pos(2) + "step\ndumpdeps\n" + pos(3) + "step\ndumpdeps\necho END\n")
W_E, W_E_REF = _we(True), _we(False)


# N: default names.  Two unnamed harmonic restraints (harmonic1, harmonic2), the older one deleted, a third defined: it must not
# take the name of the survivor; then the survivor is deleted BY NAME: exactly the third one must remain
HARM_U = "harmonic {\n  colvars x\n  centers %s\n  forceConstant 2.0\n}\n"
W_N = ("natoms 2\nnew\nconfig EOF\n" + XZ + HARM_U % "0.0" + HARM_U % "1.0" + "EOF\npos 1 0 0 1.0\nstep\nscript cv bias harmonic1 delete\n"
       "config EOF\n" + HARM_U % "2.0" + "EOF\ndumpdeps\nscript cv bias harmonic2 delete\ndumpdeps\npos 1 0 0 1.5\nstep\necho END\n")


# C: a reference by NAME to another variable is resolved when it is used (colvar::calc_acf): x correlates with y; y deleted: every
# step reports that y is not defined (no silent use of the destroyed object); y defined again (another object): steps succeed
def _wc_pos(k):
    return "".join("pos %d %s %s %s\n" % (a, 0.5 * a + 0.1 * k, 0.3 * a, 0.2 * a * (k + 1)) for a in range(1, 5))
YC = "colvar {\n  name y\n  distance {\n    group1 { atomNumbers %d }\n    group2 { atomNumbers %d }\n  }\n}\n"
XC = ("colvar {\n  name x\n  corrFunc on\n  corrFuncWithColvar y\n  corrFuncType coordinate\n  corrFuncLength 4\n  distance {\n"
      "    group1 { atomNumbers 1 }\n    group2 { atomNumbers 2 }\n  }\n}\n")
W_C = ("natoms 4\nnew\nconfig EOF\n" + YC % (3, 4) + XC + "EOF\n" + _wc_pos(0) + "step\n" + _wc_pos(1) + "step\necho PHASE deleted\nscript cv colvar y delete\n" +
       _wc_pos(2) + "step\n" + _wc_pos(3) + "step\necho PHASE redefined\nconfig EOF\n" + YC % (2, 3) + "EOF\n" + _wc_pos(4) + "step\n" + _wc_pos(5) + "step\necho END\n")


# C2: the partner deleted and defined AGAIN with the same definition: the correlation function written at the end must be the one of
# the run in which y was never touched (the name resolves to the new object, which computes the same values)
def _wc2_pos(k):
    return "".join("pos %d %s %s %s\n" % (a, 0.5 * a + 0.1 * k * ((a % 3) + 1), 0.3 * a, 0.2 * a * (k + 1)) for a in range(1, 5))
def _wc2(prefix, redefine):
    return ("natoms 4\nprefix %s\nnew\nconfig EOF\n" % prefix + YC % (3, 4) + XC.replace("corrFuncLength 4", "corrFuncLength 2") + "EOF\n" +
            "".join(_wc2_pos(k) + "step\n" for k in range(3)) + ("script cv colvar y delete\nconfig EOF\n" + YC % (3, 4) + "EOF\n" if redefine else "") +
            "".join(_wc2_pos(k) + "step\n" for k in range(3, 8)) + "postrun\necho END\n")
W_C2, W_C2_REF = _wc2("wc2", True), _wc2("wc2r", False)


def run_scn(unit, d, text, name="w.scn"):
    p = os.path.join(d, name)
    open(p, "w").write(text)
    rc, o, e = V.sh([unit, p], cwd=d, timeout=120)
    return rc, o, e


def replay_witnesses(run, unit, d, tabs, model):
    """The counterexamples of the *_refuted theorems, replayed on the implementation on every run."""
    # F1 (repaired in /repo; regression scenario that must pass): forces of the surviving bias vanish after an asleep
    # multiple-time-step bias is deleted
    rc, o, e = run_scn(unit, d, W_F1)
    rc2, o2, e2 = run_scn(unit, d, W_F1_REF)
    A, B = last_step_block(o), last_step_block(o2)
    run.count("witness:F1", True)
    if A is not None and B is not None and not obs_equal(A, B):
        run.violation(F1, "deleting bias h1 (timeStepFactor 2) at an odd step, while it is asleep, calls free_children_deps() a second time "
                      "(colvarbias::clear does not test is_enabled()): the references of the surviving bias h2 on variable x are released, "
                      "and at the next step h2's force is not applied: %s instead of %s" % (
                          [l for l in A if l.startswith(("STEP", "ATOMF"))], [l for l in B if l.startswith(("STEP", "ATOMF"))]),
                      {"kind": "identity", "scenario": W_F1, "reference": W_F1_REF})
    # F2: a variable stops being computed when its last bias is deleted
    rc, o, e = run_scn(unit, d, W_F2)
    rc2, o2, e2 = run_scn(unit, d, W_F2_REF)
    A, B = last_step_block(o), last_step_block(o2)
    run.count("witness:F2", True)
    if A is not None and B is not None and not obs_equal(A, B):
        run.violation(F2, "after defining and deleting a bias on variable x, x is no longer computed (active has ref_count 0 from its toplevel "
                      "enable, the bias adds and removes one reference, reaching 0 auto-disables it): %s instead of %s" % (
                          [l for l in A if l.startswith("CV")], [l for l in B if l.startswith("CV")]),
                      {"kind": "identity", "scenario": W_F2, "reference": W_F2_REF})
    # F5 (repaired in /repo; regression scenario that must pass): switching the running average on through the script
    # interface must neither kill the process nor change what the variable reports
    rc, o, e = run_scn(unit, d, W_F5)
    rc2, o2, e2 = run_scn(unit, d, W_F5_REF)
    run.count("witness:F5", True)
    if "echo END" not in o:
        run.violation(F5, "`cv colvar x set \"running average\" 1` followed by a step kills the process (rc=%d%s) in colvar::calc_runave: "
                      "runave_stride/runave_length are only initialised when `runAve on` is read from the configuration" % (
                          rc, ", SIGFPE" if rc in (-8, 136) else ""), {"kind": "scenario", "scenario": W_F5})
    else:
        A, B = last_step_block(o), last_step_block(o2)
        if "err=ok" not in (A or [""])[0] or not obs_equal(A, B):
            run.violation(F5 + ":observables", "switching the running average of x on by script changes the step results: %s instead of %s" % (A, B),
                          {"kind": "identity", "scenario": W_F5, "reference": W_F5_REF})
    # F7: switching scaledBiasingForce on by script (no map of scaling factors exists): must not crash, force unscaled
    rc, o, e = run_scn(unit, d, W_F7)
    rc2, o2, e2 = run_scn(unit, d, W_F7_REF)
    run.count("witness:F7", True)
    if "echo END" not in o:
        run.violation(F7, "`cv bias h set \"scale_biasing_force\" 1` followed by a step kills the process (rc=%d%s) in colvarbias::communicate_forces: "
                      "biasing_force_scaling_factors is NULL unless scaledBiasingForce was read from the configuration" % (
                          rc, ", SIGSEGV" if rc in (-11, 139) else ""), {"kind": "scenario", "scenario": W_F7})
    else:
        A, B = last_step_block(o), last_step_block(o2)
        if "err=ok" not in (A or [""])[0] or not obs_equal(A, B):
            run.violation(F7 + ":observables", "switching scaledBiasingForce on by script (no map) changes the step results: %s instead of %s" % (A, B),
                          {"kind": "identity", "scenario": W_F7, "reference": W_F7_REF})
    # F8: a fixed restraint with output_accumulated_work enabled by script writes a state that it reads back
    rc, o, e = run_scn(unit, d, W_F8)
    run.count("witness:F8", True)
    loads = [l for l in o.split("\n") if l.startswith("LOAD")]
    if "echo END" not in o or len(loads) != 2 or any("err=ok" not in l for l in loads):
        run.violation(F8, "harmonic h (fixed centers), `cv bias h set \"output_accumulated_work\" 1`, a step, state written and read back: %s "
                      "(set_state_params requires the keyword accumulatedWork, get_state_params writes it only for moving restraints)" % " | ".join(loads),
                      {"kind": "scenario", "scenario": W_F8})
    # H: two holders of an uncounted top-level request, one deleted
    rc, o, e = run_scn(unit, d, W_H)
    rc2, o2, e2 = run_scn(unit, d, W_H_REF)
    dumps = D.parse_deps_blocks(o.split("\n"))
    run.count("witness:H", True)
    if "echo END" not in o or "echo END" not in o2 or len(dumps) != 2 or "CONFIG err=ok" not in o:
        run.violation("witness:H:crash", "the witness of uncounted top-level requests does not run (rc=%d): %s" % (rc, (o[-200:] + e[-200:])), {"kind": "scenario", "scenario": W_H})
    else:
        hj = [i for i, ft in enumerate(tabs[1]) if ft["D"] == "hide_Jacobian_force"]
        run.dist("witness:H:hide_Jacobian-on" if hj and dumps[0]["objs"][0]["fs"][hj[0]][1] else "witness:H:hide_Jacobian-off")
        u = D.monitor_user(tabs, dumps[0], dumps[1])
        A, B = last_step_block(o), last_step_block(o2)
        if u:
            run.violation("uncounted-request-given-back", "variable x, abf a1 and abf a2 both with hideJacobian on (each enables hide_Jacobian_force of x by a "
                          "top-level enable that is not counted); `cv bias a1 delete`: %s" % u[0][1], {"kind": "identity", "scenario": W_H, "reference": W_H_REF})
        elif not obs_equal(A, B):
            run.violation("uncounted-request-given-back:observables", "two abf biases with hideJacobian on x, one deleted: the last step differs from the run in which "
                          "it never existed: %s instead of %s" % ([l for l in A if l not in B][:4], [l for l in B if l not in A][:4]),
                          {"kind": "identity", "scenario": W_H, "reference": W_H_REF})
    # F9: the only holder of an uncounted request deleted
    rc, o, e = run_scn(unit, d, W_F9)
    rc2, o2, e2 = run_scn(unit, d, W_F9_REF)
    A, B = last_step_block(o), last_step_block(o2)
    run.count("witness:F9", True)
    if A is not None and B is not None and not obs_equal(A, B):
        run.violation(F9, "x = distance with a grid, harmonicWalls w on x, abf a1 on x with hideJacobian on, one step, `cv bias a1 delete`, two steps: "
                      "hide_Jacobian_force stays enabled in x (a top-level enable by a1 that nothing counts) and the Jacobian force is still subtracted "
                      "from the walls' force: %s instead of %s" % ([l for l in A if l.startswith("ATOMF")], [l for l in B if l.startswith("ATOMF")]),
                      {"kind": "identity", "scenario": W_F9, "reference": W_F9_REF})
    # E: a variable with its own total-force need deleted while another variable still needs the engine's total forces
    rc, o, e = run_scn(unit, d, W_E)
    rc2, o2, e2 = run_scn(unit, d, W_E_REF)
    dumps = D.parse_deps_blocks(o.split("\n"))
    run.count("witness:E", True)
    if "echo END" not in o or "echo END" not in o2 or len(dumps) != 5 or "CONFIG err=ok" not in o or "SCRIPT err=ok" not in o:
        run.violation("witness:E:crash", "the witness of the engine-side total-force request does not run (rc=%d): %s" % (rc, (o[-200:] + e[-200:])), {"kind": "scenario", "scenario": W_E})
    else:
        run.dist("witness:E:tfreq:" + "".join(str((dm.get("engine") or {}).get("tfreq", "?")) for dm in dumps))
        bad = [(k, b) for k, dm in enumerate(dumps) for b in D.monitor_engine(tabs, dm)]
        A, B = last_step_block(o), last_step_block(o2)
        if bad:
            run.violation("monitor:E1:delcv", "variables a and b with outputTotalForce on, abf on b, the engine exports total forces only while requested; a step, "
                          "`cv colvar a delete`, three steps: in dump %d %s" % (bad[0][0], bad[0][1][1]), {"kind": "identity", "scenario": W_E, "reference": W_E_REF})
        elif A is not None and B is not None and not obs_equal(A, B):
            run.violation("total-force-request-lost:observables", "variables a and b with outputTotalForce on, abf on b; a deleted by script after one step: the last "
                          "step differs from the run in which a never existed: %s instead of %s" % ([l for l in A if l not in B][:4], [l for l in B if l not in A][:4]),
                          {"kind": "identity", "scenario": W_E, "reference": W_E_REF})
    # C: reference by name to a deleted / re-defined variable
    rc, o, e = run_scn(unit, d, W_C)
    run.count("witness:C", True)
    if "echo END" not in o or "echo PHASE redefined" not in o:
        run.violation("witness:C:crash", "the witness of references by name does not run (rc=%d): %s" % (rc, (o[-200:] + e[-200:])), {"kind": "scenario", "scenario": W_C})
    else:
        p0, rest = o.split("echo PHASE deleted")
        p1, p2 = rest.split("echo PHASE redefined")
        st = [re.findall(r"(?m)^STEP \d+ err=(\w+)", x) for x in (p0, p1, p2)]
        run.dist("witness:C:" + "/".join(",".join(x) for x in st))
        if st[1] != ["input", "input"]:
            run.violation("dangling-name-reference", "x correlates with y (corrFuncWithColvar y); after `cv colvar y delete` the two steps report %s instead of the "
                          "error `collective variable \"y\" is not defined at this time`: the destroyed object is still used" % st[1], {"kind": "scenario", "scenario": W_C})
        if st[0] != ["ok", "ok"] or st[2] != ["ok", "ok"]:
            run.violation("name-reference-not-resolved", "x correlates with y: steps while y exists report %s, steps after y was deleted and defined again report %s "
                          "(all four must succeed: the name is looked up at every use)" % (st[0], st[2]), {"kind": "scenario", "scenario": W_C})
    rc, o, e = run_scn(unit, d, W_C2)
    rc2, o2, e2 = run_scn(unit, d, W_C2_REF)
    run.count("witness:C2", True)
    fa, fb = os.path.join(d, "wc2.x.corrfunc.dat"), os.path.join(d, "wc2r.x.corrfunc.dat")
    if "POSTRUN err=ok" not in o or "POSTRUN err=ok" not in o2 or "err=input" in o or not os.path.exists(fa) or not os.path.exists(fb):
        run.violation("witness:C2:crash", "the witness of a partner variable deleted and defined again does not run or writes no correlation function (rc=%d): %s" % (
            rc, " ".join(l for l in o.split("\n") if "err=" in l)[-300:]), {"kind": "identity", "scenario": W_C2, "reference": W_C2_REF})
    else:
        A, B = open(fa).read(), open(fb).read()
        run.dist("witness:C2:samples:" + (re.search(r"samples = (\d+)", A) or re.search("()", "")).group(1))
        if A != B:
            run.violation("name-reference-identity", "x correlates with y; y deleted and defined again with the same definition after 3 steps, 5 more steps: the "
                          "correlation function of x differs from the run in which y was never deleted: %s instead of %s" % (
                              [l for l in A.split("\n") if l and not l.startswith("#")], [l for l in B.split("\n") if l and not l.startswith("#")]),
                          {"kind": "identity", "scenario": W_C2, "reference": W_C2_REF})
        os.remove(fa); os.remove(fb)
    # N: default names of unnamed biases stay distinct; deletion by name hits the right object
    rc, o, e = run_scn(unit, d, W_N)
    dumps = D.parse_deps_blocks(o.split("\n"))
    run.count("witness:N", True)
    if "echo END" not in o or len(dumps) != 2:
        run.violation("witness:N:crash", "the witness of default names does not run (rc=%d): %s" % (rc, (o[-200:] + e[-200:])), {"kind": "scenario", "scenario": W_N})
    else:
        n1 = [t for c, t in D.monitor_links(dumps[0]) if c == "N1"]
        left = [ob["desc"] for ob in dumps[1]["objs"] if ob["cls"] == 0]
        if n1:
            run.violation("default-name-collision", "harmonic, harmonic (both unnamed), `cv bias harmonic1 delete`, a third unnamed harmonic: %s" % n1[0],
                          {"kind": "scenario", "scenario": W_N})
        elif left != ["bias_harmonic3"]:
            run.violation("default-name-collision", "after `cv bias harmonic2 delete` the remaining biases are %s instead of [bias_harmonic3]" % left,
                          {"kind": "scenario", "scenario": W_N})
    # U: user feature referenced by a bias survives the deletion of the bias
    rc, o, e = run_scn(unit, d, W_U)
    dumps = D.parse_deps_blocks(o.split("\n"))
    run.count("witness:U", True)
    if "echo END" not in o or len(dumps) != 2:
        run.violation("witness:U:crash", "the witness of user-feature persistence does not run (rc=%d): %s" % (rc, (o[-200:] + e[-200:])), {"kind": "scenario", "scenario": W_U})
    else:
        ids = [i for i, ft in enumerate(tabs[1]) if ft["D"] == "extended_Lagrangian"]
        before = dumps[0]["objs"][0]["fs"][ids[0]] if ids else None
        u = D.monitor_user(tabs, dumps[0], dumps[1])
        run.dist("witness:U:ext-referenced-once" if before and before[1] and before[2] == 1 else "witness:U:ext-reference-count-not-1")
        if u:
            run.violation("user-feature-switched-by-reference-counting", "variable x (extendedLagrangian on) with harmonic h (writeTISamples on: total force "
                          "through the extended coordinate) and harmonic k; `cv bias h delete`: %s" % u[0][1], {"kind": "scenario", "scenario": W_U})
    # F3: script "set <feature> off" of a feature with exactly one dependent
    rc, o, e = run_scn(unit, d, W_F3)
    dumps = D.parse_deps_blocks(o.split("\n"))
    run.count("witness:F3", True)
    if len(dumps) == 2:
        before, after = D.monitor(tabs, dumps[0]), D.monitor(tabs, dumps[1])
        new = [t for t in after if t not in before and t[0] == "I1"]
        if new:
            run.violation(F3, "`cv colvar x set \"total force\" off` succeeds although output_total_force needs it (disable() refuses only when "
                          "ref_count > 1, and one dependent gives ref_count 1): %s" % new[0][1], {"kind": "scenario", "scenario": W_F3})
    # F4: failed enable leaves the reference taken for the requirement resolved before the failure
    rc, o, e = run_scn(unit, d, W_F4)
    dumps = D.parse_deps_blocks(o.split("\n"))
    run.count("witness:F4", True)
    if len(dumps) == 2 and "DEPSOP res=1" in o:
        b, a = dumps[0]["objs"][0]["fs"], dumps[1]["objs"][0]["fs"]
        ch = [(f, x, y) for f, (x, y) in enumerate(zip(b, a)) if x != y]
        if ch:
            run.violation(F4, "enable(collect_gradient) on a non-scalar variable fails (scalar is not enabled) but leaves what it had already "
                          "resolved: %s" % "; ".join("feature %d (%s) %s -> %s" % (f, tabs[1][f]["D"], x, y) for f, x, y in ch[:3]),
                          {"kind": "scenario", "scenario": W_F4})


def biases_inactive(st):
    return [o["desc"] for o in st["objs"] if o["cls"] == 0 and o["fs"] and not o["fs"][0][1]]


def drop_object(st_tokens_state, k):
    pass


def renumber_without(st, k):
    """state with object k removed and larger numbers shifted (k is a bias: referenced only in parents lists)"""
    objs = []
    for i, o in enumerate(st["objs"]):
        if i == k:
            continue
        objs.append({"cls": o["cls"], "fs": o["fs"], "desc": o.get("desc", ""),
                     "ch": [c - 1 if c > k else c for c in o["ch"] if c != k],
                     "pa": [c - 1 if c > k else c for c in o["pa"] if c != k]})
    return {"objs": objs, "atoms": st.get("atoms", {})}


def decode_state(tokens):
    t = [int(x) for x in tokens]
    p = 0
    n = t[p]; p += 1
    objs = []
    for _ in range(n):
        cls, nf = t[p], t[p + 1]; p += 2
        fs = []
        for _ in range(nf):
            a, e, rc, na = t[p:p + 4]; p += 4
            fs.append((a, e, rc, t[p:p + na])); p += na
        nch = t[p]; p += 1; ch = t[p:p + nch]; p += nch
        npa = t[p]; p += 1; pa = t[p:p + npa]; p += npa
        objs.append({"cls": cls, "fs": fs, "ch": ch, "pa": pa})
    return {"objs": objs, "atoms": {}}


def check(run):
    r = V.rng("C13")
    quick = run.tier == "quick"
    run.cov["rule"] = ("histories: random sequences (length 6-40) over {add variable (7 component kinds, boundaries, extended Lagrangian, "
                       "output flags, MTS), add bias (6 kinds, 1-2 variables, MTS), delete bias, delete variable, reset, step, script set of a feature}; "
                       "the whole dependency state is dumped after every event (invariant monitor; every bias deletion is replayed by the model's delete_bias), "
                       "then 12-25 random primitive calls (enable with all flag combinations / disable / decr_ref_count / free_children_deps / "
                       "restore_children_deps on a random (object, feature)) are made on the real objects, each replayed by the extracted model "
                       "from the preceding dump; a second stream of histories without script-set is re-run with only the surviving objects "
                       "and the last step's values/energies/forces/atoms in use are compared. "
                       "distinct = distinct (operation, pre-state) pairs; non-trivial = the primitive changed the state or failed / the history deleted something")
    run.assumptions += [
        "the dependency state is read with `#define private public` in props/C13/unit.cpp (no hook in /repo)",
        "the model covers colvardeps.cpp (+ the dependency part of colvarbias::clear); the feature requests made by the init functions of "
        "colvar/bias/cvc/atom group are not modelled: their effect enters the tie through the dumped reachable states, and the "
        "define/delete identity is checked on the implementation (survivors-only re-run), not proved",
    ]
    try:
        unit = V.build_prog("c13unit", UNIT_SRC)
    except V.InfraError as e:
        if "compilation of /repo failed" in str(e):
            raise
        run.violation("tie:harness-build", "the C13 harness no longer builds against the tree: %s" % str(e)[-800:],
                      {"kind": "harness-build", "log": str(e)[-3000:]}, found_input=False)
        return
    tabs_same, tabs_lagged = regen_tables(unit)
    run.cov["correspondence"]["table_sizes"] = {D.CLASSES[c]: len(t) for c, t in tabs_same.items()}
    # failing inputs for the table theorems come from the python re-check of the same tables
    table_oracles(run, tabs_same, "samestep")
    table_oracles(run, tabs_lagged, "lagged")
    st = V.standard_start(run, PROP, EXTRACT, DRIVER, {"c13unit": UNIT_SRC}, extra_ml=())
    if st is None:
        return
    model, exes = st
    unit = os.environ.get("C13_UNIT_OVERRIDE") or exes["c13unit"]      # e.g. a gcov-instrumented build (coverage measurement)
    d = V.scratch("C13")

    replay_witnesses(run, unit, d, tabs_same, model)

    nseq = 30 if quick else 600
    seqs = [gen_sequence(r, k, r.randint(6, 40 if k % 3 else 14)) for k in range(nseq)]
    enum_seqs = [] if quick else list(enum_sequences(4))
    seqs += enum_seqs
    rn = V.rng("C13-nameref")
    nr_seqs = [gen_nameref_sequence(rn, k) for k in range(8 if quick else 120)]
    seqs += nr_seqs
    enum_out = {}
    mlines, mexpect = [], []
    nprim = ndel = 0
    for seq in seqs:
        tabs = tabs_same if seq["samestep"] else tabs_lagged
        lag = 0 if seq["samestep"] else 1
        # (1) history with a dump after every event: monitor + model replay of bias deletions
        sc = scenario(seq, dumps=True)
        rc, o, e = run_scn(unit, d, sc, "s.scn")
        blocks = split_events(o)
        if blocks is None:
            run.violation("history:crash", "the engine simulator died (rc=%d) during a define/delete history: %s" % (rc, (o[-300:] + e[-300:])),
                          {"kind": "scenario", "scenario": sc})
            continue
        run.dist("histories:enumerated" if seq.get("enum") else "histories")
        if seq.get("enum"):
            enum_out[seq["id"]] = o
        final = None
        prev = {"objs": [], "atoms": {}}
        prev_bad = set()
        tainted = False
        corr_tsf = {}
        rops, live_cv, corr, ndef = [], {}, {}, 0     # name references: model operations, live variable name -> number of its definition, holder -> partner name
        tsfs = {}                      # timeStepFactor of the live objects, by dump description (default names are reused after a reset)
        nops, live_b = [], {}          # naming model: operations, and the unnamed biases believed alive (name -> (kind index, rank))
        for i, (ev, blk) in enumerate(zip(seq["events"], blocks)):
            part = {"id": seq["id"], "samestep": seq["samestep"], "events": seq["events"][:i + 1]}
            if ev["op"] == "addcv" and not seq.get("enum"):
                cname = ev["cv"]["name"]
                rops.append("D %s" % cname[1:])
                if "CONFIG err=ok" in blk:
                    live_cv[cname] = ndef                    # the objects are numbered by their definition
                    if ev["cv"]["opts"].get("corr"):
                        corr[cname] = ev["cv"]["opts"]["corr"]
                        corr_tsf[cname] = 2 if "timeStepFactor 2" in ev["cv"]["conf"] else 1
                elif cname not in live_cv:
                    rops.append("X %s" % cname[1:])          # the failed variable is destroyed
                ndef += 1
            elif ev["op"] == "delcv" and "SCRIPT err=ok" in blk and not seq.get("enum"):
                rops.append("X %s" % ev["name"][1:]); live_cv.pop(ev["name"], None); corr.pop(ev["name"], None)
            elif ev["op"] == "reset":
                rops.append("R"); live_cv = {}; corr = {}
            elif ev["op"] == "step":
                # a reference by name is resolved when it is used: with a deleted partner the step reports the documented error
                # (never a silent success on a stale object); the extracted model says what the name resolves to
                st_ok = re.search(r"(?m)^STEP \d+ err=ok", blk) is not None
                stn = re.search(r"(?m)^STEP (\d+) err=", blk)
                dd = D.parse_deps_blocks(blk.split("\n"))
                for holder, partner in sorted(corr.items()):
                    # the reference is used (colvar::analyze -> calc_acf) only at the steps at which the holder is awake (timeStepFactor)
                    if stn is None or int(stn.group(1)) % corr_tsf.get(holder, 1) != 0:
                        run.dist("name-reference:holder-asleep")
                        continue
                    # ... and active (finding F2: deleting its last bias switches a variable off)
                    ho = [o for o in (dd[-1]["objs"] if dd else []) if o["cls"] == 1 and o["desc"] == "colvar_" + holder]
                    if not (ho and ho[0]["fs"] and ho[0]["fs"][0][1]):
                        run.dist("name-reference:holder-inactive")
                        continue
                    mlines.append("RESOLVE " + " ".join(rops) + " Q " + partner[1:])
                    mexpect.append(("resolve", live_cv.get(partner), st_ok, part, holder, partner))
            if ev["op"] in ("addcv", "addbias"):
                tsfs.update(tsf_map({"events": [ev]}))
            elif ev["op"] == "reset":
                tsfs = {}
            if ev["op"] == "addbias":
                bb = ev["bias"]
                kidx = BIAS_KINDS.index(bb["kind"])
                okdef = "CONFIG err=ok" in blk
                if bb.get("rank") is not None:
                    nops.append("D %d %d %d" % (kidx, 1 if bb.get("unnamed") else 0, 1 if okdef else 0))
                    if bb.get("unnamed") and okdef:
                        live_b[bb["name"]] = (kidx, bb["rank"])
            elif ev["op"] == "delbias" and ev["name"] in live_b and "SCRIPT err=ok" in blk:
                nops.append("X %d %d" % live_b.pop(ev["name"]))
            elif ev["op"] == "delcv" and "SCRIPT err=ok" in blk:
                for bn in ev.get("also", []):
                    if bn in live_b:
                        nops.append("X %d %d" % live_b.pop(bn))
            elif ev["op"] == "reset":
                nops.append("R"); live_b = {}
            run.dist("event:" + ev["op"])
            dumps = D.parse_deps_blocks(blk.split("\n"))
            if not dumps:
                continue
            cur = dumps[-1]
            final = cur
            part = {"id": seq["id"], "samestep": seq["samestep"], "events": seq["events"][:i + 1]}
            # model replay of the event (deletion of a bias / of a variable with its biases, reset, script set of a
            # feature; structure only for definitions)
            mc = module_case(ev, blk, prev, cur, lag, tsfs)
            if mc is not None:
                mlines.append(mc[0])
                mexpect.append(("mop", ev["op"], cur, part, mc[1], None))
                ndel += 1
            if D.encodable(cur):
                mlines.append("CHK %d 40 ST %s" % (lag, D.encode_state(cur)))
                mexpect.append(("chk", "%d %d" % (1 if D.consistent_py(tabs, cur) else 0, 0 if any(c == "I2" for c, _ in D.monitor(tabs, cur)) else 1), cur, part, None, None))
                lk = D.monitor_links(cur)
                mlines.append("MOP %d %d check %s" % (lag, FUEL, D.encode_mstate(cur, NATOMS)))
                mexpect.append(("chk", "%d %d" % (0 if any(c != "A1" for c, _ in lk) else 1, 0 if any(c == "A1" for c, _ in lk) else 1), cur, part, None, None))
            if ev["op"] == "saveload":
                run.dist("saveload:" + ev["fmt"])
                if ("SAVE err=ok" not in blk or "LOAD err=ok" not in blk) and not tainted and prev["objs"]:
                    tainted = True
                    run.violation("saveload:error", "after event %d: a state written by this session (%s) is not read back by it: %s" % (
                        i, ev["fmt"], " ".join(l for l in blk.split("\n") if l.startswith(("SAVE", "LOAD")))), {"kind": "scenario", "scenario": scenario(part)})
            bad = D.monitor(tabs, cur) + D.monitor_links(cur) + D.monitor_engine(tabs, cur)
            if ev["op"] in ("delbias", "delcv", "step", "saveload"):
                bad += D.monitor_user(tabs, prev, cur)
            if ev["op"] == "saveload" and D.encodable(prev) and D.encodable(cur) and D.mstate_key(prev) != D.mstate_key(cur) and not tainted:
                # reading back what was just written changes no dependency state, no link, no atom count
                tainted = True
                run.violation("saveload:deps-state", "after event %d: writing the state and reading it back changed the dependency state" % i,
                              {"kind": "scenario", "scenario": scenario(part)})
            need = D.need_counts(tabs, cur)
            leak = sum(1 for oi, ob in enumerate(cur["objs"]) for g, f in enumerate(ob["fs"]) if f[2] > need[oi][g])
            run.dist("dump:ref_count-above-accounted-need" if leak else "dump:ref_count-equals-accounted-need")
            new = [b for b in bad if b[1] not in prev_bad]
            prev_bad = set(b[1] for b in bad)
            if new and not tainted:
                code, text = new[0]
                deps_code = code in ("I1", "I3", "I4", "I4neg", "I5", "I6")
                if deps_code and ev["op"] in ("delbias", "delcv") and biases_inactive(prev):
                    sig = F1
                elif deps_code and ev["op"] == "set" and ev["val"] == 0:
                    sig = F3
                else:
                    sig = "monitor:%s:%s" % (code, ev["op"])
                tainted = True
                run.violation(sig, "after event %d (%s) of a define/delete history: %s" % (i, ev["op"], text),
                              {"kind": "scenario", "scenario": scenario(part), "monitor": text})
            prev = cur
        if final is not None and all("rank" in e["bias"] and e["bias"]["rank"] is not None for e in seq["events"] if e["op"] == "addbias"):
            # default names: the extracted naming model against the names of the unnamed biases alive in the last dump
            import re as _re
            pat = _re.compile(r"^bias_(%s)(\d+)$" % "|".join(k.lower() for k in BIAS_KINDS))
            explicit = set("bias_" + e["bias"]["name"] for e in seq["events"] if e["op"] == "addbias" and not e["bias"].get("unnamed"))
            have = sorted("%d:%d" % ([k.lower() for k in BIAS_KINDS].index(m.group(1)), int(m.group(2)))
                          for m in (pat.match(o["desc"]) for o in final["objs"] if o["cls"] == 0 and o["desc"] not in explicit) if m)
            mlines.append("NAMES " + " ".join(nops))
            mexpect.append(("names", " ".join(have), None, {"id": seq["id"], "samestep": seq["samestep"], "events": seq["events"]}, None, None))
        if final is None or seq.get("enum"):
            continue
        # (2) primitive-step correspondence from the reached state
        ops = gen_depsops(r, final, tabs, r.randint(12, 25))
        tail = []
        for opl in ops:
            tail += [opl, "dumpdeps"]
        sc3 = scenario(seq, dumps=False, tail=tail)
        rc3, o3, e3 = run_scn(unit, d, sc3, "s.scn")
        if "echo END" not in o3:
            run.violation("primitive:crash", "the unit driver died (rc=%d) while calling dependency primitives: %s" % (rc3, e3[-300:]),
                          {"kind": "scenario", "scenario": sc3})
            continue
        dumps3 = D.parse_deps_blocks(o3.split("\n"))
        results = re.findall(r"(?m)^DEPSOP (\S+)", o3)
        if len(dumps3) != len(ops) + 1 or len(results) != len(ops):
            run.mismatch("primitive:protocol", {"scenario": sc3}, "%d dumps %d results" % (len(dumps3), len(results)), "%d ops" % len(ops))
            continue
        for k, opl in enumerate(ops):
            pre, post = dumps3[k], dumps3[k + 1]
            if not D.encodable(pre) or not results[k].startswith("res="):
                run.dist("primitive:skipped")
                continue
            mlines.append(model_line(lag, opl, pre))
            mexpect.append(("prim", results[k][4:] + " " + D.encode_state(post), opl, seq, k, ops))
            nprim += 1
    # run the model on all cases
    rc, mout, e = V.run_lines(model, mlines, timeout=900)
    if len(mout) != len(mlines):
        run.mismatch("primitive:model-run", {"n": len(mlines)}, "%d cases" % len(mlines), "%d answers (rc=%d) %s" % (len(mout), rc, e[-300:]))
    for ml, mo, ex in zip(mlines, mout, mexpect):
        if ex[0] == "resolve":
            _, py_live, st_ok, part, holder, partner = ex
            run.count(ml, True)
            resolved = mo.strip() != "-"
            redefined = ml.count(" D %s " % partner[1:]) + ml.count(" D %s Q" % partner[1:]) > 1
            run.dist("model:name-reference:" + ("resolved" if resolved else "unresolved") + (":name-defined-again" if redefined else ""))
            if mo.strip() != ("-" if py_live is None else str(py_live)):
                # the model's answer (number of the defining operation, or nothing) against the definitions/deletions the implementation accepted
                run.mismatch("name-reference", {"scenario": scenario(part), "model_case": ml}, "object of definition %s" % py_live, mo[:40])
            elif not resolved and st_ok:
                run.violation("dangling-name-reference", "variable %s correlates with variable %s (corrFuncWithColvar), which has been deleted: the step "
                              "reports success instead of `collective variable \"%s\" is not defined at this time` -- a stale reference to the deleted "
                              "object was used" % (holder, partner, partner), {"kind": "scenario", "scenario": scenario(part)})
            continue
        if ex[0] == "names":
            run.count(ml, True)
            run.dist("model:default-names")
            if sorted(mo.split()) != sorted(ex[1].split()):
                run.mismatch("default-names", {"scenario": scenario(ex[3]), "model_case": ml}, "unnamed biases alive: " + ex[1], mo[:200])
            continue
        if ex[0] == "chk":
            _, pyverdict, cur, part, _, _ = ex
            run.count(ml, True)
            run.dist(("model:consistent_check=" if ml.startswith("CHK") else "model:wf_check,acct_check=") + mo.strip())
            if mo.strip() != pyverdict:
                run.mismatch("consistent_check" if ml.startswith("CHK") else "structure_check", {"scenario": scenario(part), "model_case": ml},
                             "python monitor: %s" % pyverdict, mo[:50])
            continue
        if ex[0] == "mop":
            _, evop, cur, part, with_fs, _ = ex
            run.count(ml, True)
            run.dist("model:" + evop)
            comp = "module:" + evop
            w = mo.split()
            if not w or w[0] != "0":
                run.mismatch(comp, {"scenario": scenario(part), "model_case": ml}, "event replayed", mo[:200])
                continue
            got, err = D.canon_mstate(D.decode_mstate(w[1:]))
            if got is None:
                run.mismatch(comp, {"scenario": scenario(part), "model_case": ml}, "a state without dangling references", err)
                continue
            kg, kc = D.mstate_key(got, with_fs), D.mstate_key(cur, with_fs)
            if kg != kc:
                run.mismatch(comp, {"scenario": scenario(part), "model_case": ml}, str(kc)[:3000], str(kg)[:3000])
            continue
        _, exp, opl, seq, k, ops = ex
        pre_tokens = ml.split(" ST ")[1]
        changed = exp.split(" ", 1)[1] != pre_tokens or exp.startswith("1")
        kind = opl.split()[2]
        run.count(ml, changed)
        run.dist("primitive:" + kind)
        run.dist("primitive:result=" + exp.split(" ", 1)[0])
        if changed:
            run.dist("primitive:state-changed-or-failed")
        if mo.strip() != exp.strip():
            tail = []
            for opl2 in ops[:k + 1]:
                tail += [opl2, "dumpdeps"]
            run.mismatch("primitive:" + kind, {"op": opl, "scenario": scenario(seq, dumps=False, tail=tail), "model_case": ml},
                         exp[:3000], mo[:3000])
    if mlines:
        run.sample({"primitive_case": mlines[-1][:300] + " ...", "impl": mexpect[-1][1][:120] if mexpect[-1][0] == "prim" else "module event"})

    # ---- corpus of earlier identity failures (scenario, reference, signature of the root cause), run first
    import glob
    for cf in sorted(glob.glob(os.path.join(V.ROOT, "corpus", "C13_identity_*.json"))):
        cj = json.load(open(cf))
        rc1, o1, e1 = run_scn(unit, d, cj["scenario"], "i.scn")
        rc2, o2, e2 = run_scn(unit, d, cj["reference"], "j.scn")
        run.count("corpus:" + os.path.basename(cf), True)
        A, B = last_step_block(o1), last_step_block(o2)
        if A is None or B is None or "echo END" not in o1 or "echo END" not in o2:
            run.violation("identity:crash", "corpus history %s no longer runs to its end (rc=%d/%d)" % (os.path.basename(cf), rc1, rc2),
                          {"kind": "identity", "scenario": cj["scenario"], "reference": cj["reference"]})
        elif not obs_equal(A, B):
            run.violation(cj["signature"], "corpus history %s (%s): the last step differs from the run in which the deleted objects never existed: %s instead of %s" % (
                os.path.basename(cf), cj.get("note", "")[:300], [l for l in A if l not in B][:4], [l for l in B if l not in A][:4]),
                {"kind": "identity", "scenario": cj["scenario"], "reference": cj["reference"]})

    # ---- (3) define/delete identity on the implementation: survivors-only re-run
    r2 = V.rng("C13-identity")
    nid = 40 if quick else 800
    id_items = []
    for k in range(nid):
        seq = gen_sequence(r2, k, r2.randint(5, 24), with_set=False)
        # the compared step comes after every deletion
        seq["events"].append({"op": "step", "pos": [(a, V.dyadic(r2, -3, 3, 4), V.dyadic(r2, -3, 3, 4), V.dyadic(r2, -3, 3, 4)) for a in range(1, NATOMS + 1)]})
        id_items.append((seq, None))
    # references by name: the partner deleted and defined again (no step while it is missing: such a step is an error)
    id_items += [(gen_nameref_sequence(r2, 1000 + k, dangling_steps=False), None) for k in range(4 if quick else 60)]
    # every enumerated history that deletes something (its run with dumps was made above)
    id_items += [(es, enum_out[es["id"]]) for es in enum_seqs
                 if es["id"] in enum_out and any(e["op"] in ("delbias", "delcv", "reset") for e in es["events"])]
    for k, (seq, o1pre) in enumerate(id_items):
        tabs = tabs_same if seq["samestep"] else tabs_lagged
        ref, lcv, lb = survivors_only(seq)
        sc1, sc2 = scenario(seq, dumps=True), scenario(ref, dumps=False)
        rc1, o1, e1 = run_scn(unit, d, sc1, "i.scn") if o1pre is None else (0, o1pre, "")
        rc2, o2, e2 = run_scn(unit, d, sc2, "j.scn")
        if "echo END" not in o1 or "echo END" not in o2:
            run.violation("identity:crash", "the engine simulator died during a define/delete history (rc=%d/%d)" % (rc1, rc2),
                          {"kind": "identity", "scenario": sc1, "reference": sc2})
            continue
        if "err=input" in o1 or "err=error" in o1 or "err=input" in o2:
            run.dist("identity:skipped-failed-definition")
            continue
        blocks = split_events(o1) or []
        # was a bias deleted while inactive / did the monitor fire?
        f1_hit = False
        f2_hit = []
        prev = {"objs": [], "atoms": {}}
        for ev, blk in zip(seq["events"], blocks):
            dumps = D.parse_deps_blocks(blk.split("\n"))
            if ev["op"] in ("delbias", "delcv", "reset") and biases_inactive(prev):
                f1_hit = True
            if dumps and ev["op"] in ("delbias", "delcv"):
                # a surviving variable that was active before the deletion and is not after it (finding F2): from then on
                # it is not computed until another bias wakes it up, and its lagged total force restarts from nothing
                was = {o["desc"] for o in prev["objs"] if o["cls"] == 1 and o["fs"] and o["fs"][0][1]}
                f2_hit += [o["desc"] for o in dumps[-1]["objs"] if o["cls"] == 1 and o["fs"] and not o["fs"][0][1] and o["desc"] in was]
            if dumps:
                prev = dumps[-1]
        f1, f2 = D.parse_deps_blocks(o1.split("\n")), D.parse_deps_blocks(o2.split("\n"))
        if not f1 or not f2:
            continue
        ndeleted = sum(1 for ev in seq["events"] if ev["op"] in ("delbias", "delcv", "reset"))
        run.count("identity:%d" % k, ndeleted > 0 and bool(lcv))
        run.dist("identity:histories:enumerated" if seq.get("enum") else "identity:histories")
        run.dist("identity:deletions", ndeleted)
        compare_identity(run, seq, ref, f1[-1], f2[-1], o1, o2, tabs, f1_hit, f2_hit)
    if os.environ.get("C13_XSESSION"):
        # exploratory, off by default: its first differences are not triaged yet (stale values of sleeping variables that a fresh
        # session has never computed; one LOAD err=input) -- see NOTES.md, residue
        cross_session_stream(run, unit, 8 if quick else 150)
    nameref_asan(run, nr_seqs[:8] if quick else nr_seqs)
    if not quick:
        asan_stream(run, 300)
    run.cov["correspondence"].update({"histories": len(seqs), "primitive_cases": nprim, "module_event_cases": ndel, "identity_histories": len(id_items), "enumerated_histories": len(enum_seqs)})


def asan_stream(run, n):
    """thorough tier: define/delete histories (ending with a reset half of the time) under AddressSanitizer +
    UndefinedBehaviorSanitizer + LeakSanitizer: a reference to a destroyed object that is USED, or an object that is
    never destroyed, is a concrete failing input"""
    try:
        unit = V.build_prog("c13unit", UNIT_SRC, variant="asan")
    except V.InfraError as e:
        run.notes.append("asan variant could not be built: %s" % str(e)[-300:])
        return
    r = V.rng("C13-asan")
    d = V.scratch("C13a")
    env = dict(os.environ, ASAN_OPTIONS="detect_leaks=1:exitcode=99", UBSAN_OPTIONS="print_stacktrace=1")
    for k in range(n):
        seq = gen_sequence(r, k, r.randint(6, 40), with_set=(k % 2 == 0))
        if k % 2:
            seq["events"].append({"op": "reset"})
        sc = scenario(seq, dumps=False)
        open(os.path.join(d, "a.scn"), "w").write(sc)
        rc, o, e = V.sh([unit, "a.scn"], cwd=d, timeout=600, env=env)
        run.count("asan:%d" % k, True)
        run.dist("asan:histories")
        m = re.search(r"ERROR: (AddressSanitizer|LeakSanitizer): ([^\n]*)", e) or re.search(r"(runtime error): ([^\n]*)", e)
        if m:
            kind = "undefined-behaviour" if m.group(1) == "runtime error" else ("leak" if m.group(1) == "LeakSanitizer" else m.group(2).split()[0])
            frames = [l.strip() for l in e.split("\n") if re.match(r"\s*#\d+ ", l) and "colvar" in l][:6]
            run.violation("asan:" + kind, "a define/delete history under the sanitizers: %s: %s; %s" % (m.group(1), m.group(2)[:200], " | ".join(frames)[:700]),
                          {"kind": "scenario", "scenario": sc, "variant": "asan"})
        elif "echo END" not in o:
            run.violation("asan:crash", "the engine simulator (sanitizer build) died (rc=%d) during a define/delete history: %s" % (rc, e[-300:]),
                          {"kind": "scenario", "scenario": sc, "variant": "asan"})


def cross_session_stream(run, unit, n):
    """a state written after a define/delete history (unnamed biases included) is loaded into a FRESH session that defines the
    surviving objects in another order (the default names of the first session given explicitly): the next step must give what
    the first session gives when it simply continues.  Everything in the state file is found by name."""
    r = V.rng("C13-xsession")
    d = V.scratch("C13x")
    for k in range(n):
        seq = gen_sequence(r, k, r.randint(6, 30), with_set=False)
        seq["samestep"] = 1
        ref, lcv, lb = survivors_only(seq)
        adds_cv = [e for e in ref["events"] if e["op"] == "addcv"]
        adds_b = [e for e in ref["events"] if e["op"] == "addbias"]
        if not adds_cv or not adds_b:
            continue
        fmt = r.choice(["text", "binary"])
        pos = [(a, V.dyadic(r, -3, 3, 4), V.dyadic(r, -3, 3, 4), V.dyadic(r, -3, 3, 4)) for a in range(1, NATOMS + 1)]
        step = event_lines({"op": "step", "pos": pos})
        s1 = scenario(seq, dumps=False, tail=["save %s x.colvars.state" % fmt] + step)
        rc1, o1, e1 = run_scn(unit, d, s1, "x1.scn")
        dumps = D.parse_deps_blocks(o1.split("\n"))
        if "echo END" not in o1 or "err=input" in o1 or "err=error" in o1 or not dumps or "SAVE err=ok" not in o1:
            run.dist("xsession:skipped")
            continue
        if any(o["cls"] == 1 and o["fs"] and not o["fs"][0][1] for o in dumps[-1]["objs"]):
            run.dist("xsession:skipped-inactive-variable")      # finding F2: a variable switched off by a deletion
            continue
        r.shuffle(adds_cv); r.shuffle(adds_b)
        L = start_lines(seq)
        for e in adds_cv:
            L += event_lines(e)
        for e in adds_b:
            conf = e["bias"]["conf"]
            if e["bias"].get("unnamed"):
                head, _, rest = conf.partition("\n")
                conf = head + "\n  name " + e["bias"]["name"] + "\n" + rest
            L += ["config EOF"] + conf.rstrip("\n").split("\n") + ["EOF"]
        L += ["load x"] + step + ["echo END"]
        s2 = "\n".join(L) + "\n"
        rc2, o2, e2 = run_scn(unit, d, s2, "x2.scn")
        run.count("xsession:%d" % k, True)
        run.dist("xsession:" + fmt)
        if "echo END" not in o2 or "LOAD err=ok" not in o2:
            run.violation("xsession:load", "a state written after a define/delete history is not read by a fresh session that defines the same objects "
                          "in another order: %s" % " ".join(l for l in o2.split("\n") if l.startswith("LOAD"))[:200], {"kind": "identity", "scenario": s1, "reference": s2})
            continue
        def block(text):
            idx = text.rfind("\nSTEP ")
            return sorted(l for l in text[idx + 1:].split("\n") if l.split() and l.split()[0] in ("STEP", "ENERGY", "CV", "BIAS", "ATOMF"))
        A, B = block(o1), block(o2)
        if not obs_equal(A, B):
            run.violation("xsession:observables", "the step after loading the state in a fresh session that defines the objects in another order differs from "
                          "the continued run: %s instead of %s" % ([l for l in B if l not in A][:4], [l for l in A if l not in B][:4]),
                          {"kind": "identity", "scenario": s1, "reference": s2})


def table_oracles(run, tabs, label):
    """python re-check of the table theorems; gives the concrete offending entry when a table theorem breaks"""
    child_cls = {0: 1, 1: 2, 2: 3, 3: 3}
    for c, tab in tabs.items():
        for f, ft in enumerate(tab):
            for g in ft["X"]:
                if g >= len(tab) or f not in tab[g]["X"]:
                    run.violation("table:exclusion-asymmetric", "%s tables, class %s: feature %d (%s) excludes %d (%s) but not conversely: "
                                  "enabling %d first and then %d leaves both enabled" % (
                        label, D.CLASSES[c], f, ft["D"], g, tab[g]["D"] if g < len(tab) else "?", f, g), {"kind": "table", "class": c, "f": f, "g": g})
            for g in ft["C"]:
                if g >= len(tabs.get(child_cls[c], [])):
                    run.violation("table:child-id", "%s tables, class %s: feature %d requires child feature %d outside the child table" % (label, D.CLASSES[c], f, g),
                                  {"kind": "table", "class": c, "f": f, "g": g})
            cl = D.closure(tab, f)
            if f in cl:
                run.violation("table:cycle", "%s tables, class %s: feature %d (%s) requires itself through requires_self/requires_alt" % (label, D.CLASSES[c], f, ft["D"]),
                              {"kind": "table", "class": c, "f": f})
            if cl & set(ft["X"]):
                run.violation("table:excludes-own-requirement", "%s tables, class %s: feature %d (%s) excludes %s which it (transitively) requires" % (
                    label, D.CLASSES[c], f, ft["D"], sorted(cl & set(ft["X"]))), {"kind": "table", "class": c, "f": f})


def compare_identity(run, seq, ref, s1, s2, o1, o2, tabs, f1_hit, f2_hit=()):
    rp = {"kind": "identity", "scenario": scenario(seq, dumps=False), "reference": scenario(ref, dumps=False)}
    if len(s1["objs"]) != len(s2["objs"]):
        run.violation("identity:objects", "after the history %d objects remain, %d in the run where the deleted objects never existed" % (
            len(s1["objs"]), len(s2["objs"])), rp)
        return
    if live_atoms(s1) != live_atoms(s2):
        run.violation("identity:atoms", "atoms in use after the history %s differ from those of the run without the deleted objects %s" % (
            live_atoms(s1), live_atoms(s2)), rp)
    # variables that are active in the reference but not after the history
    deact = [a["desc"] for a, b in zip(s1["objs"], s2["objs"]) if a["cls"] == 1 and b["cls"] == 1 and a["fs"] and b["fs"] and b["fs"][0][1] and not a["fs"][0][1]]
    # non-dynamic features of the surviving objects that are on after the history and off in the reference: requested by a deleted
    # object through a top-level, uncounted enable (abf hideJacobian -> hide_Jacobian_force of the variable, ...); no deletion gives
    # them back (C13_deletions_keep_uncounted_requests), so they outlive their only holder (finding F9)
    left = []
    for a, b in zip(s1["objs"], s2["objs"]):
        tab = tabs.get(a["cls"], [])
        if a["cls"] == b["cls"] and len(a["fs"]) == len(b["fs"]) == len(tab):
            left += ["%s:%s" % (a["desc"], tab[f]["D"]) for f, (x, y) in enumerate(zip(a["fs"], b["fs"])) if tab[f]["type"] != 1 and tab[f]["D"] != "awake" and x[1] and not y[1]]
    run.dist("identity:deps-state-equal" if deps_key(s1) == deps_key(s2) else "identity:deps-state-differs")
    if left:
        run.dist("identity:request-outlives-holder")
    A, B = last_step_block(o1), last_step_block(o2)
    if A is not None and B is not None and not obs_equal(A, B):
        diffA = [l for l in A if l not in B][:4]
        diffB = [l for l in B if l not in A][:4]
        if deact or f2_hit:
            sig = F2          # the dumps show a surviving variable switched off by a deletion
        elif f1_hit:
            sig = F1
        elif left:
            sig = F9
        else:
            sig = "identity:observables"
        run.violation(sig, "values/energies/forces at the last step differ from the run in which the deleted objects never existed: %s instead of %s%s" % (
            diffA, diffB, (" (inactive after the history: %s)" % deact) if deact else
            (" (still enabled although the object that requested it is gone: %s)" % left) if left and sig == F9 else
            ((" (deactivated by the deletion of its last bias during the history: %s)" % sorted(set(f2_hit))) if f2_hit else "")), rp)


def replay(path):
    j = json.load(open(path))
    rp = j["replay"]
    print(json.dumps(j, indent=1)[:3000])
    unit = V.build_prog("c13unit", UNIT_SRC, variant=rp.get("variant", "plain"))
    d = V.scratch("C13r")
    for key in ("scenario", "reference"):
        if key in rp:
            open(os.path.join(d, "r.scn"), "w").write(rp[key])
            print("----", key)
            print(V.sh([unit, "r.scn"], cwd=d)[1][-6000:])
    if "model_case" in rp:
        regen_tables(unit)
        model = V.extract_model("C13", EXTRACT, DRIVER, [])
        print("model:", V.run_lines(model, [rp["model_case"]])[1])
    return 0
