(* C13 model driver: applies one primitive of the extracted DepsModel to a dumped state.
   input  : OP <lagged 0|1> <fuel> <op> <args..> ST <state tokens>
   output : <res 0|1|FUEL> <state tokens>
   state tokens: nobj { cls nfeat { avail enabled rc nalt alt.. }*nfeat nch ch.. npa pa.. }*nobj *)
open Model

let rec pos_of_int (n : int) : positive =
  if n <= 1 then XH else if n land 1 = 0 then XO (pos_of_int (n lsr 1)) else XI (pos_of_int (n lsr 1))
let z_of_int (n : int) : z =
  if n = 0 then Z0 else if n > 0 then Zpos (pos_of_int n) else Zneg (pos_of_int (- n))
let rec int_of_pos (p : positive) : int =
  match p with XH -> 1 | XO q -> 2 * int_of_pos q | XI q -> 2 * int_of_pos q + 1
let int_of_z (x : z) : int =
  match x with Z0 -> 0 | Zpos p -> int_of_pos p | Zneg p -> - (int_of_pos p)
let rec nat_of_int (n : int) : nat = if n <= 0 then O else S (nat_of_int (n - 1))
let rec int_of_nat (n : nat) : int = match n with O -> 0 | S m -> 1 + int_of_nat m
let words (s : string) : string list =
  List.filter (fun w -> w <> "") (String.split_on_char ' ' (String.trim s))

let print_state (st : obj list) : string =
  let b = Buffer.create 1024 in
  let add i = Buffer.add_string b (string_of_int i); Buffer.add_char b ' ' in
  add (List.length st);
  List.iter (fun o ->
      add (int_of_nat o.o_class); add (List.length o.o_fs);
      List.iter (fun s ->
          add (if s.fs_avail then 1 else 0); add (if s.fs_enabled then 1 else 0); add (int_of_z s.fs_rc);
          add (List.length s.fs_alt); List.iter (fun g -> add (int_of_nat g)) s.fs_alt) o.o_fs;
      add (List.length o.o_children); List.iter (fun c -> add (int_of_nat c)) o.o_children;
      add (List.length o.o_parents); List.iter (fun c -> add (int_of_nat c)) o.o_parents) st;
  String.trim (Buffer.contents b)

(* module-level operations:
   MOP <lagged> <fuel> <op> <args..> ST <state tokens> INFO { alive natoms atom.. }*nobj AT <n> rc..
   ops: deletebias b | deletecolvar v | reset | enable o f | disable o f
        | newcolvar navail a.. ncvc { navail a.. ngrp { navail a.. natoms id.. } }
        | newbias navail a.. nvs v..
   output: <0|FUEL> <state tokens> INFO .. AT .. *)
let print_mstate (m : mstate) : string =
  let b = Buffer.create 1024 in
  Buffer.add_string b (print_state m.m_objs);
  Buffer.add_string b " INFO";
  List.iter (fun i ->
      Buffer.add_string b (if i.i_alive then " 1" else " 0");
      Buffer.add_string b (" " ^ string_of_int (List.length i.i_atoms));
      List.iter (fun a -> Buffer.add_string b (" " ^ string_of_int (int_of_nat a))) i.i_atoms) m.m_info;
  Buffer.add_string b (" AT " ^ string_of_int (List.length m.m_atoms));
  List.iter (fun r -> Buffer.add_string b (" " ^ string_of_int (int_of_z r))) m.m_atoms;
  Buffer.contents b

let do_mop (w : string array) : unit =
  let p = ref 1 in
  let next () = let s = w.(!p) in Stdlib.incr p; s in
  let ni () = int_of_string (next ()) in
  let nn () = nat_of_int (ni ()) in
  let nb () = ni () <> 0 in
  let lagged = nb () in
  let fuel = nn () in
  let opname = next () in
  let tabs = if lagged then gen_tables_lagged else gen_tables in
  let blist () = let k = ni () in List.init k (fun _ -> nb ()) in
  let nlist () = let k = ni () in List.init k (fun _ -> nn ()) in
  let sched_args = ref (O, []) in
  if opname = "sched" then begin
    let step = nn () in let k = ni () in
    let ots = List.init k (fun _ -> let o = nn () in let t = nn () in (o, t)) in
    sched_args := (step, ots)
  end;
  let op =
    match opname with
    | "deletebias" -> let b = nn () in MDeleteBias b
    | "deletecolvar" -> let v = nn () in MDeleteColvar v
    | "reset" -> MReset
    | "check" -> MReset   (* not executed: wf_check / acct_check of the given state *)
    | "sched" -> MReset   (* not executed: m_sched with the arguments collected below *)
    | "enable" -> let o = nn () in let f = nn () in MPrim (OpEnable (o, f, false, true, false))
    | "disable" -> let o = nn () in let f = nn () in MPrim (OpDisable (o, f))
    | "newcolvar" ->
      let av = blist () in
      let nc = ni () in
      let cs = List.init nc (fun _ ->
          let cav = blist () in
          let ng = ni () in
          let gs = List.init ng (fun _ -> let gav = blist () in let at = nlist () in (gav, at)) in
          (cav, gs)) in
      MNewColvar (av, cs)
    | "newbias" -> let av = blist () in let vs = nlist () in MNewBias (av, vs)
    | _ -> failwith "unknown module op" in
  if next () <> "ST" then failwith "ST expected";
  let nobj = ni () in
  let st = List.init nobj (fun _ ->
      let cls = nn () in let nf = ni () in
      let fs = List.init nf (fun _ ->
          let av = nb () in let en = nb () in let rc = z_of_int (ni ()) in
          let na = ni () in let alts = List.init na (fun _ -> nn ()) in
          { fs_avail = av; fs_enabled = en; fs_rc = rc; fs_alt = alts }) in
      let nch = ni () in let ch = List.init nch (fun _ -> nn ()) in
      let npa = ni () in let pa = List.init npa (fun _ -> nn ()) in
      { o_class = cls; o_fs = fs; o_children = ch; o_parents = pa }) in
  if next () <> "INFO" then failwith "INFO expected";
  let info = List.init nobj (fun _ -> let al = nb () in let at = nlist () in { i_alive = al; i_atoms = at }) in
  if next () <> "AT" then failwith "AT expected";
  let na = ni () in
  let atoms = List.init na (fun _ -> z_of_int (ni ())) in
  let m = { m_objs = st; m_info = info; m_atoms = atoms } in
  if opname = "sched" then
    (match m_sched tabs fuel (fst !sched_args) (snd !sched_args) m with
     | None -> print_string "FUEL\n"
     | Some m' -> Printf.printf "0 %s\n" (print_mstate m'))
  else
  if opname = "check" then
    Printf.printf "%d %d\n" (if wf_check m then 1 else 0) (if acct_check m then 1 else 0)
  else
  match m_step tabs fuel op m with
  | None -> print_string "FUEL\n"
  | Some m' -> Printf.printf "0 %s\n" (print_mstate m')

(* CHK <lagged> <G> ST <state tokens>  ->  <consistent_check> <excl_check>   (both proved sound) *)
let do_chk (w : string array) : unit =
  let p = ref 1 in
  let next () = let s = w.(!p) in Stdlib.incr p; s in
  let ni () = int_of_string (next ()) in
  let nn () = nat_of_int (ni ()) in
  let nb () = ni () <> 0 in
  let lagged = nb () in
  let g = nn () in
  let tabs = if lagged then gen_tables_lagged else gen_tables in
  if next () <> "ST" then failwith "ST expected";
  let nobj = ni () in
  let st = List.init nobj (fun _ ->
      let cls = nn () in let nf = ni () in
      let fs = List.init nf (fun _ ->
          let av = nb () in let en = nb () in let rc = z_of_int (ni ()) in
          let na = ni () in let alts = List.init na (fun _ -> nn ()) in
          { fs_avail = av; fs_enabled = en; fs_rc = rc; fs_alt = alts }) in
      let nch = ni () in let ch = List.init nch (fun _ -> nn ()) in
      let npa = ni () in let pa = List.init npa (fun _ -> nn ()) in
      { o_class = cls; o_fs = fs; o_children = ch; o_parents = pa }) in
  Printf.printf "%d %d\n" (if consistent_check tabs st g then 1 else 0) (if excl_check tabs st then 1 else 0)

(* NAMES { D k unnamed ok | X k r | R }*   ->  live default names "k:r k:r .."  (NameModel.n_run) *)
let do_names (w : string array) : unit =
  let n = Array.length w in
  let ops = ref [] in
  let p = ref 1 in
  while !p < n do
    (match w.(!p) with
     | "D" -> ops := NDefine (nat_of_int (int_of_string w.(!p + 1)), w.(!p + 2) <> "0", w.(!p + 3) <> "0") :: !ops; p := !p + 4
     | "X" -> ops := NDelete (nat_of_int (int_of_string w.(!p + 1)), nat_of_int (int_of_string w.(!p + 2))) :: !ops; p := !p + 3
     | "R" -> ops := NReset :: !ops; p := !p + 1
     | _ -> failwith "NAMES: bad token")
  done;
  let st = n_run (List.rev !ops) n_empty in
  print_string (String.concat " " (List.map (fun (k, r) -> Printf.sprintf "%d:%d" (int_of_nat k) (int_of_nat r)) st.n_live));
  print_newline ()

(* RESOLVE { D name | X name | R }* Q name  ->  object number the name resolves to, or "-"   (NameRefModel) *)
let do_resolve (w : string array) : unit =
  let n = Array.length w in
  let ops = ref [] in
  let p = ref 1 in
  let q = ref 0 in
  while !p < n do
    (match w.(!p) with
     | "D" -> ops := RDefine (nat_of_int (int_of_string w.(!p + 1))) :: !ops; p := !p + 2
     | "X" -> ops := RDelete (nat_of_int (int_of_string w.(!p + 1))) :: !ops; p := !p + 2
     | "R" -> ops := RReset :: !ops; p := !p + 1
     | "Q" -> q := int_of_string w.(!p + 1); p := !p + 2
     | _ -> failwith "RESOLVE: bad token")
  done;
  (match resolve (r_run (List.rev !ops) r_empty) (nat_of_int !q) with
   | None -> print_string "-\n"
   | Some o -> Printf.printf "%d\n" (int_of_nat o))

let () =
  try
    while true do
      let line = input_line stdin in
      let w = Array.of_list (words line) in
      if Array.length w > 0 && w.(0) = "MOP" then do_mop w
      else if Array.length w > 0 && w.(0) = "CHK" then do_chk w
      else if Array.length w > 0 && w.(0) = "NAMES" then do_names w
      else if Array.length w > 0 && w.(0) = "RESOLVE" then do_resolve w
      else if Array.length w > 0 then begin
        let p = ref 1 in
        let next () = let s = w.(!p) in Stdlib.incr p; s in
        let ni () = int_of_string (next ()) in
        let nn () = nat_of_int (ni ()) in
        let nb () = ni () <> 0 in
        let lagged = nb () in
        let fuel = nn () in
        let opname = next () in
        let tabs = if lagged then gen_tables_lagged else gen_tables in
        let args = ref [] in
        while w.(!p) <> "ST" do args := ni () :: !args done;
        Stdlib.incr p;
        let a = Array.of_list (List.rev !args) in
        let nobj = ni () in
        let st = List.init nobj (fun _ ->
            let cls = nn () in let nf = ni () in
            let fs = List.init nf (fun _ ->
                let av = nb () in let en = nb () in let rc = z_of_int (ni ()) in
                let na = ni () in let alts = List.init na (fun _ -> nn ()) in
                { fs_avail = av; fs_enabled = en; fs_rc = rc; fs_alt = alts }) in
            let nch = ni () in let ch = List.init nch (fun _ -> nn ()) in
            let npa = ni () in let pa = List.init npa (fun _ -> nn ()) in
            { o_class = cls; o_fs = fs; o_children = ch; o_parents = pa }) in
        let n i = nat_of_int a.(i) in
        let b i = a.(i) <> 0 in
        let wrap (r : state option) = match r with None -> None | Some s -> Some (true, s) in
        let r =
          match opname with
          | "enable" -> run_op tabs fuel (OpEnable (n 0, n 1, b 2, b 3, b 4)) st
          | "disable" -> run_op tabs fuel (OpDisable (n 0, n 1)) st
          | "decr" -> run_op tabs fuel (OpDecr (n 0, n 1)) st
          | "free" -> run_op tabs fuel (OpFree (n 0)) st
          | "restore" -> run_op tabs fuel (OpRestore (n 0)) st
          | "deletebias" -> wrap (delete_bias tabs fuel (n 0) st)
          | "addchild" -> wrap (add_child tabs fuel (n 0) (n 1) st)
          | _ -> None in
        (match r with
         | None -> print_string "FUEL\n"
         | Some (ok, st') -> Printf.printf "%d %s\n" (if ok then 0 else 1) (print_state st'))
      end
    done
  with End_of_file -> ()
