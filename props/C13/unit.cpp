// C13 unit driver: the engine simulator plus read-only dumps of the dependency machinery
// (static feature tables; per-object feature_states / children / parents; atoms_refcount) and
// direct calls of the real colvardeps primitives on a chosen (object, feature).
//   dumptables                          -> TABLE/FEAT lines
//   dumpdeps                            -> DEPS / OBJ / FS / ATOMS / ENDDEPS lines
//   depsop <obj> enable <fid> <dry> <toplevel> <error> | disable <fid> | decr <fid> | free | restore
#include <cstdio>
#include <cstdlib>
#include <cstring>
#include <cmath>
#include <iostream>
#include <fstream>
#include <sstream>
#include <string>
#include <vector>
#include <map>
#include <set>
#include <list>
#include <memory>
#include <algorithm>
#include <functional>
#include <thread>
#include <mutex>
#include <iosfwd>
#include <iomanip>
#include <typeinfo>
#include <type_traits>
#include <limits>
#include <cstdint>
#include <unordered_map>
#include <unordered_set>
#include <array>
#include <omp.h>
#define private public
#define protected public
#include "vsim.h"
#include "colvarcomp.h"
#undef private
#undef protected

struct c13_session : public vsim_session {
  c13_session(std::ostream *o) : vsim_session(o) {}

  static int class_of(colvardeps *d)
  {
    if (dynamic_cast<colvarbias *>(d)) return 0;
    if (dynamic_cast<colvar *>(d)) return 1;
    if (dynamic_cast<colvar::cvc *>(d)) return 2;
    if (dynamic_cast<cvm::atom_group *>(d)) return 3;
    return -1;
  }

  // canonical numbering: variables (module order) with their subtrees depth-first, then biases (module order):
  // deleting a bias removes one number and shifts only bias numbers
  std::vector<colvardeps *> objects()
  {
    std::vector<colvardeps *> objs;
    std::set<colvardeps *> seen;
    std::function<void(colvardeps *)> visit = [&](colvardeps *d) {
      if (seen.count(d)) return;
      seen.insert(d);
      objs.push_back(d);
      for (colvardeps *c : d->children) visit(c);
    };
    colvarmodule *cv = proxy->colvars;
    for (colvar *c : *(cv->variables())) visit(c);
    for (colvarbias *b : cv->biases) visit(b);
    return objs;
  }

  static std::string nospace(std::string s)
  {
    for (auto &ch : s) if (ch == ' ' || ch == '\n' || ch == '\t') ch = '_';
    return s;
  }

  void dump_table(int cls, std::vector<colvardeps::feature *> const &t)
  {
    std::ostream &o = *out;
    o << "TABLE " << cls << " " << t.size() << "\n";
    for (size_t i = 0; i < t.size(); i++) {
      colvardeps::feature *f = t[i];
      o << "FEAT " << cls << " " << i << " " << int(f->type);
      o << " S " << f->requires_self.size();
      for (int g : f->requires_self) o << " " << g;
      o << " X " << f->requires_exclude.size();
      for (int g : f->requires_exclude) o << " " << g;
      o << " A " << f->requires_alt.size();
      for (auto &alt : f->requires_alt) { o << " " << alt.size(); for (int g : alt) o << " " << g; }
      o << " C " << f->requires_children.size();
      for (int g : f->requires_children) o << " " << g;
      o << " D " << nospace(f->description) << "\n";
    }
  }

  void dump_deps()
  {
    std::ostream &o = *out;
    std::vector<colvardeps *> objs = objects();
    std::map<colvardeps *, int> id;
    for (size_t i = 0; i < objs.size(); i++) id[objs[i]] = i;
    o << "DEPS " << objs.size() << "\n";
    for (size_t i = 0; i < objs.size(); i++) {
      colvardeps *d = objs[i];
      o << "OBJ " << i << " " << class_of(d) << " " << d->feature_states.size();
      o << " CH " << d->children.size();
      for (colvardeps *c : d->children) o << " " << (id.count(c) ? id[c] : -1);
      o << " PA " << d->parents.size();
      for (colvardeps *c : d->parents) o << " " << (id.count(c) ? id[c] : -1);
      o << " D " << nospace(d->description) << "\n";
      for (size_t f = 0; f < d->feature_states.size(); f++) {
        colvardeps::feature_state &fs = d->feature_states[f];
        o << "FS " << i << " " << f << " " << (fs.available ? 1 : 0) << " " << (fs.enabled ? 1 : 0) << " " << fs.ref_count
          << " " << fs.alternate_refs.size();
        for (int g : fs.alternate_refs) o << " " << g;
        o << "\n";
      }
    }
    // atoms held by each atom group (and by its fitting group): "AG <obj> n id.. FIT m id.." (1-based atom numbers)
    for (size_t i = 0; i < objs.size(); i++) {
      cvm::atom_group *g = dynamic_cast<cvm::atom_group *>(objs[i]);
      if (!g) continue;
      o << "AG " << i << " " << g->atoms.size();
      for (size_t k = 0; k < g->atoms.size(); k++) o << " " << (g->atoms[k].id + 1);
      cvm::atom_group *fg = g->fitting_group;
      o << " FIT " << (fg ? fg->atoms.size() : 0);
      if (fg) for (size_t k = 0; k < fg->atoms.size(); k++) o << " " << (fg->atoms[k].id + 1);
      o << "\n";
    }
    // back-references kept outside colvardeps: the biases each variable lists, the variables each bias lists
    {
      colvarmodule *cv = proxy->colvars;
      for (colvar *c : *(cv->variables())) {
        o << "CVB " << id[c] << " " << c->biases.size();
        for (colvarbias *b : c->biases) o << " " << (id.count(b) ? id[b] : -1);
        o << "\n";
      }
      for (colvarbias *b : cv->biases) {
        o << "BCV " << id[b] << " " << b->variables()->size();
        for (colvar *c : *(b->variables())) o << " " << (id.count(c) ? id[c] : -1);
        o << "\n";
      }
    }
    // engine-side request of total forces (a single flag, set as a side effect of enabling total_force_calculation)
    o << "ENGINE tfreq " << (proxy->total_forces_enabled() ? 1 : 0) << "\n";
    // engine-side atom reference counts (sorted by atom id)
    std::vector<std::pair<int, int> > at;
    for (size_t i = 0; i < proxy->atoms_ids.size(); i++) at.push_back(std::make_pair(proxy->atoms_ids[i], int(proxy->atoms_refcount[i])));
    std::sort(at.begin(), at.end());
    o << "ATOMS " << at.size();
    for (auto &p : at) o << " " << (p.first + 1) << ":" << p.second;
    o << "\n";
    o << "ENDDEPS\n";
  }

  bool exec_extra(std::string const &cmd, std::vector<std::string> const &a, std::istream &) override
  {
    std::ostream &o = *out;
    if (cmd == "dumptables") {
      dump_table(0, colvarbias::cvb_features);
      dump_table(1, colvar::cv_features);
      dump_table(2, colvar::cvc::cvc_features);
      dump_table(3, cvm::atom_group::ag_features);
      o << "ENDTABLES samestep=" << (proxy->total_forces_same_step() ? 1 : 0) << "\n";
      return true;
    }
    if (cmd == "dumpdeps") { dump_deps(); return true; }
    if (cmd == "scriptset") {
      // scriptset colvar|bias <name> <fid> <0|1>: the script command "cv colvar <name> set <feature> <value>"
      // with the feature named by its number (descriptions contain blanks)
      colvardeps *d = NULL;
      if (a[0] == "colvar") d = cvm::colvar_by_name(a[1]); else d = cvm::bias_by_name(a[1]);
      int fid = atoi(a[2].c_str());
      if (!d || fid < 0 || fid >= int(d->features().size())) { o << "SCRIPT err=error result=noobject\n"; return true; }
      std::vector<std::string> words;
      words.push_back("cv"); words.push_back(a[0]); words.push_back(a[1]); words.push_back("set");
      words.push_back(d->features()[fid]->description); words.push_back(a[3]);
      std::vector<unsigned char *> argv;
      for (auto &s : words) argv.push_back((unsigned char *) s.c_str());
      cvm::clear_error();
      int err = run_colvarscript_command(argv.size(), argv.data());
      std::string res = get_colvarscript_result();
      std::replace(res.begin(), res.end(), '\n', ' ');
      o << "SCRIPT err=" << (err == COLVARS_OK ? "ok" : "error") << " result=" << res << "\n";
      cvm::clear_error();
      return true;
    }
    if (cmd == "depsop") {
      std::vector<colvardeps *> objs = objects();
      int oi = atoi(a[0].c_str());
      if (oi < 0 || oi >= int(objs.size())) { o << "DEPSOP noobject\n"; return true; }
      colvardeps *d = objs[oi];
      std::string op = a[1];
      int res = 0;
      cvm::clear_error();
      if (op == "enable") {
        int fid = atoi(a[2].c_str());
        bool dry = a.size() > 3 && atoi(a[3].c_str()) != 0;
        bool top = a.size() > 4 ? atoi(a[4].c_str()) != 0 : true;
        bool err = a.size() > 5 && atoi(a[5].c_str()) != 0;
        res = d->enable(fid, dry, top, err);
      } else if (op == "disable") {
        res = d->disable(atoi(a[2].c_str()));
      } else if (op == "decr") {
        res = d->decr_ref_count(atoi(a[2].c_str()));
      } else if (op == "free") {
        d->free_children_deps();
      } else if (op == "restore") {
        d->restore_children_deps();
      } else {
        o << "DEPSOP unknown\n"; return true;
      }
      cvm::clear_error();
      o << "DEPSOP res=" << (res == COLVARS_OK ? 0 : 1) << "\n";
      return true;
    }
    return false;
  }
};

int main(int argc, char **argv)
{
  c13_session s(&std::cout);
  if (argc > 1 && std::string(argv[1]) != "-") {
    std::ifstream f(argv[1]);
    if (!f) { std::cerr << "cannot open " << argv[1] << "\n"; return 2; }
    s.run(f);
  } else {
    s.run(std::cin);
  }
  std::cout.flush();
  return 0;
}
