(* C20 model driver (stateful).  Words of a command line are separated by '\x1f'.  Input lines:
     T name min max            add a table entry
     S clear | S cv n | S bias n c1 c2 .. | S nharm k    set the model state (object sets, number of harmonic blocks read so far)
     P text\x1fdecl\x1fdecl..  register what a configuration text defines; decl = "cv n" | "bias n c1 c2 .." ; n = "-": a block without `name`
     P text\x1fnone            the text is not parseable (default for unregistered texts)
     F name\x1ftext            contents of a configuration file
     E w1\x1fw2...             one script call (exec): prints "<outcome> <bodyclass> | cvs | biases"
     C text                    engine-side configuration (do_event EConfig)
     X [0|1]                   a step (0: it returned an error) with the observation registered by the preceding O lines
     W                         table_wf and state_wf
     K name                    entry_class / is_pseudo / the witness command line of a table entry
     N scripted after|e..|b..  one step of the energy bookkeeping (EnergyModel.v)
     G id:x:y:z id:x:y:z|...   groups ('|' between groups) of (atom id, contribution as three hex floats) in listing order:
                               prints "ids i1 i2 .. | x y z x y z .." = build_ids and collect_groups (float addition, listing order) *)
open Model

let rec coq_string_of (s : Stdlib.String.t) (i : int) : Model.string =
  if i >= Stdlib.String.length s then EmptyString
  else
    let c = Char.code s.[i] in
    let b k = (c lsr k) land 1 = 1 in
    String (Ascii (b 0, b 1, b 2, b 3, b 4, b 5, b 6, b 7), coq_string_of s (i + 1))
let cs s = coq_string_of s 0
let rec ocaml_string_of (s : Model.string) : Stdlib.String.t =
  let buf = Buffer.create 16 in
  let rec go s = match s with
    | EmptyString -> ()
    | String (Ascii (b0, b1, b2, b3, b4, b5, b6, b7), r) ->
      let v = List.fold_left (fun acc (b, k) -> if b then acc lor (1 lsl k) else acc) 0
          [(b0, 0); (b1, 1); (b2, 2); (b3, 3); (b4, 4); (b5, 5); (b6, 6); (b7, 7)] in
      Buffer.add_char buf (Char.chr v); go r in
  go s; Buffer.contents buf

let rec pos_of_int n = if n <= 1 then XH else if n land 1 = 0 then XO (pos_of_int (n lsr 1)) else XI (pos_of_int (n lsr 1))
let z_of_int n = if n = 0 then Z0 else if n > 0 then Zpos (pos_of_int n) else Zneg (pos_of_int (- n))

let rec int_of_pos p = match p with XH -> 1 | XO q -> 2 * int_of_pos q | XI q -> 2 * int_of_pos q + 1
let int_of_z z = match z with Z0 -> 0 | Zpos p -> int_of_pos p | Zneg p -> - (int_of_pos p)

let split_us s = Stdlib.String.split_on_char '\x1f' s
let words_of rest = if rest = "\x00" then [] else List.map cs (split_us rest)

let parse_tbl : (Stdlib.String.t, decl list option) Hashtbl.t = Hashtbl.create 16
let file_tbl : (Stdlib.String.t, Stdlib.String.t) Hashtbl.t = Hashtbl.create 16
let parse_conf (t : Model.string) = match Hashtbl.find_opt parse_tbl (ocaml_string_of t) with Some r -> r | None -> None
let read_file (t : Model.string) = match Hashtbl.find_opt file_tbl (ocaml_string_of t) with Some r -> Some (cs r) | None -> None

let decl_of (s : Stdlib.String.t) : decl =
  match Stdlib.String.split_on_char ' ' s with
  | "cv" :: [n] -> DCv (if n = "-" then None else Some (cs n))
  | "bias" :: n :: l -> DBias ((if n = "-" then None else Some (cs n)), List.map cs l)
  | _ -> failwith ("bad decl " ^ s)

let show_state st =
  Stdlib.String.concat " " (List.map ocaml_string_of st.st_cvs) ^ " | " ^
  Stdlib.String.concat " " (List.map (fun (n, l) -> ocaml_string_of n ^ ":" ^ Stdlib.String.concat "," (List.map ocaml_string_of l)) st.st_biases)

let show_outcome o = match o with
  | Run (_, ((n, _), _), ex) -> Printf.sprintf "run %s %b" (ocaml_string_of n) ex
  | ErrNoCommand -> "error nocommand"
  | ErrMissingParams -> "error missingparams"
  | ErrObjectNotFound -> "error notfound"
  | ErrSyntax -> "error syntax"
  | ErrTooFewArgs _ -> "error toofew"
  | ErrTooManyArgs _ -> "error toomany"

let fl s = float_of_string s
let toks s = List.filter (fun w -> w <> "") (Stdlib.String.split_on_char ' ' s)
let rec triples l = match l with a :: b :: c :: r -> ((fl a, fl b), fl c) :: triples r | _ -> []
let show_vec ((x, y), z) = Printf.sprintf "%h %h %h" x y z
let show_q (q : float qresult) = match q with
  | QErr -> "qerr" | QOk -> "qok"
  | QReal x -> Printf.sprintf "real %h" x | QReal6 x -> Printf.sprintf "real6 %h" x
  | QInt z -> Printf.sprintf "int %d" (int_of_z z)
  | QInts l -> "ints " ^ Stdlib.String.concat " " (List.map (fun z -> string_of_int (int_of_z z)) l)
  | QVecs l -> "vecs " ^ Stdlib.String.concat " " (List.map show_vec l)
  | QReals6 l -> "reals6 " ^ Stdlib.String.concat " " (List.map (Printf.sprintf "%h") l)
  | QNames l -> "names " ^ Stdlib.String.concat " " (List.map ocaml_string_of l)

let () =
  let tbl = ref [] and st = ref { st_cvs = []; st_biases = []; st_nharm = O } in
  let sem : float sem ref = ref { sm_objs = !st; sm_cv = []; sm_bias = []; sm_mod = None } in
  let ob_mod = ref None and ob_cv = ref [] and ob_bias = ref [] and ob_feat = ref [] in
  let sync_objs () = sem := resync { sm_objs = !st; sm_cv = []; sm_bias = []; sm_mod = None } !st in
  try
    while true do
      let line = input_line stdin in
      let n = Stdlib.String.length line in
      let rest = if n >= 2 then Stdlib.String.sub line 2 (n - 2) else "" in
      if n = 0 then print_endline "?" else
      match line.[0] with
      | 'T' ->
        (match Stdlib.String.split_on_char ' ' rest with
         | [n; a; b] -> tbl := !tbl @ [((cs n, z_of_int (int_of_string a)), z_of_int (int_of_string b))]; print_endline "ok"
         | _ -> print_endline "?")
      | 'S' ->
        (match Stdlib.String.split_on_char ' ' rest with
         | ["clear"] -> st := { st_cvs = []; st_biases = []; st_nharm = O }; sync_objs (); print_endline "ok"
         | ["nharm"; k] -> let rec nat_of i = if i <= 0 then O else S (nat_of (i - 1)) in
           st := { !st with st_nharm = nat_of (int_of_string k) }; sync_objs (); print_endline "ok"
         | ["cv"; n] -> st := { !st with st_cvs = !st.st_cvs @ [cs n] }; sync_objs (); print_endline "ok"
         | "bias" :: n :: l -> st := { !st with st_biases = !st.st_biases @ [(cs n, List.map cs l)] }; sync_objs (); print_endline "ok"
         | _ -> print_endline "?")
      | 'P' ->
        (match split_us rest with
         | [t; "none"] -> Hashtbl.replace parse_tbl t None; print_endline "ok"
         | t :: ds -> Hashtbl.replace parse_tbl t (Some (List.map decl_of (List.filter (fun d -> d <> "") ds))); print_endline "ok"
         | _ -> print_endline "?")
      | 'F' ->
        (match split_us rest with
         | [f; t] -> Hashtbl.replace file_tbl f t; print_endline "ok"
         | _ -> print_endline "?")
      | 'E' ->
        let words = words_of rest in
        let ((_, o), c) = exec !tbl parse_conf read_file !st words in
        let ((sem', o'), q) = exec_sem !tbl parse_conf read_file !sem words in
        sem := sem'; st := sem'.sm_objs;
        if show_outcome o <> show_outcome o' then print_string "MODEL-INCONSISTENT ";
        Printf.printf "%s %s | %s | %s\n" (show_outcome o) (match c with BOk -> "ok" | BErr -> "err" | BUnknown -> "unk") (show_state !st) (show_q q)
      | 'C' ->
        sem := do_sevent !tbl parse_conf read_file !sem (SConfig (cs rest)); st := !sem.sm_objs;
        Printf.printf "config | %s\n" (show_state !st)
      | 'X' ->
        (* a step; the observation registered by the preceding O lines (none: nothing is known afterwards) *)
        let md = match !ob_mod with Some m -> m | None ->
          { md_step = Z0; md_energy = nan; md_ids = []; md_masses = []; md_charges = []; md_pos = []; md_af = []; md_tf = []; md_feat = [] } in
        let md = { md with md_feat = !ob_feat } in
        let had = !ob_mod <> None in
        sem := do_sevent !tbl parse_conf read_file !sem (SStep { ob_ok = (rest <> "0"); ob_mod = md; ob_cv = !ob_cv; ob_bias = !ob_bias });
        if not had then sem := { !sem with sm_mod = None };
        (* what the model says about the components after the step: flags, and the value as the sum over the enabled ones *)
        let comp = List.filter_map (fun (n, (c : float cvsem)) ->
            match c.cs_cvcs, c.cs_data with
            (* only for a variable that was computed at this step: the value of an inactive variable is whatever it was (possibly read
               back from a state file with the precision of the text), not the sum of its components *)
            | Some fl_, Some d when d.cd_active && List.length fl_ = List.length d.cd_contrib ->
              Some (Printf.sprintf "%s:%s:%s:%h" (ocaml_string_of n)
                      (Stdlib.String.concat "" (List.map (fun b -> if b then "1" else "0") fl_))
                      (match c.cs_pending with None -> "-" | Some p -> Stdlib.String.concat "" (List.map (fun b -> if b then "1" else "0") p))
                      (combine (fun a b -> a +. b) 0.0 d.cd_contrib fl_))
            | _ -> None) !sem.sm_cv in
        ob_mod := None; ob_cv := []; ob_bias := []; ob_feat := [];
        Printf.printf "step | %s | %s\n" (show_state !st) (Stdlib.String.concat " " comp)
      | 'O' when n > 2 && line.[2] = 'F' ->
        (* OF key\x1fdescription\x1favailable\x1fenabled\x1f... *)
        (match split_us (Stdlib.String.sub line 4 (n - 4)) with
         | key :: l ->
           let rec trip l = match l with d :: a :: e :: r -> (cs d, (a = "1", e = "1")) :: trip r | _ -> [] in
           ob_feat := !ob_feat @ [(cs key, trip l)]; print_endline "ok"
         | _ -> print_endline "?")
      | 'O' ->
        (* OM step energy | ids | masses | charges | pos | af | tf     OV name value af tf active | atoms | grads | component flags | contributions     OB name energy *)
        (match Stdlib.String.split_on_char '|' rest with
         | hd :: parts ->
           (match toks hd, parts with
            | ["M"; step; en], [ids; ms; ch; pos; af; tf] ->
              ob_mod := Some { md_step = z_of_int (int_of_string step); md_energy = fl en;
                               md_ids = List.map (fun t -> z_of_int (int_of_string t)) (toks ids);
                               md_masses = List.map fl (toks ms); md_charges = List.map fl (toks ch);
                               md_pos = triples (toks pos); md_af = triples (toks af); md_tf = triples (toks tf); md_feat = [] };
              print_endline "ok"
            | ["V"; n; v; af; tf; act], [atoms; grads; flags; contrib] ->
              ob_cv := !ob_cv @ [(cs n, { cd_value = fl v; cd_af = fl af; cd_tf = fl tf; cd_active = (act = "1");
                                          cd_atoms = List.map (fun t -> z_of_int (int_of_string t)) (toks atoms); cd_grads = triples (toks grads);
                                          cd_cvcs = List.map (fun t -> t = "1") (toks flags); cd_contrib = List.map fl (toks contrib) })];
              print_endline "ok"
            | ["B"; n; en], [] -> ob_bias := !ob_bias @ [(cs n, fl en)]; print_endline "ok"
            | _ -> print_endline "?")
         | _ -> print_endline "?")
      | 'W' -> Printf.printf "wf table=%b state=%b\n" (table_wf !tbl) (state_wf !st)
      | 'K' ->
        (match lookup !tbl (cs rest) with
         | None -> print_endline "noentry"
         | Some e ->
           (match entry_class e with
            | None -> print_endline "noclass"
            | Some (k, sub) ->
              let kind = (match k with OModule -> "module" | OColvar -> "colvar" | OBias -> "bias") in
              let w = witness_words k sub (cs "\x01NAME") e in
              Printf.printf "class %s %s pseudo=%b witness=%s\n" kind (ocaml_string_of sub) (is_pseudo e)
                (Stdlib.String.concat "\x1f" (List.map ocaml_string_of w))))
      | 'N' ->
        (* N scripted after | e1 e2 .. (cv addenergy values of the force script) | b1 b2 .. (energies of the force-applying biases): what the
           engine is given and what the module holds after the step (float addition in the order of the code) *)
        (match Stdlib.String.split_on_char '|' rest with
         | [hd; sc; bs] ->
           (match toks hd with
            | [scr; aft] ->
              let st' = energy_step (fun a b -> a +. b) 0.0 (scr = "1") (aft = "1") (List.map fl (toks sc)) (List.map fl (toks bs))
                  { es_total = nan; es_sent = None } in
              Printf.printf "energy sent=%s total=%h\n" (match st'.es_sent with Some x -> Printf.sprintf "%h" x | None -> "none") st'.es_total
            | _ -> print_endline "?")
         | _ -> print_endline "?")
      | 'G' ->
        let parse_entry e = match Stdlib.String.split_on_char ':' e with
          | [i; x; y; z] -> (z_of_int (int_of_string i), (float_of_string x, float_of_string y, float_of_string z))
          | _ -> failwith ("bad entry " ^ e) in
        let grps = List.map (fun g -> List.map parse_entry (List.filter (fun w -> w <> "") (Stdlib.String.split_on_char ' ' g)))
            (Stdlib.String.split_on_char '|' rest) in
        let ids = build_ids (List.map (List.map fst) grps) in
        let add (a, b, c) (d, e, f) = (a +. d, b +. e, c +. f) in
        let res = collect_groups add ids (List.map (fun _ -> (0., 0., 0.)) ids) grps in
        Printf.printf "ids %s | %s increasing=%b\n" (Stdlib.String.concat " " (List.map (fun i -> string_of_int (int_of_z i)) ids))
          (Stdlib.String.concat " " (List.map (fun (x, y, z) -> Printf.sprintf "%h %h %h" x y z) res)) (increasing ids)
      | _ -> print_endline "?"
    done
  with End_of_file -> ()
