(* C20 model driver.  Input lines:
     T name min max          add a table entry
     N cv|bias name          declare an object name (cleared by "N clear")
     D w1\x1fw2...           dispatch the word list; prints "error <kind>" or "run <function> <object_exists>" *)
open Model

let rec coq_string_of (s : Stdlib.String.t) (i : int) : Model.string =
  if i >= Stdlib.String.length s then EmptyString
  else
    let c = Char.code s.[i] in
    let b k = (c lsr k) land 1 = 1 in
    String (Ascii (b 0, b 1, b 2, b 3, b 4, b 5, b 6, b 7), coq_string_of s (i + 1))
let cs s = coq_string_of s 0
let rec ocaml_string_of (s : Model.string) : Stdlib.String.t =
  match s with
  | EmptyString -> ""
  | String (Ascii (b0, b1, b2, b3, b4, b5, b6, b7), r) ->
    let v = List.fold_left (fun acc (b, k) -> if b then acc lor (1 lsl k) else acc) 0
        [(b0, 0); (b1, 1); (b2, 2); (b3, 3); (b4, 4); (b5, 5); (b6, 6); (b7, 7)] in
    Stdlib.String.make 1 (Char.chr v) ^ ocaml_string_of r

let rec pos_of_int n = if n <= 1 then XH else if n land 1 = 0 then XO (pos_of_int (n lsr 1)) else XI (pos_of_int (n lsr 1))
let z_of_int n = if n = 0 then Z0 else if n > 0 then Zpos (pos_of_int n) else Zneg (pos_of_int (- n))

let () =
  let tbl = ref [] and cvs = ref [] and bs = ref [] in
  try
    while true do
      let line = input_line stdin in
      if Stdlib.String.length line >= 2 then begin
        let rest = Stdlib.String.sub line 2 (Stdlib.String.length line - 2) in
        match line.[0] with
        | 'T' ->
          (match Stdlib.String.split_on_char ' ' rest with
           | [n; a; b] -> tbl := !tbl @ [((cs n, z_of_int (int_of_string a)), z_of_int (int_of_string b))]; print_endline "ok"
           | _ -> print_endline "?")
        | 'N' ->
          (match Stdlib.String.split_on_char ' ' rest with
           | ["clear"] -> cvs := []; bs := []; print_endline "ok"
           | ["cv"; n] -> cvs := cs n :: !cvs; print_endline "ok"
           | ["bias"; n] -> bs := cs n :: !bs; print_endline "ok"
           | _ -> print_endline "?")
        | 'D' ->
          let words = if rest = "\x00" then [] else List.map cs (Stdlib.String.split_on_char '\x1f' rest) in
          (match dispatch !tbl !cvs !bs words with
           | Run (_, ((n, _), _), ex) -> Printf.printf "run %s %b\n" (ocaml_string_of n) ex
           | ErrNoCommand -> print_endline "error nocommand"
           | ErrMissingParams -> print_endline "error missingparams"
           | ErrObjectNotFound -> print_endline "error notfound"
           | ErrSyntax -> print_endline "error syntax"
           | ErrTooFewArgs _ -> print_endline "error toofew"
           | ErrTooManyArgs _ -> print_endline "error toomany")
        | _ -> print_endline "?"
      end else print_endline "?"
    done
  with End_of_file -> ()
