// C20 unit driver: engine simulator + commands to exercise the scripting interface through its C entry points
// (run_colvarscript_command / get_colvarscript_result, cvscript_n_commands / cvscript_command_names / n_args_min / n_args_max).
//   dumpscript            command table of the binary
//   scriptn w1\x1fw2...   run a script command given as a word list with explicit quoting: words are separated by '\x1f',
//                         '\x1e' inside a word stands for a newline; prints "SCRIPT err=ok|error result=<text>"
//   scriptfull ...        same, the result is printed untruncated
//   names                 names of the variables and biases the module holds
//   oncallback w1\x1f..   queue a script command that is run inside the scripted-forces callback of every later step
//   vecparse n text       cvm::vector1d<real>(n).from_simple_string(text)
//   objresults            the in-place (`obj`) variants of colvarscript::set_result_* vs the string result
//   semdump               the numbers the module / proxy hold now (SEMMOD / SEMCV / SEMBIAS lines, hex)
//   writefile F text      write text ('\x1e' = newline) to file F
//   gradgroups <cv>       what colvar::collect_cvc_gradients() is about to attribute: for every active component, every atom group
//                         (then its fitting group) the pairs (atom id, contribution) in LISTING order, and the arrays
//                         colvar::atom_ids / colvar::atomic_gradients as they are, all in hex floats
#include <cstdio>
#include <cstdlib>
#include <cstring>
#include <cmath>
#include <iostream>
#include <fstream>
#include <sstream>
#include <string>
#include <vector>
#include <map>
#include <algorithm>
#include <functional>
#include <thread>
#include <mutex>
#include <list>
#include <set>
#include <memory>
#include <iomanip>
#include <unordered_map>
#define private public
#define protected public
#include "vsim.h"
#include "colvarcomp.h"
#include "colvarscript_commands.h"

struct c20_session : public vsim_session {
  c20_session(std::ostream *o) : vsim_session(o) {}
  std::string current_line;
  std::vector<std::vector<std::string> > callback_cmds;

  static std::vector<std::string> split_words(std::string const &rest)
  {
    std::vector<std::string> words;
    size_t pos = 0;
    while (true) {
      size_t q = rest.find('\x1f', pos);
      if (q == std::string::npos) { words.push_back(rest.substr(pos)); break; }
      words.push_back(rest.substr(pos, q - pos));
      pos = q + 1;
    }
    for (auto &s : words) std::replace(s.begin(), s.end(), '\x1e', '\n');
    return words;
  }

  static int run_words(std::vector<std::string> &words, std::string &res)
  {
    std::vector<unsigned char *> argv;
    for (auto &s : words) argv.push_back((unsigned char *) s.c_str());
    int err = run_colvarscript_command(argv.size(), argv.data());
    char const *r = get_colvarscript_result();
    res = r ? r : "(null)";
    return err;
  }

  std::string rest_of_line(std::string const &cmd) const
  {
    size_t p = current_line.find(cmd);
    if (p == std::string::npos) return std::string("");
    p += cmd.size();
    if (p < current_line.size() && current_line[p] == ' ') p++;
    return p <= current_line.size() ? current_line.substr(p) : std::string("");
  }

  bool exec_extra(std::string const &cmd, std::vector<std::string> const &a, std::istream &is) override
  {
    std::ostream &o = *out;
    if (cmd == "dumpscript") {
      int n = cvscript_n_commands();
      char const **names = cvscript_command_names();
      o << "NCOMMANDS " << n << "\n";
      for (int i = 0; i < n; i++) {
        o << "COMMAND " << names[i] << " " << cvscript_command_n_args_min(names[i]) << " "
          << cvscript_command_n_args_max(names[i]) << "\n";
      }
      // the same entry points for a name that is not a command: NULL / -1 and an error, no crash
      {
        char const *bad = "cv_nosuchcommand";
        cvm::clear_error();
        bool const h = cvscript_command_help(bad) == NULL, rh = cvscript_command_rethelp(bad) == NULL, ah = cvscript_command_arghelp(bad, 0) == NULL,
          fh = cvscript_command_full_help(bad) == NULL;
        int const mn = cvscript_command_n_args_min(bad), mx = cvscript_command_n_args_max(bad);
        o << "UNKNOWNCMD null=" << (h && rh && ah && fh ? 1 : 0) << " min=" << mn << " max=" << mx << " error=" << (cvm::get_error() != COLVARS_OK ? 1 : 0) << "\n";
        cvm::clear_error();
      }
      // the documentation entry points of colvarscript_commands.cpp ('\x1f' between fields, '\x1e' for a newline)
      for (int i = 0; i < n; i++) {
        std::string t = std::string(cvscript_command_help(names[i])) + "\x1f" + cvscript_command_rethelp(names[i]) + "\x1f" +
          cvscript_command_full_help(names[i]);
        for (int a = 0; a < cvscript_command_n_args_max(names[i]); a++) t += std::string("\x1f") + cvscript_command_arghelp(names[i], a);
        std::replace(t.begin(), t.end(), '\n', '\x1e');
        o << "HELPTXT " << names[i] << " " << t << "\n";
      }
      return true;
    }
    if (cmd == "scriptn" || cmd == "scriptfull") {
      // the rest of the line split on \x1f (allows empty words and blanks inside words); no rest => zero words
      std::vector<std::string> words;
      if (current_line.size() > cmd.size()) words = split_words(rest_of_line(cmd));
      if (proxy) cvm::clear_error();
      std::string res;
      int err = run_words(words, res);
      std::replace(res.begin(), res.end(), '\n', ' ');
      if (cmd == "scriptn" && res.size() > 400) res = res.substr(0, 400);
      o << "SCRIPT err=" << (err == COLVARS_OK ? "ok" : "error") << " result=" << res << "\n";
      if (proxy) cvm::clear_error();
      return true;
    }
    if (cmd == "names") {
      o << "NAMES cv";
      for (colvar *c : *(proxy->colvars->variables())) o << " " << c->name;
      o << " bias";
      for (colvarbias *b : proxy->colvars->biases) o << " " << b->name;
      o << "\n";
      return true;
    }
    if (cmd == "oncallback") {
      callback_cmds.push_back(split_words(rest_of_line(cmd)));
      c20_session *self = this;
      proxy->force_callback = [self]() {
        for (auto &w : self->callback_cmds) {
          std::string res;
          std::vector<std::string> words(w);
          int err = run_words(words, res);
          std::replace(res.begin(), res.end(), '\n', ' ');
          (*self->out) << "CALLBACK err=" << (err == COLVARS_OK ? "ok" : "error") << " result=" << res << "\n";
        }
        return COLVARS_OK;
      };
      return true;
    }
    if (cmd == "gradgroups") {
      colvar *cv = cvm::colvar_by_name(a[0]);
      if (!cv) { o << "GRADGROUPS " << a[0] << " notfound\n"; return true; }
      o << "GRADGROUPS " << a[0] << " ids";
      for (int id : cv->atom_ids) o << " " << id;
      o << " grads";
      for (auto const &g : cv->atomic_gradients) o << " " << vs_hex(g.x) << " " << vs_hex(g.y) << " " << vs_hex(g.z);
      o << " groups";
      for (size_t i = 0; i < cv->cvcs.size(); i++) {
        colvar::cvc *c = cv->cvcs[i].get();
        if (!c->is_enabled()) continue;
        // the same expressions as cvc::collect_gradients; what is under test is the attribution to ids and the accumulation
        cvm::real coeff = c->sup_coeff * cvm::real(c->sup_np) * cvm::integer_power(c->value().real_value, c->sup_np - 1);
        for (size_t j = 0; j < c->atom_groups.size(); j++) {
          cvm::atom_group &ag = *(c->atom_groups[j]);
          o << " |";
          if (ag.is_enabled(colvardeps::f_ag_rotate)) {
            const auto rot_inv = ag.rot.inverse().matrix();
            for (size_t k = 0; k < ag.size(); k++) {
              cvm::rvector v = coeff * (rot_inv * ag[k].grad);
              o << " " << ag[k].id << ":" << vs_hex(v.x) << ":" << vs_hex(v.y) << ":" << vs_hex(v.z);
            }
          } else {
            for (size_t k = 0; k < ag.size(); k++) {
              cvm::rvector v = coeff * ag[k].grad;
              o << " " << ag[k].id << ":" << vs_hex(v.x) << ":" << vs_hex(v.y) << ":" << vs_hex(v.z);
            }
          }
          if (ag.is_enabled(colvardeps::f_ag_fitting_group) && ag.is_enabled(colvardeps::f_ag_fit_gradients)) {
            cvm::atom_group const &fg = *(ag.fitting_group);
            o << " |";
            for (size_t k = 0; k < fg.size(); k++) {
              cvm::rvector v = coeff * fg.fit_gradients[k];
              o << " " << fg[k].id << ":" << vs_hex(v.x) << ":" << vs_hex(v.y) << ":" << vs_hex(v.z);
            }
          }
        }
      }
      o << "\n";
      return true;
    }
    if (cmd == "vecparse") {
      // vector1d<real>::from_simple_string on a vector of exactly n elements (capacity n): the parser behind every vector-valued script argument
      size_t const n = atoi(a[0].c_str());
      std::string rest = rest_of_line(cmd);
      size_t sp = rest.find(' ');
      std::string text = sp == std::string::npos ? std::string("") : rest.substr(sp + 1);
      cvm::vector1d<cvm::real> v(n);
      for (size_t i = 0; i < n; i++) v[i] = -1.0 - double(i);
      // a sentinel right behind the last element (inside the capacity, so that this harness itself stays within its allocation):
      // the parser must not touch it
      v.data_array().reserve(n + 1);
      double const sentinel = -12345.678;
      double *raw = v.data_array().data();
      raw[n] = sentinel;
      int const rc = v.from_simple_string(text);
      bool const overrun = (v.data_array().data() != raw) || (raw[n] != sentinel);
      o << "VECPARSE n=" << n << " rc=" << (rc == COLVARS_OK ? "ok" : "error") << " size=" << v.size() << " overrun=" << (overrun ? 1 : 0)
        << " values=" << v.to_simple_string() << "\n";
      return true;
    }
    if (cmd == "objresults") {
      // the `obj` (in-place) variants of colvarscript::set_result_*: same characters as the string result?
      colvarscript *script = proxy->script;
      char buf[512];
      std::vector<int> vi; vi.push_back(3); vi.push_back(-1); vi.push_back(20);
      std::vector<long int> vl; vl.push_back(1234567890123L); vl.push_back(-5);
      std::vector<cvm::real> vr; vr.push_back(0.1); vr.push_back(-2.5e-7); vr.push_back(1e300);
      std::vector<cvm::rvector> vv; vv.push_back(cvm::rvector(0.1, 0.2, 0.3)); vv.push_back(cvm::rvector(-1, 1e-9, 3e8));
      colvarvalue cvs(0.123456789012345678);
      colvarvalue cvv(cvm::rvector(1.5, -2.5, 1.0 / 3.0), colvarvalue::type_3vector);
      std::vector<colvarvalue> vcv; vcv.push_back(cvs); vcv.push_back(colvarvalue(2.0));
      for (int t = 0; t < 11; t++) {
        std::memset(buf, '#', sizeof(buf)); buf[sizeof(buf) - 1] = 0;
        unsigned char *ob = reinterpret_cast<unsigned char *>(buf);
        cvm::clear_error();
        script->clear_str_result();
        char const *nm = "";
        #define BOTH(NAME, CALL_OBJ, CALL_STR) { nm = NAME; CALL_OBJ; std::string inplace(buf, std::find(buf, buf + sizeof(buf) - 1, '#')); \
          bool nul = false; size_t L = inplace.size(); if (L && inplace[L - 1] == 0) { nul = true; inplace.erase(L - 1); } \
          std::string after_obj = script->str_result(); script->clear_str_result(); CALL_STR; \
          o << "OBJ " << nm << " same=" << (inplace == script->str_result() ? 1 : 0) << " terminated=" << (nul ? 1 : 0) \
            << " strleft=" << after_obj.size() << " text=" << script->str_result() << "\n"; }
        switch (t) {
        case 0: BOTH("int", script->set_result_int(42, ob), script->set_result_int(42)); break;
        case 1: BOTH("int_vec", script->set_result_int_vec(vi, ob), script->set_result_int_vec(vi)); break;
        case 2: BOTH("long_int", script->set_result_long_int(-9876543210L, ob), script->set_result_long_int(-9876543210L)); break;
        case 3: BOTH("long_int_vec", script->set_result_long_int_vec(vl, ob), script->set_result_long_int_vec(vl)); break;
        case 4: BOTH("real", script->set_result_real(0.1, ob), script->set_result_real(0.1)); break;
        case 5: BOTH("real_vec", script->set_result_real_vec(vr, ob), script->set_result_real_vec(vr)); break;
        case 6: BOTH("rvector", script->set_result_rvector(vv[1], ob), script->set_result_rvector(vv[1])); break;
        case 7: BOTH("rvector_vec", script->set_result_rvector_vec(vv, ob), script->set_result_rvector_vec(vv)); break;
        case 8: BOTH("colvarvalue", script->set_result_colvarvalue(cvs, ob), script->set_result_colvarvalue(cvs)); break;
        case 9: BOTH("colvarvalue3", script->set_result_colvarvalue(cvv, ob), script->set_result_colvarvalue(cvv)); break;
        case 10: BOTH("colvarvalue_vec", script->set_result_colvarvalue_vec(vcv, ob), script->set_result_colvarvalue_vec(vcv)); break;
        }
        #undef BOTH
      }
      script->clear_str_result();
      return true;
    }
    if (cmd == "semdump") {
      // the numbers the module and the proxy hold right now, in hex: the observation that the semantic model is fed with
      colvarmodule *cv = proxy->colvars;
      o << "SEMMOD " << cvm::step_absolute() << " " << vs_hex(proxy->bias_energy) << " |";
      size_t const n = proxy->get_atom_ids()->size();
      for (size_t i = 0; i < n; i++) o << " " << (*proxy->get_atom_ids())[i];
      o << " |";
      for (size_t i = 0; i < n; i++) o << " " << vs_hex((*proxy->get_atom_masses())[i]);
      o << " |";
      for (size_t i = 0; i < n; i++) o << " " << vs_hex((*proxy->get_atom_charges())[i]);
      std::vector<cvm::rvector> const *arrs[3] = { proxy->get_atom_positions(), proxy->get_atom_applied_forces(), proxy->get_atom_total_forces() };
      for (int k = 0; k < 3; k++) {
        o << " |";
        for (size_t i = 0; i < n; i++) o << " " << vs_hex((*arrs[k])[i].x) << " " << vs_hex((*arrs[k])[i].y) << " " << vs_hex((*arrs[k])[i].z);
      }
      o << "\n";
      for (colvar *c : *(cv->variables())) {
        if (c->value().type() != colvarvalue::type_scalar) continue;
        o << "SEMCV " << c->name << " " << vs_hex(c->value().real_value) << " " << vs_hex(c->applied_force().real_value) << " "
          << vs_hex(c->total_force().real_value) << " " << (c->is_enabled(colvardeps::f_cv_active) ? 1 : 0) << " |";
        std::vector<int> ids;
        std::vector<std::vector<int> > lists = c->get_atom_lists();
        for (auto &l : lists) for (int id : l) ids.push_back(id);
        std::sort(ids.begin(), ids.end());
        ids.erase(std::unique(ids.begin(), ids.end()), ids.end());
        for (int id : ids) o << " " << id;
        o << " |";
        for (auto const &g : c->atomic_gradients) o << " " << vs_hex(g.x) << " " << vs_hex(g.y) << " " << vs_hex(g.z);
        o << " |";
        for (size_t i = 0; i < c->cvcs.size(); i++) o << " " << (c->cvcs[i]->is_enabled() ? 1 : 0);
        o << " |";
        for (size_t i = 0; i < c->cvcs.size(); i++) {
          // contribution of a component to a linear combination (colvar::collect_cvc_values): sup_coeff * value
          cvm::real const contrib = (c->cvcs[i]->value().type() == colvarvalue::type_scalar && c->cvcs[i]->sup_np == 1) ?
            c->cvcs[i]->sup_coeff * c->cvcs[i]->value().real_value : std::nan("");
          o << " " << vs_hex(contrib);
        }
        o << "\n";
      }
      for (colvarbias *b : cv->biases) o << "SEMBIAS " << b->name << " " << vs_hex(b->get_energy()) << "\n";
      // dependency state of every object as `get <feature>` must report it: description, available, enabled ('\x1f' separated)
      for (colvar *c : *(cv->variables())) {
        o << "SEMFEAT c:" << c->name;
        for (size_t i = 0; i < c->features().size(); i++)
          o << "\x1f" << c->features()[i]->description << "\x1f" << (c->is_available(i) ? 1 : 0) << "\x1f" << (c->is_enabled(i) ? 1 : 0);
        o << "\n";
      }
      for (colvarbias *b : cv->biases) {
        o << "SEMFEAT b:" << b->name;
        for (size_t i = 0; i < b->features().size(); i++)
          o << "\x1f" << b->features()[i]->description << "\x1f" << (b->is_available(i) ? 1 : 0) << "\x1f" << (b->is_enabled(i) ? 1 : 0);
        o << "\n";
      }
      o << "SEMEND\n";
      return true;
    }
    if (cmd == "writefile") {
      std::string rest = rest_of_line(cmd);
      size_t sp = rest.find(' ');
      std::string fn = rest.substr(0, sp);
      std::string text = sp == std::string::npos ? std::string("") : rest.substr(sp + 1);
      std::replace(text.begin(), text.end(), '\x1e', '\n');
      std::ofstream f(fn.c_str());
      f << text;
      return true;
    }
    return false;
  }
};

int main(int argc, char **argv)
{
  c20_session s(&std::cout);
  std::istream *in = &std::cin;
  std::ifstream f;
  if (argc > 1 && std::string(argv[1]) != "-") { f.open(argv[1]); in = &f; }
  std::string line;
  while (std::getline(*in, line)) {
    s.current_line = line;
    std::istringstream ls(line);
    std::string cmd;
    if (!(ls >> cmd) || cmd[0] == '#') continue;
    std::vector<std::string> a; std::string w;
    while (ls >> w) a.push_back(w);
    if (!s.exec(cmd, a, *in, line)) break;
    std::cout.flush();
  }
  return 0;
}
