// C20 unit driver: engine simulator + commands to exercise the scripting interface through its C entry points
// (run_colvarscript_command / get_colvarscript_result, cvscript_n_commands / cvscript_command_names / n_args_min / n_args_max).
//   dumpscript            command table of the binary
//   scriptn w1\x1fw2...   run a script command given as a word list with explicit quoting: words are separated by '\x1f',
//                         '\x1e' inside a word stands for a newline; prints "SCRIPT err=ok|error result=<text>"
//   scriptfull ...        same, the result is printed untruncated
//   names                 names of the variables and biases the module holds
//   oncallback w1\x1f..   queue a script command that is run inside the scripted-forces callback of every later step
//   writefile F text      write text ('\x1e' = newline) to file F
//   gradgroups <cv>       what colvar::collect_cvc_gradients() is about to attribute: for every active component, every atom group
//                         (then its fitting group) the pairs (atom id, contribution) in LISTING order, and the arrays
//                         colvar::atom_ids / colvar::atomic_gradients as they are, all in hex floats
#include <cstdio>
#include <cstdlib>
#include <cstring>
#include <cmath>
#include <iostream>
#include <fstream>
#include <sstream>
#include <string>
#include <vector>
#include <map>
#include <algorithm>
#include <functional>
#include <thread>
#include <mutex>
#include <list>
#include <set>
#include <memory>
#include <iomanip>
#include <unordered_map>
#define private public
#define protected public
#include "vsim.h"
#include "colvarcomp.h"
#include "colvarscript_commands.h"

struct c20_session : public vsim_session {
  c20_session(std::ostream *o) : vsim_session(o) {}
  std::string current_line;
  std::vector<std::vector<std::string> > callback_cmds;

  static std::vector<std::string> split_words(std::string const &rest)
  {
    std::vector<std::string> words;
    size_t pos = 0;
    while (true) {
      size_t q = rest.find('\x1f', pos);
      if (q == std::string::npos) { words.push_back(rest.substr(pos)); break; }
      words.push_back(rest.substr(pos, q - pos));
      pos = q + 1;
    }
    for (auto &s : words) std::replace(s.begin(), s.end(), '\x1e', '\n');
    return words;
  }

  static int run_words(std::vector<std::string> &words, std::string &res)
  {
    std::vector<unsigned char *> argv;
    for (auto &s : words) argv.push_back((unsigned char *) s.c_str());
    int err = run_colvarscript_command(argv.size(), argv.data());
    res = get_colvarscript_result();
    return err;
  }

  std::string rest_of_line(std::string const &cmd) const
  {
    size_t p = current_line.find(cmd);
    if (p == std::string::npos) return std::string("");
    p += cmd.size();
    if (p < current_line.size() && current_line[p] == ' ') p++;
    return p <= current_line.size() ? current_line.substr(p) : std::string("");
  }

  bool exec_extra(std::string const &cmd, std::vector<std::string> const &a, std::istream &is) override
  {
    std::ostream &o = *out;
    if (cmd == "dumpscript") {
      int n = cvscript_n_commands();
      char const **names = cvscript_command_names();
      o << "NCOMMANDS " << n << "\n";
      for (int i = 0; i < n; i++) {
        o << "COMMAND " << names[i] << " " << cvscript_command_n_args_min(names[i]) << " "
          << cvscript_command_n_args_max(names[i]) << "\n";
      }
      return true;
    }
    if (cmd == "scriptn" || cmd == "scriptfull") {
      // the rest of the line split on \x1f (allows empty words and blanks inside words); no rest => zero words
      std::vector<std::string> words;
      if (current_line.size() > cmd.size()) words = split_words(rest_of_line(cmd));
      cvm::clear_error();
      std::string res;
      int err = run_words(words, res);
      std::replace(res.begin(), res.end(), '\n', ' ');
      if (cmd == "scriptn" && res.size() > 400) res = res.substr(0, 400);
      o << "SCRIPT err=" << (err == COLVARS_OK ? "ok" : "error") << " result=" << res << "\n";
      cvm::clear_error();
      return true;
    }
    if (cmd == "names") {
      o << "NAMES cv";
      for (colvar *c : *(proxy->colvars->variables())) o << " " << c->name;
      o << " bias";
      for (colvarbias *b : proxy->colvars->biases) o << " " << b->name;
      o << "\n";
      return true;
    }
    if (cmd == "oncallback") {
      callback_cmds.push_back(split_words(rest_of_line(cmd)));
      c20_session *self = this;
      proxy->force_callback = [self]() {
        for (auto &w : self->callback_cmds) {
          std::string res;
          std::vector<std::string> words(w);
          int err = run_words(words, res);
          std::replace(res.begin(), res.end(), '\n', ' ');
          (*self->out) << "CALLBACK err=" << (err == COLVARS_OK ? "ok" : "error") << " result=" << res << "\n";
        }
        return COLVARS_OK;
      };
      return true;
    }
    if (cmd == "gradgroups") {
      colvar *cv = cvm::colvar_by_name(a[0]);
      if (!cv) { o << "GRADGROUPS " << a[0] << " notfound\n"; return true; }
      o << "GRADGROUPS " << a[0] << " ids";
      for (int id : cv->atom_ids) o << " " << id;
      o << " grads";
      for (auto const &g : cv->atomic_gradients) o << " " << vs_hex(g.x) << " " << vs_hex(g.y) << " " << vs_hex(g.z);
      o << " groups";
      for (size_t i = 0; i < cv->cvcs.size(); i++) {
        colvar::cvc *c = cv->cvcs[i].get();
        if (!c->is_enabled()) continue;
        // the same expressions as cvc::collect_gradients; what is under test is the attribution to ids and the accumulation
        cvm::real coeff = c->sup_coeff * cvm::real(c->sup_np) * cvm::integer_power(c->value().real_value, c->sup_np - 1);
        for (size_t j = 0; j < c->atom_groups.size(); j++) {
          cvm::atom_group &ag = *(c->atom_groups[j]);
          o << " |";
          if (ag.is_enabled(colvardeps::f_ag_rotate)) {
            const auto rot_inv = ag.rot.inverse().matrix();
            for (size_t k = 0; k < ag.size(); k++) {
              cvm::rvector v = coeff * (rot_inv * ag[k].grad);
              o << " " << ag[k].id << ":" << vs_hex(v.x) << ":" << vs_hex(v.y) << ":" << vs_hex(v.z);
            }
          } else {
            for (size_t k = 0; k < ag.size(); k++) {
              cvm::rvector v = coeff * ag[k].grad;
              o << " " << ag[k].id << ":" << vs_hex(v.x) << ":" << vs_hex(v.y) << ":" << vs_hex(v.z);
            }
          }
          if (ag.is_enabled(colvardeps::f_ag_fitting_group) && ag.is_enabled(colvardeps::f_ag_fit_gradients)) {
            cvm::atom_group const &fg = *(ag.fitting_group);
            o << " |";
            for (size_t k = 0; k < fg.size(); k++) {
              cvm::rvector v = coeff * fg.fit_gradients[k];
              o << " " << fg[k].id << ":" << vs_hex(v.x) << ":" << vs_hex(v.y) << ":" << vs_hex(v.z);
            }
          }
        }
      }
      o << "\n";
      return true;
    }
    if (cmd == "writefile") {
      std::string rest = rest_of_line(cmd);
      size_t sp = rest.find(' ');
      std::string fn = rest.substr(0, sp);
      std::string text = sp == std::string::npos ? std::string("") : rest.substr(sp + 1);
      std::replace(text.begin(), text.end(), '\x1e', '\n');
      std::ofstream f(fn.c_str());
      f << text;
      return true;
    }
    return false;
  }
};

int main(int argc, char **argv)
{
  c20_session s(&std::cout);
  std::istream *in = &std::cin;
  std::ifstream f;
  if (argc > 1 && std::string(argv[1]) != "-") { f.open(argv[1]); in = &f; }
  std::string line;
  while (std::getline(*in, line)) {
    s.current_line = line;
    std::istringstream ls(line);
    std::string cmd;
    if (!(ls >> cmd) || cmd[0] == '#') continue;
    std::vector<std::string> a; std::string w;
    while (ls >> w) a.push_back(w);
    if (!s.exec(cmd, a, *in, line)) break;
    std::cout.flush();
  }
  return 0;
}
