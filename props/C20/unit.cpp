// C20 unit driver: engine simulator + `dumpscript` (command table from the binary) and `scriptn` (run a
// script command given as a word list with explicit quoting: words are separated by '\x1f').
#include "vsim.h"
#include "colvarscript_commands.h"

struct c20_session : public vsim_session {
  c20_session(std::ostream *o) : vsim_session(o) {}
  bool exec_extra(std::string const &cmd, std::vector<std::string> const &a, std::istream &is) override
  {
    std::ostream &o = *out;
    if (cmd == "dumpscript") {
      int n = cvscript_n_commands();
      char const **names = cvscript_command_names();
      o << "NCOMMANDS " << n << "\n";
      for (int i = 0; i < n; i++) {
        o << "COMMAND " << names[i] << " " << cvscript_command_n_args_min(names[i]) << " "
          << cvscript_command_n_args_max(names[i]) << "\n";
      }
      return true;
    }
    if (cmd == "scriptn") {
      // the rest of the line after "scriptn " split on \x1f (allows empty words and blanks inside words)
      std::string rest = a.size() ? current_line.substr(current_line.find("scriptn") + 8) : std::string("");
      std::vector<std::string> words;
      size_t pos = 0;
      if (a.size()) {
        while (true) {
          size_t q = rest.find('\x1f', pos);
          if (q == std::string::npos) { words.push_back(rest.substr(pos)); break; }
          words.push_back(rest.substr(pos, q - pos));
          pos = q + 1;
        }
      }
      std::vector<unsigned char *> argv;
      for (auto &s : words) argv.push_back((unsigned char *) s.c_str());
      cvm::clear_error();
      int err = run_colvarscript_command(argv.size(), argv.data());
      std::string res = get_colvarscript_result();
      std::replace(res.begin(), res.end(), '\n', ' ');
      if (res.size() > 400) res = res.substr(0, 400);
      o << "SCRIPT err=" << (err == COLVARS_OK ? "ok" : "error") << " result=" << res << "\n";
      cvm::clear_error();
      return true;
    }
    if (cmd == "names") {
      o << "NAMES cv";
      for (colvar *c : *(proxy->colvars->variables())) o << " " << c->name;
      o << " bias";
      for (colvarbias *b : proxy->colvars->biases) o << " " << b->name;
      o << "\n";
      return true;
    }
    return false;
  }
  std::string current_line;
};

int main(int argc, char **argv)
{
  c20_session s(&std::cout);
  std::istream *in = &std::cin;
  std::ifstream f;
  if (argc > 1 && std::string(argv[1]) != "-") { f.open(argv[1]); in = &f; }
  std::string line;
  while (std::getline(*in, line)) {
    s.current_line = line;
    std::istringstream ls(line);
    std::string cmd;
    if (!(ls >> cmd) || cmd[0] == '#') continue;
    std::vector<std::string> a; std::string w;
    while (ls >> w) a.push_back(w);
    if (!s.exec(cmd, a, *in, line)) break;
    std::cout.flush();
  }
  return 0;
}
