// c07sim: the engine simulator (harness/vsim.h) plus the commands the C07 check needs:
//   applyback s [add]   engine force of every atom := s * (force Colvars applied to it at the last step)
//                       (+ the present engine force with "add"): lets a scenario hand Colvars' own forces
//                       back as the engine's total force in the same-step convention
//   hidej name          enable the feature hide_Jacobian_force of a variable, exactly as the ABF option
//                       hideJacobian does (colvarbias_abf.cpp: colvars[i]->enable(f_cv_hide_Jacobian))
//   rot name            print "ROT name i type q0 q1 q2 q3 jd nfit fit.." for every component of the variable: the optimal rotation
//                       quaternion of its first atom group and its Jacobian derivative (inputs of the model for rotated frames)
//   cvcflags name 1 0 ..   colvar::set_cvc_flags (script command cvcflags)
//   modcvc name c0 | c1 ..  colvar::update_cvc_config (script command modifycvcs): per-component configuration strings separated by |
//   fj                  print "FJ name <hex>" (Jacobian force kT*jd held by each variable) and
//                       "FOLD name <hex>" (f_old), read from the variable's private members
#include <cstdio>
#include <cstdlib>
#include <cstring>
#include <cmath>
#include <iostream>
#include <fstream>
#include <sstream>
#include <string>
#include <vector>
#include <list>
#include <map>
#include <set>
#include <algorithm>
#include <functional>
#include <memory>
#include <thread>
#include <mutex>
#define private public
#define protected public
#include "vsim.h"
#include "colvarcomp.h"

struct c07_session : public vsim_session {
  c07_session(std::ostream *o) : vsim_session(o) {}
  bool exec_extra(std::string const &cmd, std::vector<std::string> const &a, std::istream &) override
  {
    std::ostream &o = *out;
    if (cmd == "applyback") {
      double s = a.size() ? num(a[0]) : 1.0;
      bool add = a.size() > 1 && a[1] == "add";
      if (!add) for (int i = 0; i < eng.natoms; i++) eng.eforce[i] = cvm::rvector(0, 0, 0);
      for (size_t i = 0; i < proxy->get_atom_ids()->size(); i++) {
        if (proxy->refcount(i) == 0) continue;
        int aid = (*proxy->get_atom_ids())[i];
        eng.eforce[aid] += s * (*proxy->get_atom_applied_forces())[i];
      }
      return true;
    }
    if (cmd == "hidej") {
      // what colvarbias_abf does for its option hideJacobian: colvars[i]->enable(f_cv_hide_Jacobian)
      colvar *c = cvm::colvar_by_name(a[0]);
      int err = c ? c->enable(colvardeps::f_cv_hide_Jacobian) : COLVARS_ERROR;
      o << "HIDEJ err=" << vs_errclass(err | cvm::get_error()) << "\n";
      cvm::clear_error();
      return true;
    }
    if (cmd == "rot") {
      // rotation matrix of the first atom group and Jacobian derivative of every component of a variable
      colvar *c = cvm::colvar_by_name(a[0]);
      if (c) {
        for (size_t i = 0; i < c->cvcs.size(); i++) {
          cvm::quaternion const q = c->cvcs[i]->atom_groups.size() ? c->cvcs[i]->atom_groups[0]->rot.q : cvm::quaternion(1.0, 0.0, 0.0, 0.0);
          o << "ROT " << c->name << " " << i << " " << c->cvcs[i]->function_type();
          o << " " << vs_hex(q.q0) << " " << vs_hex(q.q1) << " " << vs_hex(q.q2) << " " << vs_hex(q.q3)
            << " " << vs_hex(c->cvcs[i]->Jacobian_derivative().real_value);
          // derivatives of the fit that the applied forces contain (when the group computes them)
          if (c->cvcs[i]->atom_groups.size() && c->cvcs[i]->atom_groups[0]->is_enabled(colvardeps::f_ag_fit_gradients)) {
            std::vector<cvm::atom_pos> const &fg = c->cvcs[i]->atom_groups[0]->fit_gradients;
            o << " " << fg.size();
            for (size_t k = 0; k < fg.size(); k++) o << " " << vs_hex(fg[k].x) << " " << vs_hex(fg[k].y) << " " << vs_hex(fg[k].z);
          } else {
            o << " 0";
          }
          o << "\n";
        }
      }
      return true;
    }
    if (cmd == "cvcflags") {
      // `cv colvar <name> cvcflags {1 0 ..}`: enable / disable components from the next evaluation on
      colvar *c = cvm::colvar_by_name(a[0]);
      std::vector<bool> flags;
      for (size_t k = 1; k < a.size(); k++) flags.push_back(atoi(a[k].c_str()) != 0);
      int err = c ? c->set_cvc_flags(flags) : COLVARS_ERROR;
      o << "CVCFLAGS err=" << vs_errclass(err | cvm::get_error()) << "\n";
      cvm::clear_error();
      return true;
    }
    if (cmd == "modcvc") {
      // what `cv colvar <name> modifycvcs {conf0} {conf1} ..` does (the scenario language has no quoting): the rest of the
      // line, split at '|', is the list of per-component configuration strings (empty = unchanged)
      colvar *c = cvm::colvar_by_name(a[0]);
      std::vector<std::string> confs(1, std::string());
      for (size_t k = 1; k < a.size(); k++) {
        if (a[k] == "|") { confs.push_back(std::string()); continue; }
        if (confs.back().size()) confs.back() += " ";
        confs.back() += a[k];
      }
      int err = c ? c->update_cvc_config(confs) : COLVARS_ERROR;
      o << "MODCVC err=" << vs_errclass(err | cvm::get_error()) << "\n";
      cvm::clear_error();
      return true;
    }
    if (cmd == "fj") {
      for (colvar *c : *(proxy->colvars->variables())) {
        o << "FJ " << c->name << " " << vs_hex(c->fj) << "\n";
        o << "FOLD " << c->name << " " << vs_hex(c->f_old) << "\n";
      }
      return true;
    }
    return false;
  }
};

int main(int argc, char **argv)
{
  c07_session s(&std::cout);
  if (argc > 1 && std::string(argv[1]) != "-") {
    std::ifstream f(argv[1]);
    if (!f) { std::cerr << "cannot open " << argv[1] << "\n"; return 2; }
    s.run(f);
  } else {
    s.run(std::cin);
  }
  std::cout.flush();
  return 0;
}
