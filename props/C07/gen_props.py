import re
M = "Rops PI cell mass"
stm = []   # (name, statement, proof in Proofs file, comment)
def T(name, st, pf, comment=""):
    stm.append((name, st.strip(), pf.strip(), comment))

FT = "cvc_ft Rops PI cell mass pos"
AP = "cvc_apply Rops PI cell mass pos"
# ---------------- inverse per component
T("inverse_distance", f"""forall (cell : option RV) (mass : nat -> R) (pos : RF) (g1 g2 : RG) (fc : R),
  gok mass g1 -> gok mass g2 -> disj g1 g2 ->
  {FT} (CDistance g1 g2 false) ({AP} (CDistance g1 g2 false) fc) = fc""", "exact inv_distance.",
  "distance, both groups measured: 0.5 (F2 - F1).u of the forces  -fc u (m/M1), +fc u (m/M2)  is fc, for every geometry\n   (rvector::unit() returns a unit vector even for coincident centres)")
T("inverse_distance_onesite", f"""forall (cell : option RV) (mass : nat -> R) (pos : RF) (g1 g2 : RG) (fc : R),
  gok mass g1 -> disj g1 g2 ->
  {FT} (CDistance g1 g2 true) ({AP} (CDistance g1 g2 true) fc) = fc""", "exact inv_distance_onesite.",
  "oneSiteTotalForce: only group1 is measured; group2 may be a dummy atom")
T("inverse_distanceZ", f"""forall (cell : option RV) (mass : nat -> R) (pos : RF) (gm gr : RG) (axis : RV) (fc : R),
  gok mass gm -> gok mass gr -> disj gm gr -> vdot Rops axis axis = 1 ->
  {FT} (CDistanceZ gm gr None axis false) ({AP} (CDistanceZ gm gr None axis false) fc) = fc""", "exact inv_distanceZ.",
  "distanceZ, fixed (normalised) axis")
T("inverse_distanceZ_onesite", f"""forall (cell : option RV) (mass : nat -> R) (pos : RF) (gm gr : RG) (axis : RV) (fc : R),
  gok mass gm -> disj gm gr -> vdot Rops axis axis = 1 ->
  {FT} (CDistanceZ gm gr None axis true) ({AP} (CDistanceZ gm gr None axis true) fc) = fc""", "exact inv_distanceZ_onesite.")
T("inverse_distanceZ_ref2", f"""forall (cell : option RV) (mass : nat -> R) (pos : RF) (gm gr g2 : RG) (axis : RV) (os : bool) (fc : R),
  gok mass gm -> disj gm gr -> disj gm g2 ->
  {FT} (CDistanceZ gm gr (Some g2) axis os) ({AP} (CDistanceZ gm gr (Some g2) axis os) fc) = fc""", "exact inv_distanceZ_ref2.",
  "distanceZ with the axis joining ref and ref2: only main is measured")
T("inverse_distanceXY", f"""forall (cell : option RV) (mass : nat -> R) (pos : RF) (gm gr : RG) (gr2 : option RG) (axis : RV) (os : bool) (fc : R),
  gok mass gm -> (gr2 = None -> os = false -> gok mass gr) -> disj gm gr ->
  (forall g2, gr2 = Some g2 -> disj gm g2) ->
  dxy_value Rops cell mass pos gm gr gr2 axis <> 0 ->
  {FT} (CDistanceXY gm gr gr2 axis os) ({AP} (CDistanceXY gm gr gr2 axis os) fc) = fc""", "exact inv_distanceXY_gen.",
  "distanceXY (fixed or two-point axis, one or two sites), away from the axis (documented singularity: value 0)")
T("inverse_angle", f"""forall (cell : option RV) (mass : nat -> R) (pos : RF) (g1 g2 g3 : RG) (fc : R),
  gok mass g1 -> gok mass g3 -> disj g1 g2 -> disj g1 g3 -> disj g3 g2 ->
  0 < vnorm2 Rops (ang_r21 Rops cell mass pos g1 g2) -> 0 < vnorm2 Rops (ang_r23 Rops cell mass pos g2 g3) ->
  ang_cos Rops cell mass pos g1 g2 g3 * ang_cos Rops cell mass pos g1 g2 g3 < 1 ->
  {FT} (CAngle g1 g2 g3 false) ({AP} (CAngle g1 g2 g3 false) fc) = fc""",
  """intros cell mass pos g1 g2 g3 fc H1 H3 D12 D13 D32 L1 L3 Hc.
  destruct (ang_guard cell mass pos g1 g2 g3 L1 L3 Hc) as [A B]. apply inv_angle; try assumption. lra.""",
  "angle, away from the documented singular geometries (coincident centres, collinear groups)")
T("inverse_angle_onesite", f"""forall (cell : option RV) (mass : nat -> R) (pos : RF) (g1 g2 g3 : RG) (fc : R),
  gok mass g1 -> disj g1 g2 -> disj g1 g3 ->
  0 < vnorm2 Rops (ang_r21 Rops cell mass pos g1 g2) -> 0 < vnorm2 Rops (ang_r23 Rops cell mass pos g2 g3) ->
  ang_cos Rops cell mass pos g1 g2 g3 * ang_cos Rops cell mass pos g1 g2 g3 < 1 ->
  {FT} (CAngle g1 g2 g3 true) ({AP} (CAngle g1 g2 g3 true) fc) = fc""",
  """intros cell mass pos g1 g2 g3 fc H1 D12 D13 L1 L3 Hc.
  destruct (ang_guard cell mass pos g1 g2 g3 L1 L3 Hc) as [A B]. apply inv_angle_onesite; try assumption. lra.""")
T("inverse_dihedral", f"""forall (cell : option RV) (mass : nat -> R) (pos : RF) (g1 g2 g3 g4 : RG) (fc : R),
  gok mass g1 -> gok mass g4 -> disj g1 g2 -> disj g1 g3 -> disj g1 g4 -> disj g4 g2 -> disj g4 g3 ->
  0 < vnorm2 Rops (vcross Rops (dih_r12 Rops cell mass pos g1 g2) (dih_r12 Rops cell mass pos g2 g3)) ->
  0 < vnorm2 Rops (vcross Rops (dih_r12 Rops cell mass pos g2 g3) (dih_r12 Rops cell mass pos g3 g4)) ->
  {FT} (CDihedral g1 g2 g3 g4 false) ({AP} (CDihedral g1 g2 g3 g4 false) fc) = fc""", "exact inv_dihedral.",
  "dihedral, groups 1 and 4 measured; r12 x r23 and r23 x r34 non-null (no three collinear centres)")
T("inverse_dihedral_onesite", f"""forall (cell : option RV) (mass : nat -> R) (pos : RF) (g1 g2 g3 g4 : RG) (fc : R),
  gok mass g1 -> disj g1 g2 -> disj g1 g3 -> disj g1 g4 ->
  0 < vnorm2 Rops (vcross Rops (dih_r12 Rops cell mass pos g1 g2) (dih_r12 Rops cell mass pos g2 g3)) ->
  {FT} (CDihedral g1 g2 g3 g4 true) ({AP} (CDihedral g1 g2 g3 g4 true) fc) = fc""", "exact inv_dihedral_onesite.")
T("inverse_gyration", f"""forall (cell : option RV) (mass : nat -> R) (pos : RF) (ids : list nat) (fc : R),
  NoDup ids -> gyr_value Rops pos ids <> 0 ->
  {FT} (CGyration ids) ({AP} (CGyration ids) fc) = fc""", "exact inv_gyration.")
T("inverse_rmsd", f"""forall (cell : option RV) (mass : nat -> R) (pos : RF) (ids : list nat) (refs : list RV) (extra : list (list RV)) (fc : R),
  NoDup ids -> (forall r, In r (refs :: extra) -> length r = length ids) ->
  rmsd_value Rops pos ids (rmsd_best Rops pos ids refs extra None) None <> 0 ->
  {FT} (CRmsd ids refs extra None) ({AP} (CRmsd ids refs extra None) fc) = fc""", "exact inv_rmsd.",
  "rmsd without rotation and without centring, with any number of permuted copies of the reference (atomPermutation): whichever copy is the\\n   closest, gradients and inverse gradients use the same one")
T("inverse_rmsd_centered", f"""forall (cell : option RV) (mass : nat -> R) (pos : RF) (ids : list nat) (refs : list RV) (extra : list (list RV)) (rc : RV) (fc : R),
  NoDup ids -> (forall r, In r (refs :: extra) -> length r = length ids) ->
  (let g := rmsd_grads Rops pos ids (rmsd_best Rops pos ids refs extra (Some rc)) (Some rc) in
   norm2_sum Rops (vadd_list Rops g (fit_grads Rops (length ids) (Some rc) g)) <> 0) ->
  {FT} (CRmsd ids refs extra (Some rc)) ({AP} (CRmsd ids refs extra (Some rc)) fc) = fc""", "exact inv_rmsd_centered.",
  "centred rmsd (fit gradients on; code with fix-C07-3): the total force is projected on the complete gradient grad + fit, normalised by its\\n   squared norm: the inverse holds wherever the group is centred (the earlier condition on the centre of its own references is gone)")
T("inverse_eigenvector", f"""forall (cell : option RV) (mass : nat -> R) (pos : RF) (ids : list nat) (refs evec : list RV) (center : option RV) (fc : R),
  NoDup ids -> length evec = length ids -> norm2_sum Rops (eig_vec Rops evec) <> 0 ->
  {FT} (CEigenvector ids refs evec center) ({AP} (CEigenvector ids refs evec center) fc) = fc""", "exact inv_eigenvector.",
  "eigenvector without rotation (any centring): the centred vector must not be null")

T("inverse_rmsd_rotated", f"""forall (cell : option RV) (mass : nat -> R) (pos : RF) (ids : list nat) (refs : list RV) (rotf : RF -> RQ) (jdf : RF -> R) (fitf : RF -> list RV) (fc : R),
  NoDup ids -> length refs = length ids -> qnorm2 Rops (rotf pos) = 1 ->
  rmsdrot_value Rops pos ids refs (rotmat Rops (rotf pos)) refs <> 0 ->
  {FT} (CRmsdRot ids refs [] rotf jdf fitf) ({AP} (CRmsdRot ids refs [] rotf jdf fitf) fc) = fc""", "exact inv_rmsd_rot.",
  "rotated frames (the default fit of rmsd / eigenvector): the optimal quaternion of the step is an input of the model, the matrices are\\n   quaternion::rotation_matrix of it and of its conjugate; for every unit quaternion, rotating the forces into the frame of the gradients\\n   (read_total_forces) inverts rotating the applied forces back.  Standard rmsd (no atomPermutation): no fit gradients")
T("inverse_rmsd_rotated_permuted", f"""forall (cell : option RV) (mass : nat -> R) (pos : RF) (ids : list nat) (refs : list RV) (e : list RV) (es : list (list RV)) (rotf : RF -> RQ) (jdf : RF -> R) (fitf : RF -> list RV) (fc : R),
  NoDup ids -> (forall r, In r (refs :: e :: es) -> length r = length ids) -> length (fitf pos) = length ids ->
  qnorm2 Rops (rotf pos) = 1 ->
  (let R := rotmat Rops (rotf pos) in
   let g := rmsdrot_grads Rops pos ids refs R (rmsdrot_best Rops pos ids refs (e :: es) R) in
   norm2_sum Rops (vadd_list Rops g (map (mvmul Rops R) (fitf pos))) <> 0) ->
  {FT} (CRmsdRot ids refs (e :: es) rotf jdf fitf) ({AP} (CRmsdRot ids refs (e :: es) rotf jdf fitf) fc) = fc""", "exact inv_rmsd_rot_perm.",
  "symmetry-adapted rotated rmsd (atomPermutation, default fit): the applied forces contain fc * fit_gradients (derivatives of the optimal rotation,\\n   an input of the model); with fix-C07-3 the total force is projected on the complete gradient, and that is the inverse for EVERY value of the input")
T("rotation_matrices", f"""forall q : RQ, qnorm2 Rops q = 1 ->
  (forall v : RV, mvmul Rops (rotmat Rops q) (mtvmul Rops (rotmat Rops q) v) = v) /\\
  (forall v : RV, mvmul Rops (rotmat Rops (qconj Rops q)) v = mtvmul Rops (rotmat Rops q) v)""",
  "intros q H. split; [exact (rotmat_orthogonal q H) | exact (rotmat_conj q)].",
  "quaternion::rotation_matrix of a unit quaternion is orthogonal (R R^T = 1) and rotation::inverse().matrix() (conjugate quaternion) is its transpose")
T("inverse_eigenvector_rotated", f"""forall (cell : option RV) (mass : nat -> R) (pos : RF) (ids : list nat) (refs evec : list RV) (rotf : RF -> RQ) (jdf : RF -> R) (fc : R),
  NoDup ids -> length evec = length ids ->
  qnorm2 Rops (rotf pos) = 1 ->
  norm2_sum Rops (eig_vec Rops evec) <> 0 ->
  {FT} (CEigenvectorRot ids refs evec rotf jdf) ({AP} (CEigenvectorRot ids refs evec rotf jdf) fc) = fc""", "exact inv_eigenvector_rot.")

# ---------------- variable level
T("inverse_variable", f"""forall (cell : option RV) (mass : nat -> R) (pos : RF) (cv : colvar) (f : R),
  Forall (fun p => forall fc, cvc_ft {M} pos (fst p) (cvc_apply {M} pos (fst p) fc) = fc) (cv_comps cv) ->
  ForallOrdPairs (fun p q => forall a, In a (cvc_atoms (fst p)) -> ~ In a (cvc_atoms (fst q))) (cv_comps cv) ->
  cv_sqnorm Rops cv <> 0 ->
  cv_proj {M} pos cv (cv_apply {M} pos cv f) = f""", "exact cv_inverse.",
  "a linear combination (any coefficients, not all zero) of inverse-correct components on pairwise disjoint atoms:\n   the projection  sum ft_i c_i / sum c_i^2  of the forces applied for f is f")
T("pm1_combination", f"""forall (cell : option RV) (mass : nat -> R) (cv : colvar) (pos : RF) (f : R),
  cv_comps cv <> [] -> Forall (fun p => snd p = 1 \\/ snd p = -1) (cv_comps cv) ->
  Forall (fun p => forall fc, cvc_ft {M} pos (fst p) (cvc_apply {M} pos (fst p) fc) = fc) (cv_comps cv) ->
  ForallOrdPairs (fun p q => forall a, In a (cvc_atoms (fst p)) -> ~ In a (cvc_atoms (fst q))) (cv_comps cv) ->
  cv_proj {M} pos cv (cv_apply {M} pos cv f) = f /\\
  cv_fj {M} pos cv =
    tsum Rops (map (fun p => cvc_jd {M} pos (fst p) * snd p / ofnat Rops (length (cv_comps cv))) (cv_comps cv)) * cv_kT cv""",
  "exact pm1_combination.", "+-1 combinations of n components: the inverse holds and the Jacobian force is kT * sum (+-jd_i) / n")

LAST = "last_ft (snd (eng_run Rops PI cell mass cv {inc} s ({hist})))"
OWN = f"applied_force Rops cv (e_apply i1) (e_fb i1) (cv_fj {M} (e_pos i1) cv)"
INVOK = f"""Forall (fun p => forall fc, cvc_ft {M} (e_pos {{i}}) (fst p) (cvc_apply {M} (e_pos {{i}}) (fst p) fc) = fc) (cv_comps cv) ->
  ForallOrdPairs (fun p q => forall a, In a (cvc_atoms (fst p)) -> ~ In a (cvc_atoms (fst q))) (cv_comps cv) ->
  cv_sqnorm Rops cv <> 0 ->"""
def invok(i): return INVOK.replace("{i}", i)
okpf = "assert (Hok : cv_inv_ok cell mass (e_pos %s) cv) by (repeat split; assumption)."

T("inverse_lagged", f"""forall (cell : option RV) (mass : nat -> R) (cv : colvar) (pre : list einput) (s : estate) (i1 i2 : einput),
  cv_samestep cv = false -> e_apply i1 = true ->
  {invok('i1')}
  (forall a, In a (cv_atoms cv) -> e_force i1 a = vzero Rops) ->
  {LAST.format(inc='true', hist='pre ++ [i1; i2]')} =
    {OWN} + (if adds_fj cv (cv_hide cv) then cv_fj {M} (e_pos i1) cv else 0)
    - (if cv_subtract cv then {OWN} else 0)""",
  f"intros cell mass cv pre s i1 i2 H Ha Hi Hd Hs Hz. {okpf % 'i1'} exact (inverse_lagged cell mass cv pre s i1 i2 H Ha Hok Hz).",
  "lagged convention, every history: if at step t-1 the variable's atoms experienced exactly the forces Colvars applied\n   (the engine's own force vanishes on them), the report of step t is the applied variable force f(t-1), plus kT*jd(t-1)\n   unless hidden, minus f(t-1) with subtractAppliedForce")
T("inverse_lagged_jacobian", f"""forall (cell : option RV) (mass : nat -> R) (cv : colvar) (pre : list einput) (s : estate) (i1 i2 : einput),
  cv_samestep cv = false -> e_apply i1 = true -> cv_hide cv = false -> cv_subtract cv = false ->
  {invok('i1')}
  (forall a, In a (cv_atoms cv) -> e_force i1 a = vzero Rops) ->
  {LAST.format(inc='true', hist='pre ++ [i1; i2]')} = e_fb i1 + cv_fj {M} (e_pos i1) cv""",
  f"intros cell mass cv pre s i1 i2 H Ha Hh Hsb Hi Hd Hs Hz. {okpf % 'i1'} exact (inverse_lagged_jacobian cell mass cv pre s i1 i2 H Ha Hh Hsb Hok Hz).",
  "f plus the temperature-weighted Jacobian term")
T("inverse_lagged_hidden", f"""forall (cell : option RV) (mass : nat -> R) (cv : colvar) (pre : list einput) (s : estate) (i1 i2 : einput),
  cv_samestep cv = false -> e_apply i1 = true -> cv_hide cv = true -> cv_subtract cv = false ->
  {invok('i1')}
  (forall a, In a (cv_atoms cv) -> e_force i1 a = vzero Rops) ->
  {LAST.format(inc='true', hist='pre ++ [i1; i2]')} = e_fb i1""",
  f"intros cell mass cv pre s i1 i2 H Ha Hh Hsb Hi Hd Hs Hz. {okpf % 'i1'} exact (inverse_lagged_hidden cell mass cv pre s i1 i2 H Ha Hh Hsb Hok Hz).",
  "Jacobian term hidden on request: the bias force alone")
T("inverse_lagged_T0", f"""forall (cell : option RV) (mass : nat -> R) (cv : colvar) (pre : list einput) (s : estate) (i1 i2 : einput),
  cv_samestep cv = false -> e_apply i1 = true -> cv_kT cv = 0 -> cv_subtract cv = false ->
  {invok('i1')}
  (forall a, In a (cv_atoms cv) -> e_force i1 a = vzero Rops) ->
  {LAST.format(inc='true', hist='pre ++ [i1; i2]')} = e_fb i1""",
  f"intros cell mass cv pre s i1 i2 H Ha HT Hsb Hi Hd Hs Hz. {okpf % 'i1'} exact (inverse_lagged_T0 cell mass cv pre s i1 i2 H Ha HT Hsb Hok Hz).",
  "temperature zero: no Jacobian term")
T("lagged_not_applied", f"""forall (cell : option RV) (mass : nat -> R) (cv : colvar) (inc : bool) (pre : list einput) (s : estate) (i1 i2 : einput),
  cv_samestep cv = false -> e_apply i1 = false ->
  {LAST.format(inc='inc', hist='pre ++ [i1; i2]')} =
    cv_proj {M} (e_pos i1) cv (e_force i1) + (if cv_hide cv then 0 else cv_fj {M} (e_pos i1) cv)
    - (if cv_subtract cv then e_fb i1 else 0)""", "exact lagged_not_applied.",
  "a step at which NO bias applies a force to the variable (bias asleep, switched off, deleted, none defined): nothing of Colvars is in the\\n   engine's forces and no Jacobian-compensating force was applied, so the next report is the projection of the engine's forces,\\n   plus the Jacobian term unless hidden (f_old = fb, normally 0, is still subtracted with subtractAppliedForce)")
T("inverse_same_step", f"""forall (cell : option RV) (mass : nat -> R) (cv : colvar) (inc : bool) (pre : list einput) (s : estate) (i : einput) (f : R),
  cv_samestep cv = true ->
  {invok('i')}
  (forall a, In a (cv_atoms cv) -> e_force i a = cv_apply {M} (e_pos i) cv f a) ->
  {LAST.format(inc='inc', hist='pre ++ [i]')} = f + (if cv_hide cv then 0 else cv_fj {M} (e_pos i) cv)""",
  f"intros cell mass cv inc pre s i f H Hi Hd Hs HF. {okpf % 'i'} exact (inverse_same cell mass cv inc pre s i f H Hok HF).",
  "same-step convention, every history: the engine's force on the variable's atoms is the distribution of a variable force f")

# ---------------- linear, local
T("linear", f"""forall (cell : option RV) (mass : nat -> R) (pos : RF) (c : RC) (F G : RF) (a b : R),
  cvc_ft {M} pos c (fadd Rops (fscale Rops a F) (fscale Rops b G)) = a * cvc_ft {M} pos c F + b * cvc_ft {M} pos c G""",
  "exact cvc_ft_linear.", "every component, every geometry (no guard): the projected force is linear in the atomic force field")
T("linear_variable", f"""forall (cell : option RV) (mass : nat -> R) (pos : RF) (cv : colvar) (F G : RF) (a b : R),
  cv_proj {M} pos cv (fadd Rops (fscale Rops a F) (fscale Rops b G)) = a * cv_proj {M} pos cv F + b * cv_proj {M} pos cv G""",
  "exact cv_proj_linear.")
T("local", f"""forall (cell : option RV) (mass : nat -> R) (pos : RF) (c : RC) (F G : RF),
  (forall a, In a (cvc_atoms c) -> F a = G a) -> cvc_ft {M} pos c F = cvc_ft {M} pos c G""",
  "exact cvc_ft_local.", "force fields that agree on the atoms of the component's groups give the same projected force")
T("local_measured", f"""forall (cell : option RV) (mass : nat -> R) (pos : RF) (c : RC) (F G : RF),
  (forall a, In a (cvc_measured c) -> F a = G a) -> cvc_ft {M} pos c F = cvc_ft {M} pos c G""",
  "exact cvc_ft_local_measured.", "sharper: only the atoms whose forces are read matter; with oneSiteTotalForce that is the first group only")
T("local_variable", f"""forall (cell : option RV) (mass : nat -> R) (pos : RF) (cv : colvar) (F G : RF),
  (forall a, In a (cv_atoms cv) -> F a = G a) -> cv_proj {M} pos cv F = cv_proj {M} pos cv G""", "exact cv_proj_local.")
T("local_report_lagged", f"""forall (cell : option RV) (mass : nat -> R) (cv : colvar) (inc : bool) (pre pre' : list einput) (s s' : estate) (i1 i1' i2 i2' : einput),
  cv_samestep cv = false -> e_pos i1 = e_pos i1' -> e_fb i1 = e_fb i1' -> e_apply i1 = e_apply i1' ->
  (forall a, In a (cv_atoms cv) -> e_force i1 a = e_force i1' a) ->
  {LAST.format(inc='inc', hist='pre ++ [i1; i2]')} = last_ft (snd (eng_run Rops PI cell mass cv inc s' (pre' ++ [i1'; i2'])))""",
  "exact local_lagged.", "reports: two histories whose step t-1 differs only by engine forces on atoms outside the variable's groups\n   (and arbitrarily before t-1 and at t) report the same total force at t")
T("local_report_same_step", f"""forall (cell : option RV) (mass : nat -> R) (cv : colvar) (inc : bool) (pre pre' : list einput) (s s' : estate) (i i' : einput),
  cv_samestep cv = true -> e_pos i = e_pos i' ->
  (forall a, In a (cv_atoms cv) -> e_force i a = e_force i' a) ->
  {LAST.format(inc='inc', hist='pre ++ [i]')} = last_ft (snd (eng_run Rops PI cell mass cv inc s' (pre' ++ [i'])))""",
  "exact local_same.")

# ---------------- subtract, timing
T("subtract_applied", f"""forall (cell : option RV) (mass : nat -> R) (cv : colvar) (pre : list einput) (s : estate) (i1 i2 : einput),
  cv_samestep cv = false -> e_apply i1 = true -> cv_subtract cv = true ->
  {invok('i1')}
  {LAST.format(inc='true', hist='pre ++ [i1; i2]')} =
    cv_proj {M} (e_pos i1) cv (e_force i1) + (if cv_hide cv then 0 else cv_fj {M} (e_pos i1) cv)""",
  f"intros cell mass cv pre s i1 i2 H Ha Hsb Hi Hd Hs. {okpf % 'i1'} exact (subtract_applied cell mass cv pre s i1 i2 H Ha Hsb Hok).",
  "subtractAppliedForce (lagged convention, the engine's total force includes Colvars' forces): the report is the projection of the\n   engine's own forces (+ Jacobian term unless hidden) whatever force Colvars applied")
T("without_subtract", f"""forall (cell : option RV) (mass : nat -> R) (cv : colvar) (pre : list einput) (s : estate) (i1 i2 : einput),
  cv_samestep cv = false -> e_apply i1 = true -> cv_subtract cv = false ->
  {invok('i1')}
  {LAST.format(inc='true', hist='pre ++ [i1; i2]')} =
    cv_proj {M} (e_pos i1) cv (e_force i1) + {OWN}
    + (if adds_fj cv (cv_hide cv) then cv_fj {M} (e_pos i1) cv else 0)""",
  f"intros cell mass cv pre s i1 i2 H Ha Hsb Hi Hd Hs. {okpf % 'i1'} exact (without_subtract cell mass cv pre s i1 i2 H Ha Hsb Hok).",
  "... and without the option it contains the applied force of step t-1")
T("timing", f"""forall (cell : option RV) (mass : nat -> R) (cv : colvar) (inc : bool) (i1 i2 : einput),
  cv_samestep cv = false -> forall (pre : list einput) (s : estate),
  {LAST.format(inc='inc', hist='pre ++ [i1; i2]')} =
    cv_proj {M} (e_pos i1) cv
      (if inc then fadd Rops (e_force i1) (if e_apply i1 then cv_apply {M} (e_pos i1) cv ({OWN}) else fzero Rops) else e_force i1)
    + (if adds_fj cv (cv_hide cv && e_apply i1) then cv_fj {M} (e_pos i1) cv else 0)
    - (if cv_subtract cv then {OWN} else 0)""",
  "exact history_lag.", "lagged convention, every history pre, every state s, whatever happens at step t (i2): the report of step t is the projection of the\n   forces exerted at t-1 on the inverse gradients of t-1, with the Jacobian term and the applied force of t-1")
T("timing_parameter_change", f"""forall (cell : option RV) (mass : nat -> R) (cv1 cv2 : colvar) (inc : bool) (s0 : estate) (i1 i2 : einput),
  cv_samestep cv2 = false ->
  o_ft (snd (eng_step Rops PI cell mass cv2 inc (fst (eng_step Rops PI cell mass cv1 inc s0 i1)) i2)) =
    cv_proj Rops PI cell mass (e_pos i1) cv1
      (if inc then fadd Rops (e_force i1)
                   (if e_apply i1 then cv_apply Rops PI cell mass (e_pos i1) cv1
                                         (applied_force Rops cv1 (e_apply i1) (e_fb i1) (cv_fj Rops PI cell mass (e_pos i1) cv1))
                    else fzero Rops)
       else e_force i1)
    + (if adds_fj cv2 (cv_hide cv1 && e_apply i1) then cv_fj Rops PI cell mass (e_pos i1) cv1 else 0)
    - (if cv_subtract cv2 then applied_force Rops cv1 (e_apply i1) (e_fb i1) (cv_fj Rops PI cell mass (e_pos i1) cv1) else 0)""",
  "exact two_steps_lag_gen.", "parameters changed between two steps (temperature by the engine or `cv targettemperature`, subtractAppliedForce / hideJacobian by script,\\n   component flags or coefficients): cv1 = the variable as configured at step t-1, cv2 at step t, any state before.  The Jacobian term of the report\\n   is the one computed at t-1 with the temperature of t-1, the force subtracted is the one applied at t-1 (recorded at every step), the\\n   forces of t-1 are combined with the component coefficients of t-1 (fix-C07-6); only the flags subtract / hide are those of step t")
T("timing_same_step", f"""forall (cell : option RV) (mass : nat -> R) (cv : colvar) (inc : bool) (i : einput),
  cv_samestep cv = true -> forall (pre : list einput) (s : estate),
  {LAST.format(inc='inc', hist='pre ++ [i]')} =
    cv_proj {M} (e_pos i) cv (e_force i) + (if cv_hide cv then 0 else cv_fj {M} (e_pos i) cv)""",
  "exact history_same.", "same-step convention: the report of step t is about step t alone (no applied force is subtracted)")
T("timing_first_step", f"""forall (cell : option RV) (mass : nat -> R) (cv : colvar) (inc : bool) (i : einput),
  cv_samestep cv = false -> last_ft (snd (eng_run Rops PI cell mass cv inc (eng_init Rops) [i])) = 0""",
  "exact history_first_lag.", "lagged convention, first step of a run: nothing has been measured")

# ---------------- Jacobian closed forms
T("jacobian_closed_forms", f"""forall (cell : option RV) (mass : nat -> R) (pos : RF),
  (forall g1 g2 os, vnorm Rops (dist_v Rops cell mass pos g1 g2) <> 0 ->
     cvc_jd {M} pos (CDistance g1 g2 os) = 2 / cvc_value {M} pos (CDistance g1 g2 os)) /\\
  (forall gm gr gr2 ax os, cvc_jd {M} pos (CDistanceZ gm gr gr2 ax os) = 0) /\\
  (forall gm gr gr2 ax os, dxy_value Rops cell mass pos gm gr gr2 ax <> 0 ->
     cvc_jd {M} pos (CDistanceXY gm gr gr2 ax os) = 1 / cvc_value {M} pos (CDistanceXY gm gr gr2 ax os)) /\\
  (forall g1 g2 g3 g4 os, cvc_jd {M} pos (CDihedral g1 g2 g3 g4 os) = 0) /\\
  (forall ids, gyr_value Rops pos ids <> 0 ->
     cvc_jd {M} pos (CGyration ids) = (3 * ofnat Rops (length ids) - 4) / cvc_value {M} pos (CGyration ids)) /\\
  (forall ids refs extra, 0 < cvc_value {M} pos (CRmsd ids refs extra None) ->
     cvc_jd {M} pos (CRmsd ids refs extra None) = (3 * ofnat Rops (length ids) - 1) / cvc_value {M} pos (CRmsd ids refs extra None)) /\\
  (forall ids refs extra rc, 0 < cvc_value {M} pos (CRmsd ids refs extra (Some rc)) ->
     cvc_jd {M} pos (CRmsd ids refs extra (Some rc)) = (3 * ofnat Rops (length ids) - 4) / cvc_value {M} pos (CRmsd ids refs extra (Some rc))) /\\
  (forall ids refs evec c, cvc_jd {M} pos (CEigenvector ids refs evec c) = 0)""",
  """intros cell mass pos. repeat split.
  - intros g1 g2 os H. cbn [cvc_jd cvc_value]. unfold inv_or_zero. rs.
    destruct (Reqb' (vnorm Rops (dist_v Rops cell mass pos g1 g2)) 0) eqn:E; [apply Reqb_true in E; contradiction|reflexivity].
  - intros gm gr gr2 ax os H. cbn [cvc_jd cvc_value]. unfold inv_or_zero. rs.
    destruct (Reqb' (dxy_value Rops cell mass pos gm gr gr2 ax) 0) eqn:E; [apply Reqb_true in E; contradiction|reflexivity].
  - intros ids H. cbn [cvc_jd cvc_value]. unfold inv_or_zero. rs.
    destruct (Reqb' (gyr_value Rops pos ids) 0) eqn:E; [apply Reqb_true in E; contradiction|reflexivity].
  - intros ids refs extra H. cbn [cvc_jd cvc_value] in *. rs. apply Rltb_true in H. rewrite H. f_equal. ring.
  - intros ids refs extra rc H. cbn [cvc_jd cvc_value] in *. rs. apply Rltb_true in H. rewrite H. f_equal. ring.""",
  "the Jacobian derivative jd of each component (the documented Jacobian term is kT * jd); angle: pi/180 * cot(theta)")

T("jacobian_angle", f"""forall (cell : option RV) (mass : nat -> R) (pos : RF) (g1 g2 g3 : RG) (os : bool),
  ang_cos Rops cell mass pos g1 g2 g3 * ang_cos Rops cell mass pos g1 g2 g3 < 1 ->
  cvc_jd {M} pos (CAngle g1 g2 g3 os) =
    PI / 180 * (ang_cos Rops cell mass pos g1 g2 g3 / sqrt (1 - ang_cos Rops cell mass pos g1 g2 g3 * ang_cos Rops cell mass pos g1 g2 g3))""",
  "exact angle_jd_closed.", "angle: jd = (pi/180) cot(theta) written in the geometry (cos(theta) = r21.r23/(|r21||r23|)), away from collinear groups")

# write thm_ lemmas
pro = ["", "(* ================================================================== statements of Properties_C07.v, verbatim *)"]
for n, st, pf, c in stm:
    pro.append("Lemma thm_%s : %s.\nProof. %s Qed." % (n, st, pf))
props = ['''(* C07: total-force measurement is the inverse of force application.
   Statements only; proofs in TotalForceProofs.v; all about the real-number instance (Rops, PI) of TotalForceModel.v.
   Notation: RV = vectors, RF = per-atom fields (nat -> vector), RG = groups, RC = components.
   gok mass g      : g is a group of atoms with non-zero total mass (a group whose force can be measured)
   disj g g'       : no atom of g is in g'
   last_ft outs    : the total force reported at the last step of a history (0 for the empty history)
   applied_force   : f = fb - (hideJacobian ? fj : 0), the force the variable distributes to its atoms
   adds_fj cv      : collect_cvc_total_forces adds the Jacobian force (not when hidden and (subtracted or same-step))
   eng_run         : histories of (positions, engine force field, bias force on the variable), engine convention per
                     cv_samestep, "includecv" = the engine's total force contains the forces Colvars applied. *)
From Coq Require Import ZArith List Bool Arith Reals Lra.
From CV Require Import Base.Num Base.RNum C07.TotalForceModel C07.TotalForceProofs C07.DivergenceProofs.
Import ListNotations.
Local Open Scope R_scope.
''']
for n, st, pf, c in stm:
    if c:
        props.append("(* %s *)" % c)
    props.append("Theorem C07_%s : %s.\nProof. exact thm_%s. Qed.\nPrint Assumptions C07_%s.\n" % (n, st, n, n))
open('/tmp/wk/C07scratch/thm_block.v', 'w').write("\n".join(pro) + "\n")
open('/tmp/wk/C07scratch/props_head.v', 'w').write("\n".join(props) + "\n")
