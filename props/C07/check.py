# C07: total-force measurement is the inverse of force application.
import os, sys, json, math, copy
import vcommon as V

PROP = "coq/C07/Properties_C07.v"
EXTRACT = "coq/C07/Extract_C07.v"
DRIVER = "props/C07/driver.ml"
PROGS = {"c07sim": ["props/C07/unit.cpp"]}
TOL = 1e-9
BOLTZ = 0.001987191          # harness/vsim.h boltzmann_
KINDS = ["distance", "distanceZ", "distanceXY", "angle", "dihedral", "gyration", "rmsd", "eigenvector"]


def close(a, b, tol=TOL):
    if a != a or b != b:
        return False
    return abs(a - b) <= tol * max(1.0, abs(a), abs(b))


def hx(x):
    return V.hexf(x)


# ------------------------------------------------------------------ small vector helpers (python floats)
def vadd(a, b): return [a[0] + b[0], a[1] + b[1], a[2] + b[2]]
def vsub(a, b): return [a[0] - b[0], a[1] - b[1], a[2] - b[2]]
def vsc(s, a): return [s * a[0], s * a[1], s * a[2]]
def vdot(a, b): return a[0] * b[0] + a[1] * b[1] + a[2] * b[2]
def vnorm(a): return math.sqrt(vdot(a, a))
def vcross(a, b): return [a[1] * b[2] - b[1] * a[2], -a[0] * b[2] + b[0] * a[2], a[0] * b[1] - b[0] * a[1]]


AMBIG = [False]


def pd(case, a, b):
    """colvarproxy_system::position_distance(a, b): minimum image of b - a in the orthorhombic cell of the case"""
    d = vsub(b, a)
    L = None if case.get("nopbc") else case.get("cell")      # forceNoPBC: plain differences although the engine has a cell
    if not L:
        return d
    out = []
    for x, l in zip(d, L):
        y = x / l + 0.5
        if abs(y - round(y)) < 1e-6:
            AMBIG[0] = True          # within rounding of half a cell: the image is ambiguous
        out.append(x - math.floor(y) * l)
    return out


def com(case, pos, g):
    if "dummy" in g:
        return list(g["dummy"])
    M = sum(case["masses"][a - 1] for a in g["ids"])
    s = [0.0, 0.0, 0.0]
    for a in g["ids"]:
        s = vadd(s, vsc(case["masses"][a - 1], pos[a - 1]))
    return vsc(1.0 / M, s)


def cog(pos, ids):
    s = [0.0, 0.0, 0.0]
    for a in ids:
        s = vadd(s, pos[a - 1])
    return vsc(1.0 / len(ids), s)


def frame(pos, comp):
    ids = comp["ids"]
    if comp["kind"] == "gyration":
        c = cog(pos, ids)
        return [vsub(pos[a - 1], c) for a in ids]
    if comp.get("center"):
        c = cog(pos, ids)
        rc = cog(comp["gref"], range(1, len(ids) + 1))
        return [vadd(vsub(pos[a - 1], c), rc) for a in ids]
    return [pos[a - 1] for a in ids]


def ref_copies(comp):
    """rmsd::init_permutation: one copy of the reference per atomPermutation line, copy[ia] = ref[perm[ia]]"""
    return [[comp["refs"][j] for j in perm] for perm in comp.get("perms", [])]


def evec_eff(comp):
    """the vector eigenvector::init ends up with (before the model's own centring, which is then a no-op):
    centred; differenceVector: (v - <v>) - (ref - <ref>) scaled by 1/|.|^2; normalizeVector: scaled to unit norm"""
    N = len(comp["ids"])
    opt = comp.get("evopt") or ""
    vc = cog(comp["evec"], range(1, N + 1))
    e = [vsub(v, vc) for v in comp["evec"]]
    if "difference" in opt:
        rc = cog(comp["refs"], range(1, N + 1))
        e = [vsub(a, vsub(r_, rc)) for a, r_ in zip(e, comp["refs"])]
    n2 = sum(vdot(v, v) for v in e)
    if "normalize" in opt:
        e = [vsc(1.0 / math.sqrt(n2), v) for v in e]
    elif "difference" in opt:
        e = [vsc(1.0 / n2, v) for v in e]
    return e


def unit_axis(ax):
    n2 = vdot(ax, ax)
    if n2 != 1.0:
        n = math.sqrt(n2)
        return [ax[0] / n, ax[1] / n, ax[2] / n]
    return list(ax)


def geom(case, comp, pos):
    """independent re-computation of the documented value, its Jacobian derivative, and a measure of how far the
    geometry is from the documented singular configurations (>= 0.25 means comfortably regular)"""
    k = comp["kind"]
    if k == "distance":
        d = vnorm(pd(case, com(case, pos, comp["groups"][0]), com(case, pos, comp["groups"][1])))
        return d, (2.0 / d if d else 0.0), d
    if k in ("distanceZ", "distanceXY"):
        gm, gr, g2 = comp["groups"]
        cm, cr = com(case, pos, gm), com(case, pos, gr)
        if g2 is None:
            ax = unit_axis(comp["axis"])
            an = 1.0
        else:
            v12 = pd(case, cr, com(case, pos, g2))
            an = vnorm(v12)
            ax = vsc(1.0 / an, v12) if an > 0 else [1.0, 0.0, 0.0]
        if k == "distanceZ":
            dv = pd(case, cr, cm) if g2 is None else pd(case, vadd(cr, vsc(0.5, pd(case, cr, com(case, pos, g2)))), cm)
            return vdot(ax, dv), 0.0, an
        dv = pd(case, cr, cm)
        dvo = vsub(dv, vsc(vdot(dv, ax), ax))
        x = vnorm(dvo)
        return x, (1.0 / x if x else 0.0), min(x, an)
    if k == "angle":
        c1, c2, c3 = [com(case, pos, g) for g in comp["groups"]]
        r21, r23 = pd(case, c2, c1), pd(case, c2, c3)
        l1, l3 = vnorm(r21), vnorm(r23)
        if l1 == 0 or l3 == 0:
            return 0.0, 0.0, 0.0
        c = vdot(r21, r23) / (l1 * l3)
        c = max(-1.0, min(1.0, c))
        th = math.acos(c)
        jd = math.pi / 180.0 * (math.cos(th) / math.sin(th) if th != 0.0 and math.sin(th) != 0.0 else 0.0)
        return 180.0 / math.pi * th, jd, min(l1, l3, 2.0 * (1.0 - abs(c)))
    if k == "dihedral":
        c1, c2, c3, c4 = [com(case, pos, g) for g in comp["groups"]]
        r12, r23, r34 = pd(case, c1, c2), pd(case, c2, c3), pd(case, c3, c4)
        A, B = vcross(r12, r23), vcross(r23, r34)
        nG = vnorm(r23)
        val = 180.0 / math.pi * math.atan2(vdot(A, r34) * nG, vdot(A, B))
        reg = min(nG, vnorm(A) / max(nG, 1e-300), vnorm(B) / max(nG, 1e-300)) if nG > 0 else 0.0
        return val, 0.0, reg
    ids = comp["ids"]
    N = len(ids)
    if comp.get("rotate"):        # optimal rotation: not recomputed here (search-only residue, used at temperature 0)
        return float("nan"), 0.0, 1.0
    fp = frame(pos, comp)
    if k == "gyration":
        x = math.sqrt(sum(vdot(p, p) for p in fp) / N)
        return x, ((3.0 * N - 4.0) / x if x else 0.0), x
    if k == "rmsd":
        best = sum(vdot(vsub(p, r), vsub(p, r)) for p, r in zip(fp, comp["refs"]))
        comp["_best"] = 0
        for ci, cp in enumerate(ref_copies(comp)):
            v = sum(vdot(vsub(p, r), vsub(p, r)) for p, r in zip(fp, cp))
            if abs(v - best) < 1e-9 * max(1.0, best):
                AMBIG[0] = True          # two copies of the reference equally close: the selection is ambiguous
            if v < best:
                best, comp["_best"] = v, ci + 1
        x = math.sqrt(best / N)
        tr = 3.0 if comp.get("center") else 0.0
        return x, ((3.0 * N - 1.0 - tr) / x if x > 0 else 0.0), x
    if k == "eigenvector":
        e = evec_eff(comp)
        x = sum(vdot(vsub(p, r), v) for p, r, v in zip(fp, comp["refs"], e))
        return x, 0.0, math.sqrt(sum(vdot(v, v) for v in e))
    raise ValueError(k)


def sqnorm(case):
    return sum(c["coeff"] * c["coeff"] for c in case["comps"])


def doc_value(case, pos):
    return sum(c["coeff"] * geom(case, c, pos)[0] for c in case["comps"])


def T_at(case, t):
    """temperature in force at step t (it may be changed between steps)"""
    T = case["T"]
    for s in case["steps"][:t + 1]:
        if "T" in s:
            T = s["T"]
    return T


def sub_at(case, t):
    sub = case["sub"]
    for s in case["steps"][:t + 1]:
        if "subset" in s:
            sub = s["subset"]
    return sub


def coeffs_at(case, t):
    """coefficients of the components (configuration order) in force at step t (modifycvcs may change them)"""
    cf = [c["coeff"] for c in case["comps"]]
    for s in case["steps"][:t + 1]:
        if "coeffs" in s:
            cf = list(s["coeffs"])
    return cf


def doc_fj(case, pos, T=None, coeffs=None):
    """the documented Jacobian force: kT * sum_i c_i jd_i / sum_i c_i^2"""
    T = case["T"] if T is None else T
    if T == 0.0:
        return 0.0
    cf = coeffs if coeffs is not None else [c["coeff"] for c in case["comps"]]
    sq = sum(k * k for k in cf)
    s = 0.0
    for c, k in zip(case["comps"], cf):
        s += geom(case, c, pos)[1] * k / sq
    return s * (BOLTZ * T)


def regular(case, pos):
    AMBIG[0] = False
    m = min(geom(case, c, pos)[2] for c in case["comps"])
    return 0.0 if AMBIG[0] else m


def comp_atoms(comp):
    if "ids" in comp:
        return list(comp["ids"])
    out = []
    for g in comp["groups"]:
        if g is not None and "ids" in g:
            out += g["ids"]
    return out


def measured_atoms(comp):
    """atoms whose total force the component reads: with oneSiteTotalForce (and for a two-point axis) the first group only"""
    if "ids" in comp:
        return list(comp["ids"])
    gs = comp["groups"]
    if comp.get("onesite") or (comp["kind"] in ("distanceZ", "distanceXY") and gs[2] is not None):
        return list(gs[0].get("ids", []))
    return comp_atoms(comp)


# ------------------------------------------------------------------ configuration text
def vtxt(v):
    return "(%r, %r, %r)" % (v[0], v[1], v[2])


def group_block(key, g, extra=()):
    if "dummy" in g:
        return ["    %s {" % key, "      dummyAtom %s" % vtxt(g["dummy"]), "    }"]
    return ["    %s {" % key, "      atomNumbers " + " ".join(str(a) for a in g["ids"])] + ["      " + e for e in extra] + ["    }"]


def comp_block(comp, single):
    k = comp["kind"]
    L = ["  %s {" % k]
    if not single or comp["coeff"] != 1.0:
        L.append("    componentCoeff %r" % comp["coeff"])
    if k == "distance":
        L += group_block("group1", comp["groups"][0]) + group_block("group2", comp["groups"][1])
    elif k in ("distanceZ", "distanceXY"):
        gm, gr, g2 = comp["groups"]
        L += group_block("main", gm) + group_block("ref", gr)
        if g2 is not None:
            L += group_block("ref2", g2)
        else:
            L.append("    axis %s" % vtxt(comp["axis"]))
    elif k in ("angle", "dihedral"):
        for i, g in enumerate(comp["groups"]):
            L += group_block("group%d" % (i + 1), g)
    elif k == "gyration":
        L += group_block("atoms", {"ids": comp["ids"]})
    else:
        extra = ["centerToReference %s" % ("on" if comp.get("center") else "off"), "rotateToReference off"]
        if comp.get("rotate"):
            extra = []          # the default: centre and rotate onto the component's reference positions
        elif comp.get("center"):
            extra.append("refPositions " + " ".join(vtxt(v) for v in comp["gref"]))
        L += group_block("atoms", {"ids": comp["ids"]}, extra)
        L.append("    refPositions " + " ".join(vtxt(v) for v in comp["refs"]))
        for perm in comp.get("perms", []):
            L.append("    atomPermutation " + " ".join(str(comp["ids"][j]) for j in perm))
        if k == "eigenvector":
            L.append("    vector " + " ".join(vtxt(v) for v in comp["evec"]))
            if "difference" in (comp.get("evopt") or ""):
                L.append("    differenceVector on")
            if "normalize" in (comp.get("evopt") or ""):
                L.append("    normalizeVector on")
    if comp.get("onesite"):
        L.append("    oneSiteTotalForce on")
    if comp.get("nopbc"):
        L.append("    forceNoPBC on")
    L.append("  }")
    return L


def other_block(case):
    f = case["foreign"]
    return ["colvar {", "  name other", "  distance {", "    group1 {", "      atomNumbers %d" % f[0], "    }",
            "    group2 {", "      atomNumbers %d" % f[1], "    }", "  }", "}"]


def bias_block(case):
    b = case["bias"]
    tsf = ["  timeStepFactor %d" % case["tsf"]] if case.get("tsf") else []
    if b["type"] == "linear":
        return ["linear {", "  name b", "  colvars v", "  centers 0.0", "  forceConstant %r" % b["k"]] + tsf + ["}"]
    if b["type"] == "harmonic":
        return ["harmonic {", "  name b", "  colvars v", "  centers %r" % b["c"], "  forceConstant %r" % b["k"]] + tsf + ["}"]
    return []


def config_text(case, with_other=True, with_bias=True):
    L = ["colvar {", "  name v", "  outputTotalForce on", "  outputAppliedForce on"]
    if case.get("tsf") or case.get("offmode") == "define":
        L += ["  lowerBoundary -1024", "  upperBoundary 1024", "  width 1"]
    if case["sub"]:
        L.append("  subtractAppliedForce on")
    for c in case["comps"]:
        L += comp_block(c, len(case["comps"]) == 1)
    L.append("}")
    if case.get("foreign") and with_other:
        L += other_block(case)
    if case.get("tsf") or case.get("offmode") == "define":
        # a consumer that applies no force keeps the variable computed at the steps at which the bias sleeps / does not exist
        L += ["histogram {", "  name h", "  colvars v", "}"]
    if with_bias:
        L += bias_block(case)
    if case.get("bias2") is not None:
        # a second bias on the same variable: the forces add up, and the variable keeps applying a force while the first one is off
        L += ["linear {", "  name b2", "  colvars v", "  centers 0.0", "  forceConstant %r" % case["bias2"], "}"]
    return L


def scenario(case, k):
    L = ["echo CASE %d" % k, "natoms %d" % case["n"]]
    for i, m in enumerate(case["masses"]):
        L.append("mass %d %s" % (i + 1, hx(m)))
    L += ["temperature %r" % case["T"], "samestep %d" % case["same"], "includecv %d" % case["inc"], "totalforces 1",
          ("cell %r %r %r" % tuple(case["cell"])) if case.get("cell") else "nocell", "new"]
    if case.get("it0"):
        L.append("setstep %d" % case["it0"])
    late = case.get("late", 0)
    if late:
        # the variable is defined while the simulation runs: `late` steps with another variable only
        L += ["config EOF"] + other_block(case) + ["EOF", "show tf 1 af 1 energy 0 bias 0"]
        for i, p in enumerate(case["steps"][0]["pos"]):
            L.append("pos %d %s %s %s" % (i + 1, hx(p[0]), hx(p[1]), hx(p[2])))
        L += ["step"] * late
    mode = case.get("offmode", "toggle")
    applying = not (mode == "define" and case["steps"][0].get("off"))      # define: the bias may not exist yet
    L += ["config EOF"] + config_text(case, with_other=not late, with_bias=applying) + ["EOF"] + (["hidej v"] if case["hide"] else []) + ["show tf 1 af 1 energy 0 bias 0"]
    for s in case["steps"]:
        if mode != "tsf" and bool(s.get("off")) == applying:
            # the bias stops / resumes applying its force while the variable stays active and measured:
            # toggle = apply_force switched by script; define = the bias is deleted / defined at run time
            applying = not applying
            if mode == "toggle":
                L.append("script cv bias b set apply_force %d" % (1 if applying else 0))
            elif applying:
                L += ["config EOF"] + bias_block(case) + ["EOF"]
            else:
                L.append("script cv bias b delete")
        if s.get("badcfg"):
            # a configuration that is rejected in the middle of the session must leave the variable as it was
            L += ["echo BADCFG", "config EOF", "colvar {", "  name bad", "  outputTotalForce on", "  distance {", "    group1 {", "      atomNumbers 99999", "    }",
                  "    group2 {", "      atomNumbers 1", "    }", "  }", "}", "EOF"]
        if "T" in s:
            L.append("temperature %r" % s["T"])          # the engine changes its target temperature between two steps
        if "coeffs" in s:
            # `cv colvar v modifycvcs`: new coefficients; the configuration strings go in the implementation's component order
            order = sorted(range(len(case["comps"])), key=lambda i: case["comps"][i]["kind"])
            L.append("modcvc v " + " | ".join("componentCoeff %r" % s["coeffs"][i] for i in order))
        if "subset" in s:
            L.append("script cv colvar v set subtract_applied_force_from_total_force %d" % (1 if s["subset"] else 0))
        for i, p in enumerate(s["pos"]):
            L.append("pos %d %s %s %s" % (i + 1, hx(p[0]), hx(p[1]), hx(p[2])))
        ef = s["ef"]
        if isinstance(ef, dict):
            if ef.get("add"):
                for i, f in enumerate(ef["add"]):
                    L.append("eforce %d %s %s %s" % (i + 1, hx(f[0]), hx(f[1]), hx(f[2])))
                L.append("applyback %s add" % hx(ef["back"]))
            else:
                L.append("applyback %s" % hx(ef["back"]))
        else:
            for i, f in enumerate(ef):
                L.append("eforce %d %s %s %s" % (i + 1, hx(f[0]), hx(f[1]), hx(f[2])))
        L += ["step", "fj"] + (["rot v"] if (case["type"] == "DIV" or any(c.get("rotate") for c in case["comps"])) else [])
    L.append("echo END %d" % k)
    return L


# ------------------------------------------------------------------ implementation output
def parse_impl(lines):
    cases = {}
    cur = None
    for l in lines:
        if l.startswith("echo CASE"):
            cur = int(l.split()[2])
            cases[cur] = {"steps": [], "raw": [], "complete": False, "config": None}
            continue
        if cur is None:
            continue
        cs = cases[cur]
        cs["raw"].append(l)
        w = l.split()
        if l.startswith("echo END"):
            cs["complete"] = True
            cur = None
        elif l.startswith("echo BADCFG"):
            cs["skipcfg"] = True
        elif w[0] == "CONFIG" and cs.pop("skipcfg", False):
            cs["badcfg_seen"] = l
        elif w[0] == "CONFIG":
            cs["config"] = l if (cs["config"] is None or "err=ok" in cs["config"]) else cs["config"]
        elif w[0] == "STEP":
            cs["steps"].append({"err": w[2] if len(w) > 2 else "", "atomf": {}, "cv": {}, "tf": {}, "af": {}, "fj": {}, "fold": {}})
        elif cs["steps"]:
            st = cs["steps"][-1]
            try:
                if w[0] == "CV":
                    st["cv"][w[1]] = float.fromhex(w[2])
                elif w[0] == "TF":
                    st["tf"][w[1]] = float.fromhex(w[2])
                elif w[0] == "AF":
                    st["af"][w[1]] = float.fromhex(w[2])
                elif w[0] == "FJ":
                    st["fj"][w[1]] = float.fromhex(w[2])
                elif w[0] == "FOLD":
                    st["fold"][w[1]] = float.fromhex(w[2])
                elif w[0] == "ROT" and w[1] == "v":
                    st.setdefault("rot", {})[int(w[2])] = [float.fromhex(x) for x in w[4:9]] + [int(w[9])] + [float.fromhex(x) for x in w[10:]]
                elif w[0] == "ATOMF":
                    st["atomf"][int(w[1])] = [float.fromhex(x) for x in w[2:5]]
            except ValueError:
                st["bad"] = l
    return cases


def step_eforce(case, isteps, t):
    """the engine force field of step t as numbers (applyback resolved with the implementation's own output)"""
    ef = case["steps"][t]["ef"]
    n = case["n"]
    if not isinstance(ef, dict):
        return [list(f) for f in ef]
    out = [list(f) for f in ef["add"]] if ef.get("add") else [[0.0, 0.0, 0.0] for _ in range(n)]
    prev = isteps[t - 1]["atomf"] if t > 0 else {}
    for a, f in prev.items():
        out[a - 1] = vadd(out[a - 1], vsc(ef["back"], f))
    return out


def periodic(case):
    """colvar.cpp: the variable is periodic when all components are periodic (here: dihedrals) with coefficients +-1"""
    return all(c["kind"] == "dihedral" and abs(c["coeff"]) == 1.0 for c in case["comps"])


def applies(case, t):
    """some bias applies a force to the variable at step t (f_cv_apply_force)"""
    return (case["bias"]["type"] != "none" and not case["steps"][t].get("off")) or case.get("bias2") is not None


def bias_force(case, value):
    b = case["bias"]
    if b["type"] == "none":
        return 0.0
    tsf = float(case.get("tsf") or 1)       # impulse: the force of a bias with timeStepFactor n is multiplied by n
    if b["type"] == "linear":
        return -b["k"] * tsf
    d = value - b["c"]
    # colvar::dist2_lgrad (after the C18 repair in /repo main): the periodic difference is used only when the variable
    # itself is periodic, i.e. all its components are periodic with the same period (here: dihedrals, coefficients +-1)
    if periodic(case):
        d = d - 360.0 * math.floor(d / 360.0 + 0.5)
    return -b["k"] * d * tsf


# ------------------------------------------------------------------ model case line
def gtxt(g):
    if "dummy" in g:
        return "U %s %s %s" % tuple(hx(x) for x in g["dummy"])
    return "G %d %s" % (len(g["ids"]), " ".join(str(a - 1) for a in g["ids"]))


def vl(vs):
    return " ".join("%s %s %s" % (hx(v[0]), hx(v[1]), hx(v[2])) for v in vs)


def comp_txt(comp):
    k = comp["kind"]
    os_ = "1" if comp.get("onesite") else "0"
    if k == "distance":
        return "D %s %s %s" % (gtxt(comp["groups"][0]), gtxt(comp["groups"][1]), os_)
    if k in ("distanceZ", "distanceXY"):
        gm, gr, g2 = comp["groups"]
        ax = unit_axis(comp["axis"]) if g2 is None else [0.0, 0.0, 1.0]
        return "%s %s %s %s %s %s" % ("DZ" if k == "distanceZ" else "DXY", gtxt(gm), gtxt(gr), "-" if g2 is None else gtxt(g2), vl([ax]), os_)
    if k == "angle":
        return "A %s %s" % (" ".join(gtxt(g) for g in comp["groups"]), os_)
    if k == "dihedral":
        return "DH %s %s" % (" ".join(gtxt(g) for g in comp["groups"]), os_)
    ids = "%d %s" % (len(comp["ids"]), " ".join(str(a - 1) for a in comp["ids"]))
    if k == "gyration":
        return "GY " + ids
    if comp.get("rotate"):
        cps = ref_copies(comp)
        return ("RMR %s %s %d %s" % (ids, vl(comp["refs"]), len(cps), " ".join(vl(c) for c in cps))) if k == "rmsd" \
            else ("EVR %s %s %s" % (ids, vl(comp["refs"]), vl(evec_eff(comp))))
    cen = "N"
    if comp.get("center"):
        cen = "C " + vl([cog(comp["gref"], range(1, len(comp["ids"]) + 1))])
    if k == "rmsd":
        cps = ref_copies(comp)
        return "RM %s %s %d %s %s" % (ids, vl(comp["refs"]), len(cps), " ".join(vl(c) for c in cps), cen)
    return "EV %s %s %s %s" % (ids, vl(comp["refs"]), vl(evec_eff(comp)), cen)


def model_line(case, isteps):
    p = ["RUN", str(case["n"])] + [hx(m) for m in case["masses"]]
    p.append(("C " + vl([case["cell"]])) if (case.get("cell") and not case.get("nopbc")) else "N")
    p += [hx(BOLTZ * case["T"]), "1" if case["hide"] else "0", "1" if case["sub"] else "0", "1" if case["same"] else "0",
          "1" if case["inc"] else "0", str(len(case["comps"]))]
    for c in case["comps"]:
        p += [comp_txt(c), hx(c["coeff"])]
    p.append(str(len(case["steps"])))
    for t, s in enumerate(case["steps"]):
        p.append(vl(s["pos"]))
        p.append(vl(step_eforce(case, isteps, t)))
        fb1 = bias_force(case, isteps[t]["cv"].get("v", float("nan"))) if (case["bias"]["type"] != "none" and not s.get("off")) else 0.0
        p.append(hx(fb1 + (-case["bias2"] if case.get("bias2") is not None else 0.0)))
        p.append("1" if applies(case, t) else "0")
        p += [hx(BOLTZ * T_at(case, t)), "1" if case["hide"] else "0", "1" if sub_at(case, t) else "0"] + [hx(k) for k in coeffs_at(case, t)]
        for ci in rot_indices(case):
            p.append(rot_txt(isteps[t].get("rot", {}).get(ci, [1.0, 0.0, 0.0, 0.0, 0.0, 0]), True))
    return " ".join(p)


def rot_txt(vals, _=True):
    """q0 q1 q2 q3 jd nfit fit..: the count is an integer"""
    return " ".join(hx(x) for x in vals[:5]) + " %d " % int(vals[5]) + " ".join(hx(x) for x in vals[6:])


def rot_indices(case):
    """indices, in the implementation's component order (alphabetical by keyword, stable), of the rotated components
    listed in configuration order"""
    order = sorted(range(len(case["comps"])), key=lambda i: case["comps"][i]["kind"])
    pos_in_impl = {ci: j for j, ci in enumerate(order)}
    return [pos_in_impl[i] for i, c in enumerate(case["comps"]) if c.get("rotate")]


def parse_model(line, n):
    out = []
    for part in line.split(" | "):
        w = [float.fromhex(x) for x in part.split()]
        if len(w) != 3 + 3 * n:
            return None
        out.append({"value": w[0], "ft": w[1], "f": w[2], "forces": [w[3 + 3 * a:6 + 3 * a] for a in range(n)]})
    return out


# ------------------------------------------------------------------ generation
BLOCK = {"distance": 4, "distanceZ": 5, "distanceXY": 5, "angle": 5, "dihedral": 7}
MASSES = [0.5, 1.0, 1.0, 1.5, 2.0, 3.0, 4.0]


def rpos(r):
    return [V.dyadic(r, -4, 4, bits=4) for _ in range(3)]


def rfor(r):
    return [V.dyadic(r, -8, 8, bits=3) for _ in range(3)]


def split_groups(r, atoms, ng, maxsize=3):
    """ng disjoint non-empty groups out of the list of atoms"""
    atoms = list(atoms)
    r.shuffle(atoms)
    sizes = [1] * ng
    spare = len(atoms) - ng
    for i in range(ng):
        e = r.randint(0, min(maxsize - 1, spare))
        sizes[i] += e
        spare -= e
    out, p = [], 0
    for s in sizes:
        out.append({"ids": sorted(atoms[p:p + s])})
        p += s
    return out, atoms[p:]


def rand_perm(r, k):
    """a non-identity permutation of k positions: a transposition or a 3-cycle (equivalent atoms exchanged)"""
    p = list(range(k))
    idx = r.sample(range(k), 3 if (k >= 3 and r.random() < 0.4) else 2)
    vals = [p[i] for i in idx]
    vals = vals[1:] + vals[:1]
    for i, v in zip(idx, vals):
        p[i] = v
    return p


def gen_comp(r, kind, atoms, overlap=False):
    """a component of the given kind over (a subset of) the given atoms; returns (comp, unused atoms)"""
    c = {"kind": kind, "coeff": 1.0}
    if kind in ("distance", "angle", "dihedral"):
        ng = {"distance": 2, "angle": 3, "dihedral": 4}[kind]
        gs, rest = split_groups(r, atoms, ng)
        c["groups"] = gs
        c["onesite"] = r.random() < 0.3
        if kind == "distance" and c["onesite"] and r.random() < 0.4:
            c["groups"][1] = {"dummy": rpos(r)}
        if overlap and "ids" in c["groups"][-1]:
            c["groups"][-1] = {"ids": sorted(set(c["groups"][-1]["ids"]) | {c["groups"][0]["ids"][0]})}
        return c, rest
    if kind in ("distanceZ", "distanceXY"):
        three = r.random() < 0.4
        gs, rest = split_groups(r, atoms, 3 if three else 2)
        c["groups"] = [gs[0], gs[1], gs[2] if three else None]
        c["axis"] = r.choice([[0.0, 0.0, 1.0], [1.0, 0.0, 0.0], [0.0, 1.0, 0.0], [1.0, 1.0, 0.0], [1.0, -2.0, 2.0], [0.0, 3.0, 4.0]])
        c["onesite"] = r.random() < 0.3
        if not three and c["onesite"] and r.random() < 0.5:
            c["groups"][1] = {"dummy": rpos(r)}
        if overlap and "ids" in c["groups"][1]:
            c["groups"][1] = {"ids": sorted(set(gs[1]["ids"]) | {gs[0]["ids"][0]})}
        return c, rest
    atoms = list(atoms)
    r.shuffle(atoms)
    k = r.randint(2, min(5, len(atoms)))
    c["ids"] = sorted(atoms[:k])
    rest = atoms[k:]
    if kind == "gyration":
        return c, rest
    c["refs"] = [rpos(r) for _ in range(k)]
    c["center"] = r.random() < 0.4
    if c["center"]:
        # the group's own reference positions: the same as the component's (the documented use), or different ones
        c["gref"] = [list(v) for v in c["refs"]] if (r.random() < 0.75 and not overlap) else [rpos(r) for _ in range(k)]
    if kind == "eigenvector":
        c["evec"] = [[V.dyadic(r, -2, 2, bits=3) for _ in range(3)] for _ in range(k)]
        c["evopt"] = r.choice([None, None, "normalize"] + (["difference", "difference+normalize"] if c["center"] and c["gref"] == c["refs"] else []))
    if kind == "rmsd" and r.random() < 0.5:
        c["perms"] = [rand_perm(r, k) for _ in range(r.randint(1, 2))]
    return c, rest


def inverse_ok(case):
    """the configuration satisfies the hypotheses of the inverse theorems: groups pairwise disjoint, components on
    disjoint atoms"""
    seen = set()
    for c in case["comps"]:
        at = comp_atoms(c)
        if len(set(at)) != len(at) or seen & set(at):
            return False
        seen |= set(at)
    return True


def gen_case(r, idx, typ=None, kinds=None):
    typ = typ or r.choice(["INV", "INV", "LIN", "LOC", "TIM", "RND", "OFF", "PAR"])
    ncomp = r.choice([1, 1, 1, 1, 1, 1, 2, 2, 2, 3])
    kinds = kinds or [r.choice(KINDS) for _ in range(ncomp)]
    overlap = typ == "RND" and r.random() < 0.3
    nvar = sum(BLOCK.get(k, 5) for k in kinds)
    nforeign = r.choice([0, 2, 3])
    if typ == "LOC":
        nforeign = r.choice([2, 3])
    n = nvar + nforeign
    case = {"type": typ, "n": n, "masses": [r.choice(MASSES) for _ in range(n)]}
    comps = []
    a0 = 1
    for k in kinds:
        nk = BLOCK.get(k, 5)
        c, _ = gen_comp(r, k, list(range(a0, a0 + nk)), overlap)
        a0 += nk
        comps.append(c)
    if len(comps) == 3:
        cs = r.choice([[1.0, -1.0, 1.0], [-1.0, -1.0, -1.0], [1.0, 2.0, 1.0], [1.0, 1.0, -1.0], [0.5, 1.0, 0.5]])    # the odd one in the middle
        for c_, k_ in zip(comps, cs):
            c_["coeff"] = k_
    if len(comps) == 2:
        cs = r.choice([[1.0, 1.0], [1.0, -1.0], [-1.0, 1.0], [-1.0, -1.0], [2.0, -0.5], [0.5, 1.0]])
        comps[0]["coeff"], comps[1]["coeff"] = cs
    elif r.random() < 0.2:
        comps[0]["coeff"] = r.choice([-1.0, 2.0, -0.5])
    case["comps"] = comps
    case["foreign"] = [nvar + 1, nvar + 2] if nforeign >= 2 else []
    if r.random() < 0.25:
        case["cell"] = [r.choice([4.0, 8.0, 16.0]) for _ in range(3)]
        if r.random() < 0.3:          # forceNoPBC on every component: plain differences in a periodic engine
            case["nopbc"] = True
            for c in comps:
                if "groups" in c:
                    c["nopbc"] = True
    case["T"] = r.choice([0.0, 300.0, 300.0, 512.0])
    case["hide"] = r.random() < 0.35
    case["sub"] = r.random() < 0.35
    case["same"] = 1 if r.random() < 0.45 else 0
    case["inc"] = 1 if r.random() < 0.6 else 0
    if r.random() < 0.6:
        case["bias"] = {"type": "linear", "k": V.dyadic(r, -4, 4, bits=2) or 1.0}
    else:
        case["bias"] = {"type": "harmonic", "k": r.choice([0.5, 1.0, 2.0]), "c": V.dyadic(r, -2, 6, bits=2)}
    if typ in ("LIN", "LOC", "TIM", "RND") and r.random() < 0.15:
        case["bias"] = {"type": "none"}         # plain measurement: no bias applies a force to the variable
    if case["foreign"] and r.random() < 0.15:
        case["late"] = r.randint(1, 2)          # the variable is defined after `late` steps of the run
    if periodic(case) and case["bias"]["type"] != "none":      # a linear bias is refused on a periodic variable
        case["bias"] = {"type": "harmonic", "k": r.choice([0.0625, 0.125, 0.25]), "c": float(r.randint(-170, 170))}

    def geometry():
        for _ in range(200):
            p = [rpos(r) for _ in range(n)]
            if regular(case, p) >= 0.25:
                return p
        return None

    fscale = 2.0 ** 26 if r.random() < 0.1 else 1.0        # engine forces eight orders of magnitude larger

    def field(on=None):
        return [vsc(fscale, rfor(r)) if (on is None or (a + 1) in on) else [0.0, 0.0, 0.0] for a in range(n)]

    zero = [[0.0, 0.0, 0.0] for _ in range(n)]
    P = [geometry() for _ in range(4)]
    if any(p is None for p in P):
        return None
    steps = []
    if typ == "INV":
        if case["same"]:
            steps = [{"pos": P[0], "ef": field()}, {"pos": P[0], "ef": {"back": 1.0}},
                     {"pos": P[1], "ef": field()}, {"pos": P[1], "ef": {"back": 1.0}}]
        else:
            case["inc"] = 1
            steps = [{"pos": P[0], "ef": zero}, {"pos": P[1], "ef": zero}, {"pos": P[2], "ef": zero}, {"pos": P[3], "ef": field()}]
    elif typ == "LIN":
        if not case["same"]:
            case["inc"] = 0
        F, G = field(), field()
        a, b = V.dyadic(r, -2, 2, bits=2), V.dyadic(r, -2, 2, bits=2)
        H = [vadd(vsc(a, f), vsc(b, g)) for f, g in zip(F, G)]
        case["lin"] = [a, b]
        steps = [{"pos": P[0], "ef": e} for e in (zero, F, G, H, zero)]
    elif typ == "LOC":
        va = set(a for c in comps for a in measured_atoms(c))
        foreign = [a for a in range(1, n + 1) if a not in va]      # incl. the unmeasured groups of one-site components
        F = field()
        steps = [{"pos": P[0], "ef": F}]
        for _ in range(3):
            X = field(on=foreign)
            steps.append({"pos": P[0], "ef": [vadd(f, x) for f, x in zip(F, X)]})
        steps.append({"pos": P[0], "ef": F})
    elif typ == "TIM":
        E = [field() for _ in range(4)]
        steps = [{"pos": P[0], "ef": E[0]}, {"pos": P[1], "ef": E[1]}, {"pos": P[0], "ef": E[0]},
                 {"pos": P[2], "ef": E[2]}, {"pos": P[3], "ef": E[3]}]
    elif typ == "PAR":
        # parameters change during the run: target temperature (positive -> 0 -> positive) by the engine, subtractAppliedForce
        # by script; the atoms get exactly Colvars' forces so that the inverse oracle applies at every step
        if case["bias"]["type"] == "none":
            case["bias"] = {"type": "linear", "k": 2.0}
        if not case["same"]:
            case["inc"] = 1
        temps = r.choice([[300.0, None, 0.0, None, 512.0, None, 0.0], [0.0, None, None, 300.0, None, 0.0, None], [512.0, 0.0, 300.0, 0.0, 512.0, None, None]])
        case["T"] = temps[0]
        k_sub = r.randint(2, 5) if (not case["same"] and r.random() < 0.6) else None
        k_cf = r.randint(2, 5) if (not case["same"] and not periodic(case) and r.random() < 0.4) else None     # modifycvcs mid-run
        steps = []
        for i in range(7):
            st = {"pos": P[i % 4], "ef": (zero if not case["same"] else field())}
            if i > 0 and temps[i] is not None:
                st["T"] = temps[i]
            if k_sub is not None and i == k_sub:
                st["subset"] = not case["sub"]
            if k_cf is not None and i == k_cf:
                st["coeffs"] = [kk * r.choice([2.0, 0.5, -1.0, 3.0]) if j == 0 else kk for j, kk in enumerate(c_["coeff"] for c_ in comps)]
            steps.append(st)
        if case["same"]:
            # same-step: every second step hands the forces applied at the previous one back
            for i in range(1, 7, 2):
                steps[i]["pos"] = steps[i - 1]["pos"]
                steps[i]["ef"] = {"back": 1.0}
    elif typ == "OFF":
        # the bias applies its force at some steps only (apply_force switched off and on again while the variable stays
        # active and measured): the applied force is zero between non-zero ones
        if case["bias"]["type"] == "none":
            case["bias"] = {"type": "linear", "k": 2.0}
        if not case["same"]:
            case["inc"] = 1
        case["offmode"] = r.choice(["toggle", "toggle", "tsf", "define"])
        pat = r.choice([[0, 1, 0, 0, 1, 1, 0], [0, 0, 1, 0, 1, 0], [1, 0, 0, 1, 1, 0]])
        if case["offmode"] == "tsf":
            case["tsf"] = r.choice([2, 3, 5])          # also factors that are not powers of two
            case.pop("late", None)
            pat = [0 if i % case["tsf"] == 0 else 1 for i in range(7)]     # awake when step_absolute is a multiple of the factor
        steps = [{"pos": P[i % 4], "ef": (zero if r.random() < 0.5 else field()), "off": bool(o)} for i, o in enumerate(pat)]
    else:
        steps = [{"pos": P[i % 4], "ef": field() if r.random() < 0.7 else zero} for i in range(r.randint(2, 5))]
    case["steps"] = steps
    if typ in ("INV", "OFF", "TIM", "RND", "PAR") and not periodic(case) and r.random() < 0.2:
        case["bias2"] = V.dyadic(r, -3, 3, bits=2) or 1.5
    if r.random() < 0.2:
        # absolute step numbers beyond 2^31, 2^32, 2^53 and near 2^62
        case["it0"] = r.choice([2 ** 31 - 2, 2 ** 31 + 3, 2 ** 32 + 5, 2 ** 53 + 1, 2 ** 62 - 9])
        if case.get("tsf"):
            case["it0"] -= case["it0"] % case["tsf"]        # keep the bias awake at the first step of the pattern
    if typ in ("LIN", "LOC", "TIM", "RND", "INV") and r.random() < 0.15 and len(steps) > 2:
        steps[r.randint(1, len(steps) - 1)]["badcfg"] = True
    case["invok"] = inverse_ok(case)
    return case


def rot_case(r, kind):
    """rmsd / eigenvector in the optimally rotated frame (the default fit): tied to the model (rotation matrix and
    Jacobian derivative taken from the implementation); the inverse oracle applies at temperature 0"""
    c = None
    while c is None:
        c = gen_case(r, 0, "INV", [kind])
    cc = c["comps"][0]
    n = c["n"]
    k = min(n, r.randint(4, 6))
    cc["ids"] = list(range(1, k + 1))
    cc["refs"] = [rpos(r) for _ in range(k)]
    cc["center"], cc["rotate"] = False, True
    cc.pop("gref", None)
    cc.pop("perms", None)
    cc.pop("evopt", None)
    if kind == "eigenvector":
        cc["evec"] = [[V.dyadic(r, -2, 2, bits=3) for _ in range(3)] for _ in range(k)]
        cc["evopt"] = r.choice([None, "normalize"])
    near = cc["refs"]
    if kind == "rmsd" and r.random() < 0.6:
        cc["perms"] = [rand_perm(r, k) for _ in range(r.randint(1, 2))]
        if r.random() < 0.6:          # the atoms sit near a permuted copy: equivalent atoms have exchanged places
            near = r.choice(ref_copies(cc))
    T = r.choice([0.0, 0.0, 300.0])
    c.update({"type": "ROT", "T": T, "invok": T == 0.0, "hide": False if T == 0.0 else c["hide"]})
    c.pop("late", None)
    if c["bias"]["type"] == "harmonic":
        c["bias"] = {"type": "linear", "k": V.dyadic(r, 1, 4, bits=2)}
    z = [[0.0, 0.0, 0.0] for _ in range(n)]
    P = [[vadd(near[a] if a < k else rpos(r), [V.dyadic(r, -1, 1, bits=4) for _ in range(3)]) for a in range(n)] for _ in range(2)]
    if c["same"]:
        c["steps"] = [{"pos": P[0], "ef": z}, {"pos": P[0], "ef": {"back": 1.0}}, {"pos": P[1], "ef": z}, {"pos": P[1], "ef": {"back": 1.0}}]
    else:
        c["inc"] = 1
        c["steps"] = [{"pos": P[0], "ef": z}, {"pos": P[1], "ef": z}, {"pos": P[0], "ef": z}]
    return c


DIV_H = 2.0 ** -12


def div_case(r, kind, rotate=False):
    """numerical divergence of the inverse gradient field: same-step forces, T = 0, no bias; unit force on one coordinate at
    positions displaced by +-h along that coordinate gives d v_(a,k) / d x_(a,k) by central difference"""
    c = None
    while c is None or c.get("cell") or c.get("late") or not inverse_ok(c):       # disjoint groups: the documented setting
        c = rot_case(r, kind) if rotate else gen_case(r, 0, "RND", [kind])
    cc = c["comps"][0]
    cc["coeff"] = 1.0
    c.update({"type": "DIV", "T": 0.0, "hide": False, "sub": False, "same": 1, "inc": 0, "bias": {"type": "none"}, "invok": False})
    c.pop("tsf", None)
    c.pop("offmode", None)
    c.pop("bias2", None)
    n = c["n"]
    P = c["steps"][0]["pos"]
    zero = [[0.0, 0.0, 0.0] for _ in range(n)]
    steps = [{"pos": P, "ef": zero}]
    probes = []
    for a in sorted(set(comp_atoms(cc))):
        for k in range(3):
            ef = [list(z) for z in zero]
            ef[a - 1][k] = 1.0
            for sgn in (1.0, -1.0):
                Q = [list(p) for p in P]
                Q[a - 1][k] += sgn * DIV_H
                steps.append({"pos": Q, "ef": ef})
            probes.append([a, k])
    c["steps"] = steps
    c["probes"] = probes
    return c


def zero_total_case(r):
    """lagged forces, subtractAppliedForce, temperature 0: the engine force cancels the applied force exactly, so the
    measured total force is exactly zero and the reported one must be minus the applied force"""
    case = gen_case(r, 0, "INV", ["distance"])
    while case is None:
        case = gen_case(r, 0, "INV", ["distance"])
    case.update({"type": "ZERO", "T": 0.0, "hide": False, "sub": True, "same": 0, "inc": 1,
                 "bias": {"type": "linear", "k": 2.0}})
    p = case["steps"][0]["pos"]
    zero = [[0.0, 0.0, 0.0] for _ in range(case["n"])]
    case["steps"] = [{"pos": p, "ef": zero}] + [{"pos": p, "ef": {"back": -1.0}} for _ in range(3)]
    return case


# ------------------------------------------------------------------ oracles on the implementation alone
def adds_fj(case):
    return not (case["hide"] and (case["sub"] or case["same"]))


def kinds_of(case):
    return "+".join(c["kind"] for c in case["comps"])


def delivered_is_own(case, t):
    """the atoms of the variable experienced, at the step the report of step t is about, exactly the forces
    Colvars applied (returns the index of that step) -- or None"""
    if case["same"]:
        ef = case["steps"][t]["ef"]
        if isinstance(ef, dict) and ef["back"] == 1.0 and not ef.get("add") and t > 0 and case["steps"][t]["pos"] == case["steps"][t - 1]["pos"]:
            return t - 1
        return None
    if t == 0 or not case["inc"]:
        return None
    ef = case["steps"][t - 1]["ef"]
    if not isinstance(ef, dict) and all(f == [0.0, 0.0, 0.0] for f in ef):
        return t - 1
    return None


def typ_par(case):
    return case.get("type") == "PAR"


def oracle(case, isteps):
    out = []
    kd = kinds_of(case)
    mode = "samestep" if case["same"] else "lagged"
    tfs = [s["tf"].get("v") for s in isteps]
    afs = [s["af"].get("v") for s in isteps]
    if any(x is None for x in tfs + afs):
        return [("output:%s" % kd, "total or applied force not reported")]
    for t, s in enumerate(isteps):
        if tfs[t] != tfs[t]:
            out.append(("inverse:%s:%s:nan" % (kd, mode), "step %d: the reported total force is NaN" % t))
            return out
    # ---- inverse: ft = f + kT*jd (Jacobian term absent when hidden or at temperature 0)
    if case.get("invok"):
        for t in range(len(isteps)):
            s0 = delivered_is_own(case, t)
            if s0 is None:
                continue
            fj = doc_fj(case, case["steps"][s0]["pos"], T_at(case, s0), coeffs_at(case, s0))      # Jacobian term of the step reported, at its temperature
            f = afs[s0]
            sub_t = sub_at(case, t)
            if case["same"]:
                # same step: the Jacobian term is that of the step of the report (same geometry), at its temperature
                fj = doc_fj(case, case["steps"][t]["pos"], T_at(case, t), coeffs_at(case, t))
                exp = f + (0.0 if case["hide"] else fj)
            else:
                comp = case["hide"] and applies(case, s0)
                exp = f + (fj if not (case["hide"] and (sub_t or not comp)) else 0.0) - (f if sub_t else 0.0)
            if not close(tfs[t], exp, 1e-8):
                tag = "hidden" if case["hide"] else ("T0" if T_at(case, s0) == 0 else "jacobian")
                if typ_par(case):
                    tag += ":parameter-change"
                if coeffs_at(case, t) != coeffs_at(case, s0):
                    tag += ":coefficients-changed"      # modifycvcs between the step reported and the report
                out.append(("inverse:%s:%s:%s%s" % (kd, mode, tag, ":subtract" if sub_t else ""),
                            "step %d: the atoms experienced exactly the forces applied for the variable force %r; reported total force %r, "
                            "expected %r (applied force %s documented Jacobian term %r%s)" % (
                                t, f, tfs[t], exp, "without the hidden" if case["hide"] else "plus the", fj,
                                ", minus the applied force (subtractAppliedForce)" if case["sub"] and not case["same"] else "")))
                break
    if not case["same"] and tfs[0] != 0.0:
        out.append(("timing:first-step:%s%s" % (kd, ":late" if case.get("late") else ""),
                    "lagged convention: at the first step at which the variable is computed%s nothing can have been measured, "
                    "but the reported total force is %r" % (" (it was defined after %d steps of the run)" % case["late"] if case.get("late") else "", tfs[0])))
    typ = case["type"]
    first = 0 if case["same"] else 1     # report of step t is about step t (same step) or t-1 (lagged)
    if typ == "LIN" and len(tfs) >= 5:
        a, b = case["lin"]
        o = first
        t0, tF, tG, tH = tfs[o + 0], tfs[o + 1], tfs[o + 2], tfs[o + 3]
        sc = max(1.0, abs(tF - t0), abs(tG - t0), abs(tH - t0))
        if abs((tH - t0) - (a * (tF - t0) + b * (tG - t0))) > 1e-8 * sc:
            out.append(("linear:%s:%s" % (kd, mode), "engine force fields 0, F, G and %r F + %r G at the same geometry give total forces %r %r %r %r: "
                        "not linear" % (a, b, t0, tF, tG, tH)))
    if typ == "LOC":
        vals = tfs[first:first + 4]
        if any(v != vals[0] for v in vals):
            out.append(("local:%s:%s%s" % (kd, mode, ":onesite" if any(c.get("onesite") for c in case["comps"]) else ""),
                        "forces added on atoms outside the variable's (measured) groups change the total force: %r" % vals))
    if typ == "TIM" and len(tfs) >= 5:
        if case["same"]:
            if tfs[0] != tfs[2]:
                out.append(("timing:%s:samestep" % kd, "steps 0 and 2 have identical positions and forces but total forces %r and %r" % (tfs[0], tfs[2])))
        else:
            if tfs[1] != tfs[3]:
                out.append(("timing:%s:lagged" % kd, "steps 1 and 3 follow identical steps (same positions, same forces) but report %r and %r: "
                            "the report of step t must be the projection of the forces of t-1 on the inverse gradients of t-1" % (tfs[1], tfs[3])))
    if typ == "DIV":
        jd = isteps[0].get("rot", {}).get(0, [None] * 5)[4]
        if jd is not None and len(tfs) == 1 + 2 * len(case["probes"]):
            div = sum((tfs[1 + 2 * i] - tfs[2 + 2 * i]) / (2.0 * DIV_H) for i in range(len(case["probes"])))
            if abs(div - jd) > 2e-5 * max(1.0, abs(jd), abs(div)):
                cc = case["comps"][0]
                tag = "%s%s%s%s" % (cc["kind"], ":rotated" if cc.get("rotate") else "", ":permuted" if cc.get("perms") else "",
                                    ":centered" if cc.get("center") else "")
                out.append(("jacobian:divergence:%s" % tag,
                            "the Jacobian derivative of the component is %r but the divergence of the inverse gradient field it projects the forces on "
                            "(central differences, h = 2^-12, over the %d coordinates of its atoms) is %r" % (jd, len(case["probes"]), div)))
    if typ == "ZERO":
        # steps >= 2: the force that acted at the previous step is exactly zero
        for t in range(2, len(isteps)):
            exp = -afs[t - 1]
            if not close(tfs[t], exp):
                out.append(("subtract:zero-total:%s" % kd, "step %d: the total force that acted at step %d is exactly zero (the engine force cancels the applied "
                            "force %r); with subtractAppliedForce the report must be %r, got %r" % (t, t - 1, afs[t - 1], exp, tfs[t])))
                break
    return out


def oracle_twin(case, isteps, twin_steps):
    """subtractAppliedForce on vs off, everything else equal: the difference is Colvars' own applied force of the
    step the report is about (lagged convention); nothing in the same-step convention"""
    out = []
    on, off = (isteps, twin_steps) if case["sub"] else (twin_steps, isteps)
    kd = kinds_of(case)
    for t in range(len(on)):
        a, b = off[t]["tf"].get("v"), on[t]["tf"].get("v")
        if a is None or b is None or a != a or b != b:
            continue
        if case["same"] or t == 0:
            exp = 0.0
        else:
            exp = on[t - 1]["af"]["v"] + (doc_fj(case, case["steps"][t - 1]["pos"]) if (case["hide"] and applies(case, t - 1)) else 0.0)
        if abs((a - b) - exp) > 1e-8 * max(1.0, abs(a), abs(b), abs(exp)):       # relative to the magnitude of the two reports
            out.append(("subtract:%s:%s%s" % (kd, "samestep" if case["same"] else "lagged", ":hidden" if case["hide"] else ""),
                        "step %d: total force without / with subtractAppliedForce %r / %r, difference %r; Colvars' own applied force "
                        "of the step reported is %r" % (t, a, b, a - b, exp)))
            break
    return out


# ------------------------------------------------------------------ tie
def compare(case, isteps, msteps):
    if msteps is None or len(msteps) != len(isteps):
        return "steps", "model produced %s steps, implementation %d" % (None if msteps is None else len(msteps), len(isteps))
    for t, (i, m) in enumerate(zip(isteps, msteps)):
        if not close(i["cv"].get("v", float("nan")), m["value"]):
            return "value", "step %d: value impl %r model %r" % (t, i["cv"].get("v"), m["value"])
        if not close(i["tf"].get("v", float("nan")), m["ft"], 1e-8):
            return "ft", "step %d: total force impl %r model %r" % (t, i["tf"].get("v"), m["ft"])
        if not close(i["af"].get("v", float("nan")), m["f"], 1e-8):
            return "applied", "step %d: applied force impl %r model %r" % (t, i["af"].get("v"), m["f"])
        for a in range(case["n"]):
            fi = i["atomf"].get(a + 1, [0.0, 0.0, 0.0])
            if not all(close(x, y, 1e-8) for x, y in zip(fi, m["forces"][a])):
                return "atomf", "step %d atom %d: force impl %r model %r" % (t, a + 1, fi, m["forces"][a])
    return None


class Runner:
    def __init__(self, model, sim):
        self.model, self.sim = model, sim
        self.scratch = V.scratch("C07")

    def impl(self, cases):
        """run the scenarios; a crash of the simulator loses the rest of the batch, so crashed batches are re-run one by one"""
        scn = []
        for k, c in enumerate(cases):
            scn += scenario(c, k)
        rc, out, err = V.run_lines(self.sim, scn, cwd=self.scratch, timeout=900)
        res = parse_impl(out)
        crashed = {}
        if rc != 0 or any(k not in res or not res[k]["complete"] for k in range(len(cases))):
            for k, c in enumerate(cases):
                if k in res and res[k]["complete"]:
                    continue
                rc1, out1, err1 = V.run_lines(self.sim, scenario(c, 0), cwd=self.scratch, timeout=120)
                r1 = parse_impl(out1)
                if 0 in r1:
                    res[k] = r1[0]
                else:
                    res[k] = {"steps": [], "raw": [], "complete": False, "config": None}
                if rc1 != 0:
                    crashed[k] = rc1
        for k, c in enumerate(cases):       # steps made before a late definition are not the variable's
            late = c.get("late", 0)
            if late and k in res:
                pre = res[k]["steps"][:late]
                res[k]["steps"] = res[k]["steps"][late:]
                if any(st["err"] != "err=ok" for st in pre) and res[k]["steps"]:
                    res[k]["steps"][0]["err"] = "err=pre-steps"
        return res, crashed

    def models(self, cases, impl):
        lines, idx = [], []
        for k, c in enumerate(cases):
            cs = impl.get(k)
            if cs and cs["complete"] and len(cs["steps"]) == len(c["steps"]):
                lines.append(model_line(c, cs["steps"]))
                idx.append(k)
        rc, out, err = V.run_lines(self.model, lines, timeout=900)
        res = {}
        for j, k in enumerate(idx):
            res[k] = (lines[j], parse_model(out[j], cases[k]["n"]) if j < len(out) else None)
        return res


def process(run, runner, cases, sample=0):
    impl, crashed = runner.impl(cases)
    mods = runner.models(cases, impl)
    for k, c in enumerate(cases):
        kd = kinds_of(c)
        mode = "samestep" if c["same"] else "lagged"
        run.dist("type:%s" % c["type"])
        run.dist("mode:%s" % mode)
        for key, on in (("option:step>=2^31", c.get("it0")), ("option:second-bias", c.get("bias2") is not None),
                        ("option:rejected-config-mid-run", any(st.get("badcfg") for st in c["steps"])),
                        ("option:3-components", len(c["comps"]) == 3), ("option:timeStepFactor-%s" % c.get("tsf"), c.get("tsf")),
                        ("option:offmode-%s" % c.get("offmode"), c.get("offmode")), ("option:forceNoPBC", c.get("nopbc")),
                        ("option:late-definition", c.get("late")), ("option:no-bias", c["bias"]["type"] == "none"),
                        ("option:temperature-change", any("T" in st for st in c["steps"])),
                        ("option:subtract-toggled", any("subset" in st for st in c["steps"]))):
            if on:
                run.dist(key)
        for cc in c["comps"]:
            run.dist("kind:%s%s" % (cc["kind"], ":onesite" if cc.get("onesite") else ""))
            if cc.get("perms"):
                run.dist("rmsd:atomPermutation%s" % (":rotated" if cc.get("rotate") else ""))
                if not cc.get("rotate"):
                    for st in c["steps"]:
                        geom(c, cc, st["pos"])
                        run.dist("rmsd:closest-copy:%s" % ("identity" if cc.pop("_best", 0) == 0 else "permuted"))
            if cc.get("evopt"):
                run.dist("eigenvector:%s" % cc["evopt"])
        cs = impl.get(k)
        rp = {"kind": "scenario", "case": c, "scenario": scenario(c, 0)}
        if k in crashed:
            run.violation("crash:%s:%s" % (kd, mode), "the simulator died (exit status %d) running the scenario; last output: %s" % (
                crashed[k], (cs["raw"] or ["(none)"])[-1]), rp)
            continue
        if cs is None or not cs["complete"] or cs["config"] is None:
            run.violation("harness:incomplete", "the scenario did not run to completion", rp)
            continue
        if "err=ok" not in cs["config"] or len(cs["steps"]) != len(c["steps"]) or any(s["err"] != "err=ok" for s in cs["steps"]):
            run.mismatch("config:%s" % kd, {"case": c}, [cs["config"]] + [s["err"] for s in cs["steps"]], "accepted, all steps ok")
            continue
        if any(st.get("badcfg") for st in c["steps"]) and "err=ok" in (cs.get("badcfg_seen") or "err=ok"):
            run.mismatch("config:rejected:%s" % kd, {"case": c}, cs.get("badcfg_seen"), "the invalid configuration is rejected")
        isteps = cs["steps"]
        nontriv = c.get("invok", False) and any(delivered_is_own(c, t) is not None for t in range(len(isteps))) or c["type"] in ("LIN", "LOC", "TIM", "ZERO", "ROT", "OFF", "DIV", "PAR")
        run.count(json.dumps(c, sort_keys=True), bool(nontriv) and any(s["tf"].get("v") not in (None, 0.0) for s in isteps))
        for sig, text in oracle(c, isteps):
            run.violation(sig, text, rp)
        ml, ms = mods.get(k, (None, None))
        bad = compare(c, isteps, ms)
        if bad:
            run.mismatch("%s:%s:%s" % (bad[0], kd, mode), {"case": c, "model_case": ml}, bad[1], "agreement")
        if sample and k < sample:
            run.sample({"config": config_text(c), "flags": {x: c[x] for x in ("T", "hide", "sub", "same", "inc", "type")},
                        "reported": [{"value": s["cv"].get("v"), "total_force": s["tf"].get("v"), "applied_force": s["af"].get("v")} for s in isteps]})
    return impl


def process_twins(run, runner, cases):
    twins = []
    for c in cases:
        t = copy.deepcopy(c)
        t["sub"] = not c["sub"]
        twins.append(t)
    ia, _ = runner.impl(cases)
    ib, _ = runner.impl(twins)
    for k, c in enumerate(cases):
        a, b = ia.get(k), ib.get(k)
        if not (a and b and a["complete"] and b["complete"] and len(a["steps"]) == len(c["steps"]) == len(b["steps"])):
            continue
        run.dist("twin:subtract")
        for sig, text in oracle_twin(c, a["steps"], b["steps"]):
            run.violation(sig, text, {"kind": "twin", "case": c, "scenario": scenario(c, 0), "twin_scenario": scenario(twins[k], 0)})


def process_bias_twins(run, runner, cases):
    """with and without a bias applying a force: where the engine's total force does not contain Colvars' forces
    (same-step convention, or lagged with includecv off) the reported total force is the same"""
    twins = []
    for c in cases:
        t = copy.deepcopy(c)
        t["bias"] = {"type": "none"}
        twins.append(t)
    ia, _ = runner.impl(cases)
    ib, _ = runner.impl(twins)
    for k, c in enumerate(cases):
        a, b = ia.get(k), ib.get(k)
        if not (a and b and a["complete"] and b["complete"] and len(a["steps"]) == len(c["steps"]) == len(b["steps"])):
            continue
        run.dist("twin:nobias")
        for t in range(len(c["steps"])):
            x, y = a["steps"][t]["tf"].get("v"), b["steps"][t]["tf"].get("v")
            if x is None or y is None or x != x:
                continue
            if not close(x, y, 1e-8):
                run.violation("nobias:%s:%s" % (kinds_of(c), "samestep" if c["same"] else "lagged"),
                              "step %d: total force %r with a bias on the variable, %r without any (the engine's total force does not "
                              "contain Colvars' forces in this scenario, so the two must agree)" % (t, x, y),
                              {"kind": "scenario", "case": twins[k], "scenario": scenario(twins[k], 0), "with_bias_scenario": scenario(c, 0)})
                break


def load_corpus():
    out = []
    cp = os.path.join(V.ROOT, "corpus", "C07_cases.txt")
    if os.path.exists(cp):
        for l in open(cp):
            l = l.strip()
            if l and not l.startswith("#"):
                out.append(json.loads(l))
    return out


def setup():
    V.extract_model("C07", EXTRACT, DRIVER, ["ocaml/fops.ml"])
    V.build_prog("c07sim", PROGS["c07sim"])


def check(run):
    r = V.rng("C07")
    quick = run.tier == "quick"
    run.cov["rule"] = ("scenarios: one variable with total force = one or two components (distance, distanceZ, distanceXY with fixed or two-point "
                       "axis, angle, dihedral, gyration, rmsd / eigenvector without rotation, centred or not; oneSiteTotalForce, dummy reference "
                       "groups) with coefficients +-1 (and 2, -1/2), random dyadic masses and positions, a linear or harmonic bias, temperature "
                       "0/300/512, hideJacobian x subtractAppliedForce x force-timing convention x engine includes Colvars' forces; per-step engine "
                       "force fields: exactly the forces Colvars applied (lagged: engine force 0; same step: applyback), random fields, fields on "
                       "foreign atoms, linear combinations, repeated steps. non-trivial = a scenario on which one of the property oracles "
                       "(inverse, linear, local, timing, subtract) applies and a non-zero total force is reported; distinct = distinct scenario")
    run.assumptions += [
        "theorems are about the R instance of the model; the tie runs the float instance on dyadic inputs and compares with relative tolerance 1e-9 (1e-8 for forces)",
        "geometries closer than 0.25 to a documented singular configuration (coincident centres, collinear angle/dihedral groups, zero radius) are rejected by the generator",
        "rotated frames (rotateToReference), fitting groups, periodic cells, alchLambda and extended-Lagrangian variables are outside the model (see NOTES.md); the thorough tier runs the inverse oracle on rotated rmsd/eigenvector",
    ]
    st = V.standard_start(run, PROP, EXTRACT, DRIVER, PROGS)
    if st is None:
        return
    model, exes = st
    runner = Runner(model, exes["c07sim"])

    # corpus + the targeted scenarios first
    first = load_corpus() + [zero_total_case(r)]
    for kind in KINDS:            # every kind in every mode with the inverse oracle
        for same in (0, 1):
            for hide in (False, True):
                c = None
                while c is None or not c["invok"]:
                    c = gen_case(r, 0, "INV", [kind])
                c["same"], c["hide"], c["T"] = same, hide, 300.0
                if same:
                    P = c["steps"][0]["pos"]
                    P1 = c["steps"][2]["pos"] if len(c["steps"]) > 2 else P
                    z = [[0.0, 0.0, 0.0] for _ in range(c["n"])]
                    c["steps"] = [{"pos": P, "ef": z}, {"pos": P, "ef": {"back": 1.0}}, {"pos": P1, "ef": z}, {"pos": P1, "ef": {"back": 1.0}}]
                else:
                    c["inc"] = 1
                    z = [[0.0, 0.0, 0.0] for _ in range(c["n"])]
                    for s in c["steps"][:-1]:
                        s["ef"] = z
                first.append(c)
    for kind in ("distance", "distanceZ", "distanceXY", "angle", "dihedral"):     # one-site locality for every group-based kind
        for same in (0, 1):
            c = None
            while c is None or not c["comps"][0].get("onesite") or c["same"] != same:
                c = gen_case(r, 0, "LOC", [kind])
            first.append(c)
    for kind in ("distance", "angle", "gyration"):        # applied force zero between non-zero ones, subtract on and off
        for sub in (True, False):
            c = None
            want = {"distance": "toggle", "angle": "tsf", "gyration": "define"}[kind]
            while c is None or c["same"] or c.get("offmode") != want:
                c = gen_case(r, 0, "OFF", [kind])
            c["sub"] = sub
            first.append(c)
    for kind in ("distance", "gyration", "angle", "distanceXY"):       # temperature / subtractAppliedForce changed mid-run
        for same in (0, 1):
            c = None
            while c is None or c["same"] != same or c["hide"]:
                c = gen_case(r, 0, "PAR", [kind])
            first.append(c)
    for rep in range(1 if quick else 12):                 # Jacobian derivative = divergence of the inverse gradient field
        for kind in KINDS:
            first.append(div_case(r, kind))
        for kind, want in (("rmsd", "plain"), ("rmsd", "perm"), ("eigenvector", "raw"), ("eigenvector", "normalize")):
            c = None
            while c is None or {"plain": bool(c["comps"][0].get("perms")), "perm": not c["comps"][0].get("perms"),
                                "raw": bool(c["comps"][0].get("evopt")), "normalize": not c["comps"][0].get("evopt")}[want]:
                c = div_case(r, kind, rotate=True)
            first.append(c)
    for i in range(24 if quick else 1200):          # rotated frames
        first.append(rot_case(r, "rmsd" if i % 2 == 0 else "eigenvector"))
    n = 300 if quick else 12000
    cases = list(first)
    target = len(first) + n
    while len(cases) < target:
        c = gen_case(r, len(cases))
        if c is not None:
            cases.append(c)
    # eigenvector scenarios run in their own batches (a crash there must not lose the others)
    ev = [c for c in cases if any(cc["kind"] == "eigenvector" for cc in c["comps"])]
    rest = [c for c in cases if not any(cc["kind"] == "eigenvector" for cc in c["comps"])]
    B = 150
    shown = False
    for group in (rest, ev):
        for b0 in range(0, len(group), B):
            process(run, runner, group[b0:b0 + B], sample=0 if shown else 3)
            shown = True
    tw = [c for c in cases if c["type"] in ("OFF", "ZERO", "INV", "TIM", "RND") and not any(cc["kind"] == "eigenvector" for cc in c["comps"])]
    tw.sort(key=lambda c: 0 if c["type"] in ("OFF", "ZERO") else 1)
    tw = tw[:120 if quick else 3000]
    for b0 in range(0, len(tw), B):
        process_twins(run, runner, tw[b0:b0 + B])
    bt = [c for c in cases if c["type"] in ("LIN", "LOC", "TIM", "RND") and c["bias"]["type"] != "none" and not c["hide"]
          and (c["same"] or (not c["inc"] and not c["sub"])) and not c.get("late") and not any(isinstance(s["ef"], dict) for s in c["steps"])
          and not any(cc["kind"] == "eigenvector" for cc in c["comps"])]
    bt = bt[:80 if quick else 2000]
    for b0 in range(0, len(bt), B):
        process_bias_twins(run, runner, bt[b0:b0 + B])
    run.cov["correspondence"].update({"scenarios": len(cases), "subtract_twins": len(tw), "nobias_twins": len(bt)})


def replay(path):
    j = json.load(open(path))
    rp = j["replay"]
    print(json.dumps({k: v for k, v in j.items() if k != "replay"}, indent=1)[:2000])
    if rp.get("kind") in ("scenario", "twin"):
        model = V.extract_model("C07", EXTRACT, DRIVER, ["ocaml/fops.ml"])
        sim = V.build_prog("c07sim", PROGS["c07sim"])
        runner = Runner(model, sim)
        c = rp["case"]
        impl, crashed = runner.impl([c])
        print("scenario:\n  " + "\n  ".join(scenario(c, 0)))
        print("impl :")
        for l in impl.get(0, {}).get("raw", []):
            print("  ", l)
        if crashed:
            print("simulator exit status", crashed)
        if impl.get(0) and impl[0]["complete"]:
            mods = runner.models([c], impl)
            ml, ms = mods.get(0, (None, None))
            print("model:")
            for m in ms or []:
                print("  ", {k: v for k, v in m.items()})
            print("tie  :", compare(c, impl[0]["steps"], ms))
            print("oracle:", oracle(c, impl[0]["steps"]))
            if rp.get("kind") == "twin":
                t = copy.deepcopy(c)
                t["sub"] = not c["sub"]
                it, _ = runner.impl([t])
                print("twin oracle:", oracle_twin(c, impl[0]["steps"], it[0]["steps"]))
    else:
        print(json.dumps(rp, indent=1)[:3000])
    return 0
