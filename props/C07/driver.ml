(* C07 model driver: one case per line on stdin, one answer line per case.
   RUN natoms m.. cell kT hide subtract samestep includecv ncomp {comp coeff}.. nsteps {pos(3n) eforce(3n) fb apply kT hide subtract coeff(ncomp)}..
     -> per step "value ft f fx fy fz .." joined by " | "
   CVC natoms m.. cell comp pos(3n) F(3n) fc -> "value jd ft forces(3n)"
   comp:  D g g os | DZ g g og ax ay az os | DXY g g og ax ay az os | A g g g os | DH g g g g os
          | GY k id.. | RM k id.. ref(3k) ne copy(3k).. cen | EV k id.. ref(3k) evec(3k) cen
          | RMR k id.. ref(3k) ne copy(3k).. | EVR k id.. ref(3k) evec(3k)   (rotated; each step then carries q0 q1 q2 q3 jd nfit fit(3 nfit) per such comp)
   g: G k id.. | U x y z      og: - | g      cen, cell: N | C x y z      os: 0|1 *)
open Model
open X_fops
let pi = 3.14159265358979323846
let rec nat_of_int n = if n <= 0 then O else S (nat_of_int (n - 1))
let rec int_of_nat = function O -> 0 | S n -> 1 + int_of_nat n

let () =
  try
    while true do
      let line = input_line stdin in
      let w = Array.of_list (words line) in
      if Array.length w > 0 then begin
        let p = ref 1 in
        let next () = let s = w.(!p) in Stdlib.incr p; s in
        let nf () = fl (next ()) in
        let ni () = int_of_string (next ()) in
        let nb () = ni () <> 0 in
        let v3 () = let a = nf () in let b = nf () in let c = nf () in ((a, b), c) in
        let p3 ((a, b), c) = Printf.sprintf "%s %s %s" (hex a) (hex b) (hex c) in
        let ids () = let k = ni () in List.init k (fun _ -> nat_of_int (ni ())) in
        let group () =
          match next () with
          | "G" -> GAtoms (ids ())
          | "U" -> GDummy (v3 ())
          | s -> failwith ("group " ^ s) in
        let ogroup () =
          if w.(!p) = "-" then (Stdlib.incr p; None) else Some (group ()) in
        let cen () = match next () with "N" -> None | "C" -> Some (v3 ()) | s -> failwith ("cen " ^ s) in
        (* rotated components: rotation matrix and Jacobian derivative per step, looked up by the positions closure *)
        let rtabs : (float field * (((float * float) * float) * float) * float * ((float * float) * float) list) list ref list ref = ref [] in
        let newtab () = let t = ref [] in rtabs := !rtabs @ [t]; t in
        let idm = (((1.0, 0.0), 0.0), 0.0) in
        let comp () =
          match next () with
          | "D" -> let a = group () in let b = group () in CDistance (a, b, nb ())
          | "DZ" -> let a = group () in let b = group () in let c = ogroup () in let ax = v3 () in CDistanceZ (a, b, c, ax, nb ())
          | "DXY" -> let a = group () in let b = group () in let c = ogroup () in let ax = v3 () in CDistanceXY (a, b, c, ax, nb ())
          | "A" -> let a = group () in let b = group () in let c = group () in CAngle (a, b, c, nb ())
          | "DH" -> let a = group () in let b = group () in let c = group () in let d = group () in CDihedral (a, b, c, d, nb ())
          | "GY" -> CGyration (ids ())
          | "RM" -> let l = ids () in let r = List.map (fun _ -> v3 ()) l in
            let ne = ni () in let ex = List.init ne (fun _ -> List.map (fun _ -> v3 ()) l) in CRmsd (l, r, ex, cen ())
          | "EV" -> let l = ids () in let r = List.map (fun _ -> v3 ()) l in let e = List.map (fun _ -> v3 ()) l in
            CEigenvector (l, r, e, cen ())
          | "RMR" -> let l = ids () in let r = List.map (fun _ -> v3 ()) l in
            let ne = ni () in let ex = List.init ne (fun _ -> List.map (fun _ -> v3 ()) l) in let t = newtab () in
            CRmsdRot (l, r, ex, (fun p -> try let (_, m, _, _) = List.find (fun (q, _, _, _) -> q == p) !t in m with Not_found -> idm),
                      (fun p -> try let (_, _, j, _) = List.find (fun (q, _, _, _) -> q == p) !t in j with Not_found -> 0.0),
                      (fun p -> try let (_, _, _, f) = List.find (fun (q, _, _, _) -> q == p) !t in f with Not_found -> []))
          | "EVR" -> let l = ids () in let r = List.map (fun _ -> v3 ()) l in let e = List.map (fun _ -> v3 ()) l in let t = newtab () in
            CEigenvectorRot (l, r, e, (fun p -> try let (_, m, _, _) = List.find (fun (q, _, _, _) -> q == p) !t in m with Not_found -> idm),
                      (fun p -> try let (_, _, j, _) = List.find (fun (q, _, _, _) -> q == p) !t in j with Not_found -> 0.0))
          | s -> failwith ("comp " ^ s) in
        let field n = let a = Array.init n (fun _ -> v3 ()) in
          (fun (i : nat) -> let k = int_of_nat i in if k < n then a.(k) else ((0.0, 0.0), 0.0)) in
        (match w.(0) with
         | "RUN" ->
           let n = ni () in
           let ms = Array.init n (fun _ -> nf ()) in
           let mass (i : nat) = let k = int_of_nat i in if k < n then ms.(k) else 1.0 in
           let cell = cen () in
           let kt = nf () in let hide = nb () in let sub = nb () in let same = nb () in let inc = nb () in
           let nc = ni () in
           let comps = List.init nc (fun _ -> let c = comp () in let k = nf () in (c, k)) in
           let cv = { cv_comps = comps; cv_hide = hide; cv_subtract = sub; cv_samestep = same; cv_kT = kt } in
           let ns = ni () in
           let inputs = List.init ns (fun _ -> let ps = field n in let fs = field n in let fb = nf () in let ap = nb () in let ktt = nf () in let hidet = nb () in let subt = nb () in let cft = List.init nc (fun _ -> nf ()) in
                                       List.iter (fun t -> let q0 = nf () in let q1 = nf () in let q2 = nf () in let q3 = nf () in let j = nf () in
                                                   let nfit = ni () in let fit = List.init nfit (fun _ -> v3 ()) in
                                                   t := (ps, (((q0, q1), q2), q3), j, fit) :: !t) !rtabs;
                                       ({ e_pos = ps; e_force = fs; e_fb = fb; e_apply = ap }, (ktt, hidet, subt, cft))) in
           (* the configuration of each step (temperature, hideJacobian, subtractAppliedForce may change during the run) *)
           let (_, routs) = List.fold_left (fun (st, acc) (i, (k, h, sb, cf)) ->
               let cvt = { cv with cv_kT = k; cv_hide = h; cv_subtract = sb; cv_comps = List.map2 (fun (c, _) x -> (c, x)) comps cf } in
               let v = List.fold_left2 (fun a (c, _) x -> a +. x *. cvc_value fops pi cell mass i.e_pos c) 0.0 comps cf in
               let (st', o) = eng_step fops pi cell mass cvt inc st i in (st', (o, v) :: acc)) (eng_init fops, []) inputs in
           let outs = List.rev routs in
           let inputs = List.map fst inputs in
           let one (i : float einput) ((o : float cvout), (value : float)) =
             String.concat " " ([hex value; hex o.o_ft; hex o.o_f] @
                                List.init n (fun a -> p3 (o.o_forces (nat_of_int a)))) in
           print_string (String.concat " | " (List.map2 one inputs outs)); print_newline ()
         | "CVC" ->
           let n = ni () in
           let ms = Array.init n (fun _ -> nf ()) in
           let mass (i : nat) = let k = int_of_nat i in if k < n then ms.(k) else 1.0 in
           let cell = cen () in
           let c = comp () in
           let ps = field n in let fs = field n in let fc = nf () in
           let ap = cvc_apply fops pi cell mass ps c fc in
           print_string (String.concat " " ([hex (cvc_value fops pi cell mass ps c); hex (cvc_jd fops pi cell mass ps c);
                                             hex (cvc_ft fops pi cell mass ps c fs)] @
                                            List.init n (fun a -> p3 (ap (nat_of_int a))))); print_newline ()
         | _ -> print_string "?\n")
      end
    done
  with End_of_file -> ()
