# C02 case generators: systems, component configurations (text for the implementation, token
# lines for the extracted model), rigid motions and the other transformations of the metamorphic search.
import math
import vcommon as V


def hx(x):
    return V.hexf(x)


def g17(x):
    return "%.17g" % x


def vec(v):
    return "(%s, %s, %s)" % (g17(v[0]), g17(v[1]), g17(v[2]))


MASSES_DYADIC = [1.0, 2.0, 4.0, 0.5, 12.0, 16.0, 1.5, 32.0]
MASSES_GENERIC = [1.008, 12.011, 14.007, 15.999, 32.06, 22.98976928]

# group keys of each component type, in the order the model driver reads the groups
GROUPKEYS = {
    "distance": ["group1", "group2"], "distanceVec": ["group1", "group2"], "distanceDir": ["group1", "group2"],
    "distanceInv": ["group1", "group2"], "distanceZ": ["main", "ref", "ref2"], "distanceXY": ["main", "ref", "ref2"],
    "dipoleMagnitude": ["atoms"], "gyration": ["atoms"], "inertia": ["atoms"], "inertiaZ": ["atoms"],
    "cartesian": ["atoms"], "polarTheta": ["atoms"], "polarPhi": ["atoms"],
    "angle": ["group1", "group2", "group3"], "dipoleAngle": ["group1", "group2", "group3"],
    "dihedral": ["group1", "group2", "group3", "group4"],
    "coordNum": ["group1", "group2"], "selfCoordNum": ["group1"], "groupCoord": ["group1", "group2"],
    "hBond": ["atoms"], "distancePairs": ["group1", "group2"],
    # unmodelled (search only)
    "rmsd": ["atoms"], "eigenvector": ["atoms"], "orientation": ["atoms"], "orientationAngle": ["atoms"],
    "orientationProj": ["atoms"], "tilt": ["atoms"], "spinAngle": ["atoms"],
    "eulerPhi": ["atoms"], "eulerPsi": ["atoms"], "eulerTheta": ["atoms"],
    "gspath": ["atoms"], "gzpath": ["atoms"], "aspath": ["atoms"], "azpath": ["atoms"],
}


def write_xyz(path, positions):
    with open(path, "w") as f:
        f.write("%d\nC02 reference frame\n" % len(positions))
        for p in positions:
            f.write("X %s %s %s\n" % (g17(p[0]), g17(p[1]), g17(p[2])))
MODELLED_REF = ["rmsd", "eigenvector", "orientation", "orientationAngle", "orientationProj", "tilt", "spinAngle",
                "eulerPhi", "eulerPsi", "eulerTheta"]
MODELLED = ["distance", "distanceVec", "distanceDir", "distanceZ", "distanceXY", "distanceInv", "dipoleMagnitude",
            "gyration", "inertia", "inertiaZ", "cartesian", "polarTheta", "polarPhi", "angle", "dipoleAngle",
            "dihedral", "coordNum", "selfCoordNum", "groupCoord", "hBond"]
VECTOR_VALUED = {"distanceVec": 3, "distanceDir": 3, "cartesian": None, "distancePairs": None, "orientation": 4}
PERIODIC = {"dihedral": 360.0, "polarPhi": 360.0, "spinAngle": 360.0, "eulerPhi": 360.0, "eulerPsi": 360.0}


# ---------------------------------------------------------------------------------------------
# configuration text / model tokens of one component
# ---------------------------------------------------------------------------------------------

def group_block(key, listing, extra=None, select=None):
    if isinstance(listing, dict):      # a dummy atom at a fixed position
        return ["    %s {" % key, "      dummyAtom " + vec(listing["dummy"]), "    }"]
    if select is not None:             # the same listing spelled with several selection keywords
        s = ["    %s {" % key] + ["      " + l for l in select]
    else:
        s = ["    %s {" % key, "      atomNumbers " + " ".join(str(i) for i in listing)]
    for l in (extra or []):
        s.append("      " + l)
    s.append("    }")
    return s


def comp_block(c):
    """text of the component block of case c"""
    comp = c["comp"]; p = c.get("params", {})
    s = ["  %s {" % comp]
    if not c.get("pbc", 1):
        s.append("    forceNoPBC on")
    if "coeff" in c:
        s.append("    componentCoeff " + g17(c["coeff"]))
    if "exp" in c:
        s.append("    componentExp %d" % c["exp"])
    if comp in ("distanceZ", "distanceXY", "inertiaZ", "tilt", "spinAngle") and p.get("axis") is not None:
        s.append("    axis " + vec(p["axis"]))
    if comp == "distanceInv":
        s.append("    exponent %d" % p["n"])
    if p.get("period"):
        s.append("    period " + g17(p["period"]))
        s.append("    wrapAround " + g17(p.get("wrap", 0.0)))
    if comp == "cartesian":
        for k, a in zip("XYZ", p["use"]):
            s.append("    use%s %s" % (k, "on" if a else "off"))
    if comp in ("coordNum", "groupCoord", "selfCoordNum", "hBond"):
        if p.get("r0v") is not None:
            s.append("    cutoff3 " + vec(p["r0v"]))
        else:
            s.append("    cutoff " + g17(p["r0"]))
        s.append("    expNumer %d" % p["en"])
        s.append("    expDenom %d" % p["ed"])
        if p.get("tol", 0.0) > 0:
            s.append("    tolerance " + g17(p["tol"]))
            if p.get("plfreq"):
                s.append("    pairListFrequency %d" % p["plfreq"])
        if p.get("center"):
            s.append("    group2CenterOnly on")
    if comp == "rmsd" and p.get("reffile"):
        pass
    elif comp in ("rmsd", "eigenvector", "orientation", "orientationAngle", "orientationProj", "tilt", "spinAngle",
                "eulerPhi", "eulerPsi", "eulerTheta"):
        s.append("    refPositions " + " ".join(vec(v) for v in p["ref"]))
    if comp == "eigenvector":
        s.append("    vector " + " ".join(vec(v) for v in p["vector"]))
        if p.get("difference"):
            s.append("    differenceVector on")
        if p.get("normalize"):
            s.append("    normalizeVector on")
    if comp in ("gspath", "gzpath", "aspath", "azpath"):
        for k, f in enumerate(p["files"]):
            s.append("    refPositionsFile%d %s" % (k + 1, f))
        if p.get("lambda") is not None:
            s.append("    lambda " + g17(p["lambda"]))
    if comp == "rmsd" and p.get("reffile"):
        s.append("    refPositionsFile " + p["reffile"])
    if comp == "rmsd":
        for perm in p.get("perms", []):
            s.append("    atomPermutation " + " ".join(str(i) for i in perm))
    if comp == "orientation" and p.get("closest") is not None:
        s.append("    closestToQuaternion (%s, %s, %s, %s)" % tuple(g17(x) for x in p["closest"]))
    if comp == "hBond":
        s.append("    acceptor %d" % c["groups"][0][0])
        s.append("    donor %d" % c["groups"][0][1])
    else:
        keys = GROUPKEYS[comp]
        for k, listing in zip(keys, c["groups"]):
            s += group_block(k, listing, (c.get("group_extra") or {}).get(k), (c.get("group_select") or {}).get(k))
    s.append("  }")
    return s


def config_of(cases, name="c"):
    """one variable made of the given component cases (optionally nested in a linearCombination component)"""
    s = []
    if cases[0].get("indexfile"):
        s.append("indexFile " + cases[0]["indexfile"])
    s += ["colvar {", "  name " + name]
    wrap = cases[0].get("wrap")
    if wrap:
        s.append("  %s {" % wrap)
    for c in cases:
        s += comp_block(c)
    if wrap:
        s.append("  }")
    s.append("}")
    return s


def sys_tokens(c):
    cell = c.get("cell")
    t = ["%d" % len(c["atoms"]), "1" if cell else "0"] + [hx(x) for x in (cell or [0.0, 0.0, 0.0])]
    for a in c["atoms"]:
        t += [hx(x) for x in a]
    return t


def impl_line(cases, atoms=None, cell=None):
    c0 = cases[0]
    sysc = {"atoms": atoms if atoms is not None else c0["atoms"], "cell": cell if cell is not None else c0.get("cell")}
    return "E " + " ".join(sys_tokens(sysc)) + " | " + ";".join(config_of(cases))


def pos_line(atoms):
    return "P " + " ".join(hx(x) for a in atoms for x in a[2:5])


def model_tokens(c):
    comp = c["comp"]; p = c.get("params", {})
    cell = c.get("cell")
    if p.get("period"):
        c2 = dict(c); c2["params"] = {k: v for k, v in p.items() if k not in ("period", "wrap")}
        return ["W", hx(p["period"]), hx(p.get("wrap", 0.0))] + model_tokens(c2)
    t = [comp, "%d" % c.get("pbc", 1), "1" if cell else "0"] + [hx(x) for x in (cell or [0.0, 0.0, 0.0])]
    ngroups = len(c["groups"])
    if comp in ("distanceZ", "distanceXY"):
        ax = p.get("axis")
        fixed = ngroups == 2
        t += ["1" if fixed else "0"] + [hx(x) for x in (ax if ax is not None else [0.0, 0.0, 1.0])]
    if comp == "distanceInv":
        t.append("%d" % p["n"])
    if comp == "inertiaZ":
        t += [hx(x) for x in (p.get("axis") if p.get("axis") is not None else [0.0, 0.0, 1.0])]
    if comp == "cartesian":
        t += ["1" if a else "0" for a in p["use"]]
    if comp in ("coordNum", "groupCoord"):
        t += [hx(p["r0"]), "1" if p.get("r0v") is not None else "0"] + [hx(x) for x in (p.get("r0v") or [0.0, 0.0, 0.0])]
        t += ["%d" % p["en"], "%d" % p["ed"]]
        if comp == "coordNum":
            t += [hx(p.get("tol", 0.0)), "1" if p.get("center") else "0"]
    if comp == "selfCoordNum":
        t += [hx(p["r0"]), "%d" % p["en"], "%d" % p["ed"], hx(p.get("tol", 0.0))]
    if comp == "hBond":
        t += [hx(p["r0"]), "%d" % p["en"], "%d" % p["ed"]]
    if comp in ("rmsd", "eigenvector"):
        t += ["%d" % len(p["ref"])] + [hx(x) for v in p["ref"] for x in v]
        if comp == "eigenvector":
            t += [hx(x) for v in p["vector"] for x in v]
    if comp in ("orientation", "orientationAngle", "orientationProj", "tilt", "spinAngle", "eulerPhi", "eulerPsi", "eulerTheta"):
        t += ["%d" % len(p["ref"])] + [hx(x) for v in p["ref"] for x in v]
        t += [hx(x) for x in (p.get("axis") or [0.0, 0.0, 1.0])]
        t += [hx(x) for x in (p.get("closest") or [1.0, 0.0, 0.0, 0.0])]
    for listing in c["groups"]:
        if isinstance(listing, dict):  # a dummy atom behaves as one atom of unit mass at that position
            t += ["G", "1", "9999", hx(1.0), hx(0.0)] + [hx(x) for x in listing["dummy"]]
            continue
        t += ["G", "%d" % len(listing)]
        for i in listing:
            a = c["atoms"][i - 1]
            t += ["%d" % (i - 1)] + [hx(x) for x in a]
    return t


def model_line(cases):
    if len(cases) == 1 and "coeff" not in cases[0] and "exp" not in cases[0]:
        return " ".join(model_tokens(cases[0]))
    parts = ["COMBINE %d" % len(cases)]
    for c in cases:
        parts.append("; %s %d %s" % (hx(c.get("coeff", 1.0)), c.get("exp", 1), " ".join(model_tokens(c))))
    return " ".join(parts)


# ---------------------------------------------------------------------------------------------
# geometry helpers (python floats; used by generators and oracles)
# ---------------------------------------------------------------------------------------------

def sub(a, b): return [a[0] - b[0], a[1] - b[1], a[2] - b[2]]
def add(a, b): return [a[0] + b[0], a[1] + b[1], a[2] + b[2]]
def dot(a, b): return a[0] * b[0] + a[1] * b[1] + a[2] * b[2]
def scale(s, a): return [s * a[0], s * a[1], s * a[2]]
def norm(a): return math.sqrt(dot(a, a))
def cross(a, b): return [a[1] * b[2] - a[2] * b[1], a[2] * b[0] - a[0] * b[2], a[0] * b[1] - a[1] * b[0]]
def matvec(M, v): return [dot(M[0], v), dot(M[1], v), dot(M[2], v)]


def dedup(listing):
    if isinstance(listing, dict):
        return listing
    out = []
    for i in listing:
        if i not in out:
            out.append(i)
    return out


def com_of(atoms, listing):
    if isinstance(listing, dict):
        return list(listing["dummy"])
    ids = dedup(listing)
    M = sum(atoms[i - 1][0] for i in ids)
    s = [0.0, 0.0, 0.0]
    for i in ids:
        s = add(s, scale(atoms[i - 1][0], atoms[i - 1][2:5]))
    return scale(1.0 / M, s)


def min_image(d, cell):
    if not cell:
        return d
    return [x - math.floor(x / L + 0.5) * L for x, L in zip(d, cell)]


def quat_matrix(q):
    q0, q1, q2, q3 = q
    return [[q0 * q0 + q1 * q1 - q2 * q2 - q3 * q3, 2 * (q1 * q2 - q0 * q3), 2 * (q0 * q2 + q1 * q3)],
            [2 * (q0 * q3 + q1 * q2), q0 * q0 - q1 * q1 + q2 * q2 - q3 * q3, 2 * (q2 * q3 - q0 * q1)],
            [2 * (q1 * q3 - q0 * q2), 2 * (q0 * q1 + q2 * q3), q0 * q0 - q1 * q1 - q2 * q2 + q3 * q3]]


def random_unit_quat(r):
    while True:
        q = [r.gauss(0, 1) for _ in range(4)]
        n = math.sqrt(sum(x * x for x in q))
        if n > 0.3:
            return [x / n for x in q]


# the 24 proper rotations that map the axes onto the axes (signed permutation matrices, det +1)
def axis_rotations():
    out = []
    import itertools
    for perm in itertools.permutations(range(3)):
        for signs in itertools.product([1, -1], repeat=3):
            M = [[0.0] * 3 for _ in range(3)]
            for i in range(3):
                M[i][perm[i]] = float(signs[i])
            det = (M[0][0] * (M[1][1] * M[2][2] - M[1][2] * M[2][1]) - M[0][1] * (M[1][0] * M[2][2] - M[1][2] * M[2][0])
                   + M[0][2] * (M[1][0] * M[2][1] - M[1][1] * M[2][0]))
            if det > 0:
                out.append(M)
    return out


AXIS_ROT = axis_rotations()


def move_atoms(atoms, M, t, only=None):
    out = []
    for k, a in enumerate(atoms):
        if only is not None and (k + 1) not in only:
            out.append(list(a))
        else:
            out.append([a[0], a[1]] + add(matvec(M, a[2:5]), t))
    return out


IDENT = [[1.0, 0.0, 0.0], [0.0, 1.0, 0.0], [0.0, 0.0, 1.0]]


# ---------------------------------------------------------------------------------------------
# systems
# ---------------------------------------------------------------------------------------------

def gen_atoms(r, n, generic=False, lo=-6, hi=6, bits=6):
    atoms = []
    for _ in range(n):
        if generic:
            m = r.choice(MASSES_GENERIC + MASSES_DYADIC)
            q = round(r.uniform(-1.5, 1.5), 3)
            x = [r.uniform(lo, hi) for _ in range(3)]
        else:
            m = r.choice(MASSES_DYADIC)
            q = V.dyadic(r, -2, 2, bits=3)
            x = [V.dyadic(r, lo, hi, bits=bits) for _ in range(3)]
        atoms.append([m, q] + x)
    return atoms


def gen_groups(r, natoms, ng, disjoint=False, maxsize=4, dup=0.3, minsize=1):
    """ng listings of atom numbers; with probability dup one listing repeats one of its entries"""
    ids = list(range(1, natoms + 1))
    groups = []
    if disjoint:
        r.shuffle(ids)
        sizes = []
        left = natoms
        for k in range(ng):
            mx = min(maxsize, left - (ng - k - 1) * minsize)
            s = r.randint(minsize, max(minsize, mx))
            sizes.append(s); left -= s
        pos = 0
        for s in sizes:
            groups.append(ids[pos:pos + s]); pos += s
    else:
        for k in range(ng):
            s = r.randint(minsize, min(maxsize, natoms))
            groups.append(r.sample(ids, s))
    for g in groups:
        if r.random() < dup:
            g.insert(r.randint(1, len(g)), r.choice(g))
    return groups


def gen_cell(r, generic=False):
    if generic and r.random() < 0.5:
        return [r.choice([9.0, 10.0, 12.5, 11.3, 14.0]) for _ in range(3)]
    return [r.choice([8.0, 16.0, 32.0]) for _ in range(3)]


def respell(r, c, sdir, tag):
    """rewrite the atom selections of case c with the other selection keywords (several atomNumbers lines, indexGroup with
    an index file, atomNumbersRange, atomsOfGroup of a named group); c["groups"] becomes the listing in the order in which
    atom_group::parse adds the atoms: atomsOfGroup, atomNumbers (each line), indexGroup, atomNumbersRange (each line)"""
    comp = c["comp"]
    if comp == "hBond" or any(isinstance(l, dict) for l in c["groups"]):
        return False
    natoms = len(c["atoms"])
    sel = {}; ndx = []; newgroups = []
    keys = GROUPKEYS[comp]
    named = None
    for gi, listing in enumerate(c["groups"]):
        key = keys[gi]
        ids = dedup(listing)
        lines = []; model = []
        if gi == 0 and len(c["groups"]) > 1 and r.random() < 0.4:
            lines.append("name c02named"); named = list(ids)
        if gi > 0 and named is not None and r.random() < 0.6 and comp not in ("coordNum", "distanceInv", "groupCoord", "distancePairs"):
            lines.append("atomsOfGroup c02named"); model += named
        rest = list(listing)
        r.shuffle(rest)
        # some consecutive atoms may be selected ONLY through atomNumbersRange
        only_range = None
        pres = sorted(set(rest))
        runs0 = [(a, b) for a, b in zip(pres, pres[1:]) if b == a + 1]
        if runs0 and len(pres) > 2 and r.random() < 0.5:
            only_range = r.choice(runs0)
            rest = [x for x in rest if x not in only_range]
        k1 = r.randint(1, len(rest))
        part1, rest = rest[:k1], rest[k1:]
        lines.append("atomNumbers " + " ".join(map(str, part1))); model += part1
        if rest and r.random() < 0.5:
            k2 = r.randint(1, len(rest)); part2, rest = rest[:k2], rest[k2:]
            lines.append("atomNumbers " + " ".join(map(str, part2))); model += part2
        if rest and r.random() < 0.7:
            gname = "g%s%d" % (tag.replace("_", ""), gi)
            ndx.append("[ %s ]\n%s\n" % (gname, " ".join(map(str, rest))))
            lines.append("indexGroup " + gname); model += rest; rest = []
        if rest:
            lines.append("atomNumbers " + " ".join(map(str, rest))); model += rest
            # keep parse order: all atomNumbers lines come before indexGroup in the model listing
        # a range over atoms already selected (pure duplicates) or extending the group when that keeps the case valid
        present = sorted(set(model))
        runs = [(a, b) for a, b in zip(present, present[1:]) if b == a + 1]
        if only_range is not None:
            lines.append("atomNumbersRange %d-%d" % only_range)
        if runs and r.random() < 0.5:
            a, b = r.choice(runs)
            lines.append("atomNumbersRange %d-%d" % (a, b)); model += list(range(a, b + 1))
        # model listing in parse order: atomsOfGroup, then every atomNumbers line, then indexGroup, then ranges
        of = [l for l in lines if l.startswith("atomsOfGroup")]
        nums = [l for l in lines if l.startswith("atomNumbers ")]
        idx = [l for l in lines if l.startswith("indexGroup")]
        rng = [l for l in lines if l.startswith("atomNumbersRange")]
        m2 = []
        if of:
            m2 += named
        for l in nums:
            m2 += [int(x) for x in l.split()[1:]]
        for l in idx:
            m2 += [int(x) for x in ndx[-1].split("\n")[1].split()]
        for l in rng:
            a, b = l.split()[1].split("-"); m2 += list(range(int(a), int(b) + 1))
        sel[key] = lines
        newgroups.append(m2)
    c["group_select"] = sel
    c["groups"] = newgroups
    if ndx:
        f = "%s/%s.ndx" % (sdir, tag)
        open(f, "w").write("".join(ndx))
        c["indexfile"] = f
    return True
