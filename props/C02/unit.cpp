// C02 unit driver: evaluates real colvar objects on given systems through the engine simulator
// (one case per input line, one answer line per case), and calls the optimal-rotation code directly.
//   E <natoms> <hascell> <lx> <ly> <lz> <m q x y z>*natoms | <config, ';' = newline>
//        -> "ok <values of all variables, hex>"  or  "err <class>"
//   P <x y z>*natoms        re-evaluate the configuration of the last E line at new positions (next step)
//   R <N>                   start a new run of the same session at absolute step N
//   ROT <n> <pos1: 3n> <pos2: 3n>   rotation::calc_optimal_rotation(pos1, pos2):
//        -> C(9) S(16) eigval(4) eigvec(16, rows) q(4)
//   QFUN <q0 q1 q2 q3> <ax ay az>   -> rotation_matrix(9) spin_angle cos_theta   (q used as given)
//   PD <hascell> <lx ly lz> <p1> <p2>  -> position_distance(p1, p2)
#include <cstdio>
#include <cstdlib>
#include <cstring>
#include <cmath>
#include <iostream>
#include <fstream>
#include <sstream>
#include <string>
#include <vector>
#include <map>
#include <algorithm>
#include <functional>
#include <thread>
#include <mutex>
#include <memory>
#include <list>
#include <unistd.h>
#define private public
#define protected public
#include "vsim.h"
#undef private
#undef protected

static double num(std::string const &s) { return strtod(s.c_str(), NULL); }
static std::string H(double x) { return vs_hex(x); }

int main()
{
  vsim_session S(&std::cout);
  std::string line;
  bool configured = false;
  while (std::getline(std::cin, line)) {
    std::ostream &o = std::cout;
    std::string head = line, conf;
    size_t bar = line.find('|');
    if (bar != std::string::npos) { head = line.substr(0, bar); conf = line.substr(bar + 1); }
    std::istringstream is(head);
    std::string cmd; if (!(is >> cmd)) continue;
    std::vector<std::string> a; std::string w; while (is >> w) a.push_back(w);
    size_t p = 0;
    auto nf = [&]() { return p < a.size() ? num(a[p++]) : 0.0; };
    auto ni = [&]() { return p < a.size() ? atoi(a[p++].c_str()) : 0; };
    auto v3 = [&]() { double x = nf(), y = nf(), z = nf(); return cvm::rvector(x, y, z); };
    auto evaluate = [&]() {
      cvm::clear_error();
      int err = S.proxy->step();
      err |= cvm::get_error();
      if (err != COLVARS_OK) { o << "err " << vs_errclass(err) << "\n"; cvm::clear_error(); return; }
      o << "ok";
      for (colvar *c : *(S.proxy->colvars->variables())) o << " " << vs_hex(c->value());
      o << "\n";
    };
    if (cmd == "D") {
      // D <name>: cv colvar <name> delete
      if (!configured) { o << "err noconfig\n"; continue; }
      std::vector<std::string> words = {"cv", "colvar", a[0], "delete"};
      std::vector<unsigned char *> argv;
      for (auto &sw : words) argv.push_back((unsigned char *) sw.c_str());
      cvm::clear_error();
      int err = run_colvarscript_command(argv.size(), argv.data());
      o << (err == COLVARS_OK ? "ok" : "err") << "\n";
      cvm::clear_error();
    } else if (cmd == "C") {
      // C | <more configuration>: cv config in the middle of the session (may be rejected)
      if (!configured) { o << "err noconfig\n"; continue; }
      std::replace(conf.begin(), conf.end(), ';', '\n');
      cvm::clear_error();
      int err = S.proxy->colvars->read_config_string(conf);
      err |= cvm::get_error();
      o << (err == COLVARS_OK ? "ok" : "err") << " nvars " << S.proxy->colvars->variables()->size() << "\n";
      cvm::clear_error();
    } else if (cmd == "E" || cmd == "EF") {
      int n = ni();
      S.eng.resize(n);
      S.eng.has_cell = ni() != 0;
      for (int k = 0; k < 3; k++) S.eng.L[k] = nf();
      for (int i = 0; i < n; i++) {
        S.eng.mass[i] = nf(); S.eng.charge[i] = nf();
        S.eng.pos[i] = v3();
      }
      std::replace(conf.begin(), conf.end(), ';', '\n');
      S.fresh();
      configured = false;
      cvm::clear_error();
      int err;
      if (cmd == "EF") {   // the same configuration through a file (cv configfile)
        char fn[256]; snprintf(fn, sizeof(fn), "c02_conf_%d.in", (int) getpid());  // in the working directory (never under /tmp)
        { std::ofstream f(fn); f << conf; }
        err = S.proxy->colvars->read_config_file(fn);
        remove(fn);
      } else {
        err = S.proxy->colvars->read_config_string(conf);
      }
      err |= cvm::get_error();
      if (err != COLVARS_OK || S.proxy->colvars->variables()->size() == 0) {
        o << "err config:" << vs_errclass(err) << "\n";
        cvm::clear_error();
        continue;
      }
      configured = true;
      evaluate();
    } else if (cmd == "P") {
      if (!configured) { o << "err noconfig\n"; continue; }
      for (int i = 0; i < S.eng.natoms; i++) S.eng.pos[i] = v3();
      evaluate();
    } else if (cmd == "S") {
      // S <param> <value>: colvar::set_cvc_param on the (single-component) variable
      if (!configured) { o << "err noconfig\n"; continue; }
      colvar *cv = (*(S.proxy->colvars->variables()))[0];
      cvm::clear_error();
      int err;
      if (a[0] == "componentExp") { int n = atoi(a[1].c_str()); err = cv->set_cvc_param(a[0], &n); }
      else { cvm::real x = num(a[1]); err = cv->set_cvc_param(a[0], &x); }
      err |= cvm::get_error();
      o << (err == COLVARS_OK ? "ok" : "err") << "\n";
      cvm::clear_error();
    } else if (cmd == "M" || cmd == "F") {
      // M | <conf of component 0> ~ <conf of component 1> ~ ...   = cv colvar c modifycvcs (colvar::update_cvc_config)
      // F <b0> <b1> ...                                            = cv colvar c cvcflags   (colvar::set_cvc_flags)
      if (!configured) { o << "err noconfig\n"; continue; }
      colvar *cv = (*(S.proxy->colvars->variables()))[0];
      cvm::clear_error();
      int err = COLVARS_OK;
      if (cmd == "M") {
        std::vector<std::string> confs; std::string cur;
        std::replace(conf.begin(), conf.end(), ';', '\n');
        for (size_t k = 0; k <= conf.size(); k++) {
          if (k == conf.size() || conf[k] == '~') {
            size_t b = cur.find_first_not_of(" \n"); size_t e = cur.find_last_not_of(" \n");
            confs.push_back(b == std::string::npos ? std::string("") : cur.substr(b, e - b + 1));
            cur.clear();
          } else cur += conf[k];
        }
        err = cv->update_cvc_config(confs);
      } else {
        std::vector<bool> flags;
        while (p < a.size()) flags.push_back(ni() != 0);
        err = cv->set_cvc_flags(flags);
      }
      err |= cvm::get_error();
      o << (err == COLVARS_OK ? "ok" : "err") << "\n";
      cvm::clear_error();
    } else if (cmd == "R") {
      // R <N>: a new run of the same session starts at absolute step N (the engine calls set_initial_step(N));
      // the next P line is the first step of that run
      if (!configured) { o << "err noconfig\n"; continue; }
      S.proxy->colvars->set_initial_step(atol(a[p++].c_str()));
      S.proxy->first_step = true;
      o << "ok\n";
    } else if (cmd == "ROT") {
      int n = ni();
      std::vector<cvm::atom_pos> p1(n), p2(n);
      for (int i = 0; i < n; i++) p1[i] = v3();
      for (int i = 0; i < n; i++) p2[i] = v3();
      if (!S.proxy) S.fresh();
      cvm::clear_error();
      cvm::rotation rot;
      rot.calc_optimal_rotation(p1, p2);
      o << "ok " << H(rot.C.xx) << " " << H(rot.C.xy) << " " << H(rot.C.xz) << " "
        << H(rot.C.yx) << " " << H(rot.C.yy) << " " << H(rot.C.yz) << " "
        << H(rot.C.zx) << " " << H(rot.C.zy) << " " << H(rot.C.zz);
      for (int i = 0; i < 4; i++) for (int j = 0; j < 4; j++) o << " " << H(rot.S_backup[i][j]);
      for (int i = 0; i < 4; i++) o << " " << H(rot.S_eigval[i]);
      for (int i = 0; i < 4; i++) for (int j = 0; j < 4; j++) o << " " << H(rot.S_eigvec[i][j]);
      o << " " << H(rot.q.q0) << " " << H(rot.q.q1) << " " << H(rot.q.q2) << " " << H(rot.q.q3);
      o << (cvm::get_error() ? " error" : "") << "\n";
      cvm::clear_error();
    } else if (cmd == "QFUN") {
      if (!S.proxy) S.fresh();
      double q0 = nf(), q1 = nf(), q2 = nf(), q3 = nf();
      cvm::rvector ax = v3();
      cvm::rotation rot(cvm::quaternion(q0, q1, q2, q3));
      cvm::rmatrix R = rot.matrix();
      o << "ok " << H(R.xx) << " " << H(R.xy) << " " << H(R.xz) << " " << H(R.yx) << " " << H(R.yy) << " " << H(R.yz)
        << " " << H(R.zx) << " " << H(R.zy) << " " << H(R.zz) << " " << H(rot.spin_angle(ax)) << " " << H(rot.cos_theta(ax)) << "\n";
    } else if (cmd == "SORTMAP" || cmd == "LOADXYZ") {
      // SORTMAP <natoms> <n> <atom numbers in listing order>     -> sorted ids (0-based) | sorted_atoms_ids_map
      // LOADXYZ <natoms> <n> <atom numbers> | <file>            -> positions attached to the atoms, in listing order
      int natoms = ni(); int n = ni();
      if (!S.proxy || S.eng.natoms != natoms) { S.eng.resize(natoms); S.fresh(); }
      std::string numbers;
      for (int i = 0; i < n; i++) numbers += a[p++] + " ";
      cvm::clear_error();
      cvm::atom_group *ag = new cvm::atom_group("c02group");
      ag->add_atom_numbers(numbers);
      if (cmd == "SORTMAP") {
        ag->create_sorted_ids();
        o << "ok";
        for (size_t i = 0; i < ag->sorted_ids().size(); i++) o << " " << ag->sorted_ids()[i];
        o << " |";
        for (size_t i = 0; i < ag->sorted_ids_map().size(); i++) o << " " << ag->sorted_ids_map()[i];
        o << "\n";
      } else {
        std::string file = conf;
        file.erase(0, file.find_first_not_of(" "));
        file.erase(file.find_last_not_of(" \n") + 1);
        std::vector<cvm::atom_pos> pos(ag->size());
        int err = cvm::load_coords(file.c_str(), &pos, ag, std::string(""), 0.0);
        if (err != COLVARS_OK || cvm::get_error()) { o << "err " << vs_errclass(err | cvm::get_error()) << "\n"; }
        else {
          o << "ok";
          for (size_t i = 0; i < pos.size(); i++) o << " " << H(pos[i].x) << " " << H(pos[i].y) << " " << H(pos[i].z);
          o << "\n";
        }
      }
      delete ag;
      cvm::clear_error();
    } else if (cmd == "PDT") {
      // PDT <a> <b> <c> <p1> <p2>: position_distance in the triclinic cell with vectors a, b, c
      if (!S.proxy) S.fresh();
      cvm::rvector a3 = v3(), b3 = v3(), c3 = v3();
      S.proxy->boundaries_type = colvarproxy_system::boundaries_pbc_triclinic;
      S.proxy->unit_cell_x = a3; S.proxy->unit_cell_y = b3; S.proxy->unit_cell_z = c3;
      S.proxy->update_pbc_lattice();
      cvm::rvector p1 = v3(), p2 = v3();
      cvm::rvector d = S.proxy->position_distance(p1, p2);
      o << "ok " << H(d.x) << " " << H(d.y) << " " << H(d.z) << "\n";
      S.proxy->update_cell();
    } else if (cmd == "PD") {
      if (!S.proxy) S.fresh();
      S.eng.has_cell = ni() != 0;
      for (int k = 0; k < 3; k++) S.eng.L[k] = nf();
      S.proxy->update_cell();
      cvm::rvector p1 = v3(), p2 = v3();
      cvm::rvector d = S.proxy->position_distance(p1, p2);
      o << "ok " << H(d.x) << " " << H(d.y) << " " << H(d.z) << "\n";
    } else {
      o << "?\n";
    }
    o.flush();
  }
  return 0;
}
