(* C02 model driver: one case per line, one answer line per case (hex floats).
   Scalar/vector component lines:
     <COMP> <pbc> <hascell> <lx> <ly> <lz> <params...> { G <n> <id m q x y z>*n }*
   COMBINE <k> ; <c> <n> <component line> ; ...        variable = sum c_i q_i^n_i
   ROTM <n> <pos1: 3n> <pos2: 3n> <q0 q1 q2 q3>        -> C(9) S(16) sq_dev(q) |x|^2 |y|^2 q'Sq
   QM <q0 q1 q2 q3>                                    -> rotation_matrix(9)
   PD <hascell> <lx ly lz> <p1> <p2>                   -> position_distance *)
open Model
open X_fops
let pi = 3.14159265358979323846

let p3 ((a, b), c) = Printf.sprintf "%s %s %s" (hex a) (hex b) (hex c)
let p4 (((a, b), c), d) = Printf.sprintf "%s %s %s %s" (hex a) (hex b) (hex c) (hex d)

exception Bad of string

(* independent eigen-solver for the tie of the rotation-based components: cyclic Jacobi on a symmetric 4x4 matrix,
   returns the normalised eigenvector of the largest eigenvalue (NOT part of the extracted model; its result is
   only ever used as the argument q of the model's value functions) *)
let top_eigenvector (s : float array array) : float array =
  let n = 4 in
  let a = Array.map Array.copy s in
  let v = Array.init n (fun i -> Array.init n (fun j -> if i = j then 1.0 else 0.0)) in
  for _sweep = 1 to 60 do
    for p = 0 to n - 2 do
      for q = p + 1 to n - 1 do
        if Float.abs a.(p).(q) > 1e-300 then begin
          let theta = (a.(q).(q) -. a.(p).(p)) /. (2.0 *. a.(p).(q)) in
          let t = (if theta >= 0.0 then 1.0 else -1.0) /. (Float.abs theta +. sqrt (theta *. theta +. 1.0)) in
          let c = 1.0 /. sqrt (t *. t +. 1.0) in
          let sn = t *. c in
          for k = 0 to n - 1 do
            let akp = a.(k).(p) and akq = a.(k).(q) in
            a.(k).(p) <- c *. akp -. sn *. akq; a.(k).(q) <- sn *. akp +. c *. akq
          done;
          for k = 0 to n - 1 do
            let apk = a.(p).(k) and aqk = a.(q).(k) in
            a.(p).(k) <- c *. apk -. sn *. aqk; a.(q).(k) <- sn *. apk +. c *. aqk
          done;
          for k = 0 to n - 1 do
            let vkp = v.(k).(p) and vkq = v.(k).(q) in
            v.(k).(p) <- c *. vkp -. sn *. vkq; v.(k).(q) <- sn *. vkp +. c *. vkq
          done
        end
      done
    done
  done;
  let best = ref 0 in
  for i = 1 to n - 1 do if a.(i).(i) > a.(!best).(!best) then best := i done;
  let e = Array.init n (fun k -> v.(k).(!best)) in
  let nn = sqrt (Array.fold_left (fun acc x -> acc +. x *. x) 0.0 e) in
  Array.map (fun x -> x /. nn) e

let optimal_q (pairs : ((float * float) * float) list * ((float * float) * float) list) : (((float * float) * float) * float) =
  let (p1, p2) = pairs in
  let l = List.combine p1 p2 in
  let (((s0, s1), s2), s3) = overlap_matrix fops (corr_matrix fops l) in
  let row (((a, b), c), d) = [| a; b; c; d |] in
  let e = top_eigenvector [| row s0; row s1; row s2; row s3 |] in
  (((e.(0), e.(1)), e.(2)), e.(3))

let rec eval (w : string array) : float list =
  if Array.length w > 3 && w.(0) = "W" then begin
    (* W <period> <wrapAround> <scalar component line>: the component made periodic (cvc::wrap) *)
    let per = fl w.(1) in let cen = fl w.(2) in
    match eval (Array.sub w 3 (Array.length w - 3)) with
    | [x] -> [if per = 0.0 then x else cvc_wrap fops cen per x]
    | _ -> raise (Bad "W needs a scalar component")
  end else
  let p = ref 1 in
  let next () = if !p >= Array.length w then raise (Bad "short") else (let s = w.(!p) in Stdlib.incr p; s) in
  let nf () = fl (next ()) in
  let ni () = int_of_string (next ()) in
  let v3 () = let a = nf () in let b = nf () in let c = nf () in ((a, b), c) in
  let pbc = ni () <> 0 in
  let hc = ni () <> 0 in
  let cellv = v3 () in
  let cell = if hc then Some cellv else None in
  let group () =
    if next () <> "G" then raise (Bad "G expected");
    let n = ni () in
    let l = List.init n (fun _ ->
      let id = ni () in let m = nf () in let q = nf () in let x = v3 () in
      { a_id = z_of_int id; a_mass = m; a_charge = q; a_pos = x }) in
    mk_group l in
  let l3 ((a, b), c) = [a; b; c] in
  match w.(0) with
  | "distance" -> let g1 = group () in let g2 = group () in [cv_distance fops pbc cell g1 g2]
  | "distanceVec" -> let g1 = group () in let g2 = group () in l3 (cv_distance_vec fops pbc cell g1 g2)
  | "distanceDir" -> let g1 = group () in let g2 = group () in l3 (cv_distance_dir fops pbc cell g1 g2)
  | "distanceZ" | "distanceXY" ->
    let fixed = ni () <> 0 in
    let axis = v3 () in
    let main = group () in let rf = group () in
    if fixed then
      [if w.(0) = "distanceZ" then cv_distance_z_fixed fops pbc cell axis main rf
       else cv_distance_xy_fixed fops pbc cell axis main rf]
    else
      let rf2 = group () in
      [if w.(0) = "distanceZ" then cv_distance_z_ref2 fops pbc cell main rf rf2
       else cv_distance_xy_ref2 fops pbc cell main rf rf2]
  | "distanceInv" -> let n = ni () in let g1 = group () in let g2 = group () in
    [cv_distance_inv fops pbc cell (z_of_int n) g1 g2]
  | "dipoleMagnitude" -> let g = group () in [cv_dipole_magnitude fops g]
  | "gyration" -> let g = group () in [cv_gyration fops g]
  | "inertia" -> let g = group () in [cv_inertia fops g]
  | "inertiaZ" -> let axis = v3 () in let g = group () in [cv_inertia_z fops axis g]
  | "cartesian" -> let ux = ni () <> 0 in let uy = ni () <> 0 in let uz = ni () <> 0 in
    let g = group () in cv_cartesian ux uy uz g
  | "angle" -> let g1 = group () in let g2 = group () in let g3 = group () in [cv_angle fops pi pbc cell g1 g2 g3]
  | "dipoleAngle" -> let g1 = group () in let g2 = group () in let g3 = group () in [cv_dipole_angle fops pi pbc cell g1 g2 g3]
  | "dihedral" -> let g1 = group () in let g2 = group () in let g3 = group () in let g4 = group () in
    [cv_dihedral fops pi pbc cell g1 g2 g3 g4]
  | "polarTheta" -> let g = group () in [cv_polar_theta fops pi g]
  | "polarPhi" -> let g = group () in [cv_polar_phi fops pi g]
  | "coordNum" ->
    let r0 = nf () in let aniso = ni () <> 0 in let r0v = v3 () in
    let en = ni () in let ed = ni () in let tol = nf () in let center = ni () <> 0 in
    let g1 = group () in let g2 = group () in
    let rv = if aniso then Some r0v else None in
    [if center then cv_coordnum_center fops r0 rv (z_of_int en) (z_of_int ed) tol cell g1 g2
     else cv_coordnum fops r0 rv (z_of_int en) (z_of_int ed) tol cell g1 g2]
  | "selfCoordNum" ->
    let r0 = nf () in let en = ni () in let ed = ni () in let tol = nf () in
    let g = group () in [cv_selfcoordnum fops r0 (z_of_int en) (z_of_int ed) tol cell g]
  | "groupCoord" ->
    let r0 = nf () in let aniso = ni () <> 0 in let r0v = v3 () in
    let en = ni () in let ed = ni () in
    let g1 = group () in let g2 = group () in
    [cv_groupcoord fops r0 (if aniso then Some r0v else None) (z_of_int en) (z_of_int ed) cell g1 g2]
  | "hBond" ->
    let r0 = nf () in let en = ni () in let ed = ni () in
    let g = group () in
    (match g with
     | [a; d] -> [cv_hbond fops r0 (z_of_int en) (z_of_int ed) cell a d]
     | _ -> raise (Bad "hBond needs two distinct atoms"))
  | "coordNumPL" ->
    (* pair list built at the first positions, value at the second positions *)
    let r0 = nf () in let aniso = ni () <> 0 in let r0v = v3 () in
    let en = ni () in let ed = ni () in let tol = nf () in
    let g1 = group () in let g2 = group () in
    let h1 = group () in let h2 = group () in
    let rv = if aniso then Some r0v else None in
    let pl = pairlist_build fops r0 rv (z_of_int en) (z_of_int ed) tol cell g1 g2 in
    [cv_coordnum_pl fops pl r0 rv (z_of_int en) (z_of_int ed) tol cell h1 h2]
  | "rmsdperm" ->
    (* reference, number of permutations, each as n indices into the group's listing order, group *)
    let n = ni () in
    let rf = List.init n (fun _ -> v3 ()) in
    let np = ni () in
    let rec nat_of_int k = if k <= 0 then O else S (nat_of_int (k - 1)) in
    let perms = List.init np (fun _ -> List.init n (fun _ -> nat_of_int (ni ()))) in
    let g = group () in
    let q = optimal_q (List.split (fit_pairs fops rf g)) in
    [cv_rmsd_perm fops q rf perms g]
  | "coordNumRuns" ->
    (* pair list over steps and runs: frequency, parameters, number of runs, per run: number of frames, frames (two groups each) *)
    let freq = ni () in
    let r0 = nf () in let aniso = ni () <> 0 in let r0v = v3 () in
    let en = ni () in let ed = ni () in let tol = nf () in
    let rv = if aniso then Some r0v else None in
    let nruns = ni () in
    let runs = List.init nruns (fun _ -> let nfr = ni () in List.init nfr (fun _ -> let g1 = group () in let g2 = group () in (g1, g2))) in
    (* the list before the first run is irrelevant (every run starts with a rebuild): start from an empty one *)
    List.concat (pl_session fops (z_of_int freq) r0 rv (z_of_int en) (z_of_int ed) tol cell [] runs)
  | "selfCoordNumRuns" ->
    (* frequency, parameters, number of runs, per run: number of frames, one group per frame *)
    let freq = ni () in
    let r0 = nf () in let en = ni () in let ed = ni () in let tol = nf () in
    let nruns = ni () in
    let runs = List.init nruns (fun _ -> let nfr = ni () in List.init nfr (fun _ -> self_pts (group ()))) in
    List.concat (pl_session_pts fops (z_of_int freq) r0 None (z_of_int en) (z_of_int ed) tol cell [] runs)
  | "selfCoordNumPL" ->
    (* pair list built at the first positions, value at the second *)
    let r0 = nf () in let en = ni () in let ed = ni () in let tol = nf () in
    let g = group () in let h = group () in
    let pl = pl_build_pts fops r0 None (z_of_int en) (z_of_int ed) tol cell (self_pts g) in
    [pl_value_pts fops pl r0 None (z_of_int en) (z_of_int ed) tol cell (self_pts h)]
  | "coordNumCenterPL" ->
    let r0 = nf () in let aniso = ni () <> 0 in let r0v = v3 () in
    let en = ni () in let ed = ni () in let tol = nf () in
    let g1 = group () in let g2 = group () in let h1 = group () in let h2 = group () in
    let rv = if aniso then Some r0v else None in
    let pl = pl_build_pts fops r0 rv (z_of_int en) (z_of_int ed) tol cell (center_pairs fops g1 g2) in
    [pl_value_pts fops pl r0 rv (z_of_int en) (z_of_int ed) tol cell (center_pairs fops h1 h2)]
  | "eigenvectorOpt" ->
    let diff = ni () <> 0 in let norm = ni () <> 0 in
    let n = ni () in
    let rf = List.init n (fun _ -> v3 ()) in
    let vec = List.init n (fun _ -> v3 ()) in
    let g = group () in
    let q = optimal_q (List.split (fit_pairs fops rf g)) in
    let qd = if diff then optimal_q (center_pts fops vec, center_pts fops rf) else q in
    [cv_eigenvector_v fops q rf (eigvec_prepare fops diff norm qd rf vec) g]
  | "aspath" | "azpath" ->
    (* lambda (<0: automatic), number of frames, atoms per frame, frames, group *)
    let lam = nf () in
    let nfr = ni () in let n = ni () in
    let frames = List.init nfr (fun _ -> List.init n (fun _ -> v3 ())) in
    let g = group () in
    let qs = List.map (fun fr -> optimal_q (List.split (fit_pairs fops fr g))) frames in
    let lambda =
      if lam >= 0.0 then lam else begin
        let rec pairs = function a :: (b :: _ as r) -> (a, b) :: pairs r | _ -> [] in
        let rm = List.map (fun (f1, f2) ->
          let q = optimal_q (center_pts fops f1, center_pts fops f2) in frame_pair_rmsd fops q f1 f2) (pairs frames) in
        auto_lambda fops rm end in
    let (sv, zv) = cv_apath fops lambda qs frames g in
    [if w.(0) = "aspath" then sv else zv]
  | "fitcart" ->
    (* cartesian coordinates of a group fitted through fitg: rotate flag, reference, fitting group, group *)
    let rot = ni () <> 0 in
    let n = ni () in
    let rf = List.init n (fun _ -> v3 ()) in
    let fitg = group () in let g = group () in
    let q = optimal_q (List.split (fit_pairs fops rf fitg)) in
    flat_coords (fit_general fops rot q rf fitg g)
  | "distancePairs" -> let g1 = group () in let g2 = group () in cv_distance_pairs fops pbc cell g1 g2
  | "rmsd" | "eigenvector" ->
    let n = ni () in
    let rf = List.init n (fun _ -> v3 ()) in
    let vec = if w.(0) = "eigenvector" then List.init n (fun _ -> v3 ()) else [] in
    let g = group () in
    let q = optimal_q (List.split (fit_pairs fops rf g)) in
    [if w.(0) = "rmsd" then cv_rmsd fops q rf g else cv_eigenvector fops q rf vec g]
  | "orientation" | "orientationAngle" | "orientationProj" | "tilt" | "spinAngle" | "eulerPhi" | "eulerPsi" | "eulerTheta" ->
    let n = ni () in
    let rf = List.init n (fun _ -> v3 ()) in
    let axis = v3 () in
    let r0 = nf () in let r1 = nf () in let r2 = nf () in let r3 = nf () in
    let refq = (((r0, r1), r2), r3) in
    let g = group () in
    let q = optimal_q (List.split (orient_pairs fops rf g)) in
    let l4 (((a, b), c), d) = [a; b; c; d] in
    (match w.(0) with
     | "orientation" -> l4 (cv_orientation fops refq q)
     | "orientationAngle" -> [cv_orientation_angle fops pi q]
     | "orientationProj" -> [cv_orientation_proj fops q]
     | "tilt" -> [cv_tilt fops pi axis q]
     | "spinAngle" -> [cv_spin_angle fops pi axis q]
     | "eulerPhi" -> [cv_euler_phi fops pi q]
     | "eulerPsi" -> [cv_euler_psi fops pi q]
     | _ -> [cv_euler_theta fops pi q])
  | s -> raise (Bad ("unknown component " ^ s))

let split_semis (ws : string list) : string list list =
  let rec go cur acc = function
    | [] -> List.rev (List.rev cur :: acc)
    | ";" :: r -> go [] (List.rev cur :: acc) r
    | x :: r -> go (x :: cur) acc r in
  go [] [] ws

let () =
  try
    while true do
      let line = input_line stdin in
      let ws = words line in
      let w = Array.of_list ws in
      if Array.length w > 0 then begin
        (try
          (match w.(0) with
           | "COMBINE" ->
             (match split_semis ws with
              | _ :: parts ->
                let terms = List.map (fun part ->
                  match part with
                  | c :: n :: rest ->
                    (match eval (Array.of_list rest) with
                     | [q] -> ((fl c, z_of_int (int_of_string n)), q)
                     | _ -> raise (Bad "scalar component expected"))
                  | _ -> raise (Bad "term")) parts in
                Printf.printf "%s\n" (hex (cv_combine fops terms))
              | [] -> raise (Bad "empty"))
           | "COMBH" ->
             (* COMBH <scalar|vector> ; <coeff> <exp> <active> <component line> ; ... ; EV <nev> { M <k> (<coeff>|-) (<exp>|-) ... | F <k> <b> ... } *)
             (match split_semis ws with
              | hd :: parts ->
                let vector = (List.nth hd 1 = "vector") in
                let comps = List.filter (fun p -> match p with "EV" :: _ -> false | _ -> true) parts in
                let evp = List.filter (fun p -> match p with "EV" :: _ -> true | _ -> false) parts in
                let init = List.map (fun part -> match part with
                  | c :: n :: act :: _ -> { su_coeff = fl c; su_exp = z_of_int (int_of_string n); su_active = (act <> "0") }
                  | _ -> raise (Bad "component")) comps in
                let vals = List.map (fun part -> match part with
                  | _ :: _ :: _ :: rest -> eval (Array.of_list rest)
                  | _ -> raise (Bad "component")) comps in
                let events =
                  match evp with
                  | [ "EV" :: _ :: toks ] ->
                    let rec go toks acc = match toks with
                      | [] -> List.rev acc
                      | "M" :: k :: r ->
                        let k = int_of_string k in
                        let rec take i r acc2 = if i = 0 then (List.rev acc2, r) else
                          (match r with c :: n :: r2 ->
                            take (i - 1) r2 (((if c = "-" then None else Some (fl c)), (if n = "-" then None else Some (z_of_int (int_of_string n)))) :: acc2)
                           | _ -> raise (Bad "M event")) in
                        let (confs, r2) = take k r [] in go r2 (SupModify confs :: acc)
                      | "F" :: k :: r ->
                        let k = int_of_string k in
                        let rec take i r acc2 = if i = 0 then (List.rev acc2, r) else
                          (match r with b :: r2 -> take (i - 1) r2 ((b <> "0") :: acc2) | _ -> raise (Bad "F event")) in
                        let (flags, r2) = take k r [] in go r2 (SupFlags flags :: acc)
                      | _ -> raise (Bad "event") in
                    go toks []
                  | _ -> [] in
                let st = sup_run events init in
                if vector then
                  let n = (match vals with v :: _ -> List.length v | [] -> 0) in
                  let rec nat_of_int k = if k <= 0 then O else S (nat_of_int (k - 1)) in
                  Printf.printf "%s\n" (String.concat " " (List.map hex (sup_vector fops (nat_of_int n) st vals)))
                else
                  Printf.printf "%s\n" (hex (sup_scalar fops st (List.map (fun v -> match v with [q] -> q | _ -> raise (Bad "scalar expected")) vals)))
              | [] -> raise (Bad "empty"))
           | "ROTM" ->
             let p = ref 1 in
             let nf () = let s = w.(!p) in Stdlib.incr p; fl s in
             let n = int_of_string w.(!p) in Stdlib.incr p;
             let v3 () = let a = nf () in let b = nf () in let c = nf () in ((a, b), c) in
             let p1 = List.init n (fun _ -> v3 ()) in
             let p2 = List.init n (fun _ -> v3 ()) in
             let a = nf () in let b = nf () in let c = nf () in let d = nf () in
             let q = (((a, b), c), d) in
             let l = List.combine p1 p2 in
             let cm = corr_matrix fops l in
             let ((r1, r2), r3) = cm in
             let s = overlap_matrix fops cm in
             let (((s0, s1), s2), s3) = s in
             let (nx, ny) = sq_norms fops l in
             Printf.printf "%s %s %s %s %s %s %s %s %s %s %s\n" (p3 r1) (p3 r2) (p3 r3) (p4 s0) (p4 s1) (p4 s2) (p4 s3)
               (hex (sq_dev fops q l)) (hex nx) (hex ny) (hex (quad_form fops s q))
           | "SORTMAP" ->
             (* SORTMAP <n> <ids 0-based in listing order> -> sorted ids | map *)
             let n = int_of_string w.(1) in
             let ids = List.init n (fun i -> z_of_int (int_of_string w.(2 + i))) in
             let rec int_of_nat = function O -> 0 | S m -> 1 + int_of_nat m in
             Printf.printf "%s | %s\n" (String.concat " " (List.map (fun z -> string_of_int (int_of_z z)) (sorted_ids ids)))
               (String.concat " " (List.map (fun m -> string_of_int (int_of_nat m)) (sorted_map ids)))
           | "LOADC" ->
             (* LOADC <n> <ids> <3n floats: entries in increasing id order> -> entries in listing order *)
             let n = int_of_string w.(1) in
             let ids = List.init n (fun i -> z_of_int (int_of_string w.(2 + i))) in
             let sp = List.init n (fun i -> ((fl w.(2 + n + 3 * i), fl w.(3 + n + 3 * i)), fl w.(4 + n + 3 * i))) in
             Printf.printf "%s\n" (String.concat " " (List.map p3 (load_coords ((0.0, 0.0), 0.0) ids sp)))
           | "QM" ->
             let q = (((fl w.(1), fl w.(2)), fl w.(3)), fl w.(4)) in
             let ((r1, r2), r3) = rotation_matrix fops q in
             Printf.printf "%s %s %s\n" (p3 r1) (p3 r2) (p3 r3)
           | "PDT" ->
             let f i = fl w.(i) in
             let v i = ((f i, f (i + 1)), f (i + 2)) in
             Printf.printf "%s\n" (p3 (pd_cell fops (v 1) (v 4) (v 7) (v 10) (v 13)))
           | "PD" ->
             let hc = int_of_string w.(1) <> 0 in
             let f i = fl w.(i) in
             let cell = if hc then Some ((f 2, f 3), f 4) else None in
             Printf.printf "%s\n" (p3 (position_distance fops cell ((f 5, f 6), f 7) ((f 8, f 9), f 10)))
           | _ ->
             Printf.printf "%s\n" (String.concat " " (List.map hex (eval w))))
        with
        | Bad s -> Printf.printf "bad %s\n" s
        | Failure s -> Printf.printf "bad %s\n" s
        | Invalid_argument s -> Printf.printf "bad %s\n" s)
      end
    done
  with End_of_file -> ()
