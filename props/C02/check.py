# C02: variable values equal their mathematical definition and respect its symmetries.
import os, sys, json, math
import vcommon as V
import c02gen as G

HIST_SCALAR = ["distance", "distanceZ", "distanceXY", "distanceInv", "gyration", "inertia", "angle", "dihedral", "coordNum",
               "selfCoordNum", "dipoleMagnitude"]
NEVER_ZERO = ("distance", "distanceInv", "gyration", "inertia", "dipoleMagnitude")


def gen_history(r, k):
    """a variable of 1-3 components and a history of run-time changes (modifycvcs: componentCoeff / componentExp / forceNoPBC;
    cvcflags; atoms moving); returns the base cases and the list of steps"""
    vector = (k % 4 == 3)
    ncomp = r.choice([1, 1, 2, 3])
    base = gen_until(r, "distanceVec" if vector else r.choice(HIST_SCALAR), generic=(k % 3 == 2), dup=0.1)
    if base is None:
        return None
    cs = [base]
    for j in range(ncomp - 1):
        for _ in range(60):
            comp = "distanceVec" if vector else r.choice(HIST_SCALAR)
            pr = gen_params(r, comp, False)
            ng = NGROUPS[comp]
            if comp in ("distanceZ", "distanceXY") and pr.get("axis") is None:
                pr["axis"] = [0.0, 0.0, 1.0]
            groups = G.gen_groups(r, len(base["atoms"]), ng, disjoint=(comp in DISJOINT),
                                  minsize=2 if comp in ("selfCoordNum", "gyration", "inertia", "dipoleMagnitude") else 1, dup=0.1)
            c2 = {"comp": comp, "pbc": base["pbc"], "params": pr, "groups": groups, "atoms": base["atoms"], "cell": base["cell"]}
            c2["params"].pop("tol", None)
            if well_conditioned(c2):
                cs.append(c2); break
        else:
            return None
    for c in cs:
        c["params"].pop("tol", None)
    # the configuration lists the components in any order; colvar::init_components stores them by component type
    # (std::map order of the keyword), then by order of appearance: modifycvcs / cvcflags index them in THAT order
    cfg_order = list(range(len(cs))); r.shuffle(cfg_order)
    cs.sort(key=lambda c: c["comp"])
    default = (ncomp == 1 and r.random() < 0.7)
    state = []
    for c in cs:
        if not default and r.random() < 0.6:
            c["coeff"] = r.choice([-1.0, 2.0, 0.5, 3.0]); 
            if not vector:
                c["exp"] = r.choice([1, 2, 3])
        state.append({"coeff": c.get("coeff", 1.0), "exp": c.get("exp", 1), "active": 1})
    events = []; steps = []
    atoms = [list(a) for a in base["atoms"]]
    cases0 = [dict(c) for c in cs]          # the configuration as first written
    for e in range(r.randint(3, 5)):
        kind = r.choice(["modify", "modify", "flags", "move", "nopbc", "badmodify", "period", "setparam"])
        line = None; ev = None
        if kind == "flags" and ncomp >= 2:
            fl = [r.randint(0, 1) for _ in cs]
            if not any(fl):
                fl[r.randrange(ncomp)] = 1
            line = "F " + " ".join(map(str, fl)); ev = ["F", "%d" % ncomp] + [str(b) for b in fl]
        elif kind == "nopbc" and base["cell"] is not None:
            j = r.randrange(ncomp); cs[j] = dict(cs[j]); cs[j]["pbc"] = 1 - cs[j].get("pbc", 1)
            confs = ["" for _ in cs]; confs[j] = "forceNoPBC " + ("off" if cs[j]["pbc"] else "on")
            line = "M | " + " ~ ".join(confs)
        elif kind == "period" and any(c["comp"] == "distanceZ" for c in cs):
            j = r.choice([j for j, c in enumerate(cs) if c["comp"] == "distanceZ"])
            cs[j] = dict(cs[j]); cs[j]["params"] = dict(cs[j]["params"])
            cs[j]["params"]["period"] = r.choice([2.0, 4.0, 8.0]); cs[j]["params"]["wrap"] = r.choice([0.0, 1.0, -0.5])
            confs = ["" for _ in cs]
            confs[j] = "period %s;wrapAround %s" % (G.g17(cs[j]["params"]["period"]), G.g17(cs[j]["params"]["wrap"]))
            line = "M | " + " ~ ".join(confs)
        elif kind == "setparam" and ncomp == 1 and default:
            # colvar::set_cvc_param (allowed for variables that were single-component with unit coefficient at initialisation)
            if vector or r.random() < 0.6:
                co = r.choice([2.0, -1.0, 0.5, 4.0]); line = "S componentCoeff " + G.hx(co); ev = ["M", "1", G.hx(co), "-"]
            else:
                ex = r.choice([2, 3, 1, 0]); line = "S componentExp %d" % ex; ev = ["M", "1", "-", "%d" % ex]
        elif kind == "move":
            for _ in range(30):
                moved = [[a[0], a[1]] + [x + r.gauss(0, 0.3) for x in a[2:5]] for a in atoms]
                if all(well_conditioned(dict(c, atoms=moved)) for c in cs):
                    atoms = moved; break
        elif kind == "badmodify" and ncomp >= 2:
            line = "M | componentCoeff 5.0"      # one string for several components: rejected, nothing may change
            ev = ["M", "1", G.hx(5.0), "-"]
        else:
            confs = []; toks = ["M", "%d" % ncomp]
            for j, c in enumerate(cs):
                parts = []; tc = "-"; tn = "-"
                if r.random() < 0.7:
                    co = r.choice([2.0, -1.0, 0.5, 1.0, -0.25, 4.0]); parts.append("componentCoeff " + G.g17(co)); tc = G.hx(co)
                if not vector and r.random() < 0.5:
                    ex = r.choice([1, 2, 3, 0] + ([-1, -2] if c["comp"] in NEVER_ZERO else [])); parts.append("componentExp %d" % ex); tn = "%d" % ex
                confs.append(";".join(parts)); toks += [tc, tn]
            line = "M | " + " ~ ".join(x.replace(";", "\n") if False else x for x in confs)
            ev = toks
        if ev:
            events.append(ev)
        steps.append({"line": line, "atoms": [list(a) for a in atoms], "cases": [dict(c) for c in cs], "events": [list(x) for x in events], "kind": kind})
    # components of one type keep their relative order in the configuration; types are interleaved at random
    perm = sorted(range(len(cs)), key=lambda j: (cfg_order[j], j))
    bytype = {}
    for j in perm:
        bytype.setdefault(cs[j]["comp"], []).append(j)
    cfg = []
    taken = {t: 0 for t in bytype}
    for j in perm:
        t = cs[j]["comp"]; cfg.append(cases0[sorted(bytype[t])[taken[t]]]); taken[t] += 1
    return {"cases0": cases0, "cases_cfg": cfg, "vector": vector, "steps": steps, "default": default}


def hist_model_line(h, st):
    parts = ["COMBH " + ("vector" if h["vector"] else "scalar")]
    for c0, c in zip(h["cases0"], st["cases"]):
        cc = dict(c, atoms=st["atoms"]); cc.pop("coeff", None); cc.pop("exp", None)
        parts.append("; %s %d 1 %s" % (G.hx(c0.get("coeff", 1.0)), c0.get("exp", 1), " ".join(G.model_tokens(cc))))
    toks = []
    for ev in st["events"]:
        toks += ev
    parts.append("; EV %d %s" % (len(st["events"]), " ".join(toks)))
    return " ".join(parts)


PROPS = ["coq/C02/Properties_C02.v", "coq/C02/Properties_C02_rot.v", "coq/C02/Properties_C02_sym.v", "coq/C02/Properties_C02_fit.v",
         "coq/C02/Properties_C02_load.v", "coq/C02/Properties_C02_path.v", "coq/C02/Properties_C02_sup.v", "coq/C02/Properties_C02_cell.v"]
EXTRACT = "coq/C02/Extract_C02.v"
DRIVER = "props/C02/driver.ml"
UNIT = {"c02unit": ["props/C02/unit.cpp"]}
TOL = 1e-9


def close(a, b, tol=TOL, period=None):
    if math.isnan(a) or math.isnan(b):
        return False
    d = a - b
    if period:
        d -= round(d / period) * period
    return abs(d) <= tol * max(1.0, abs(a), abs(b))


def vclose(a, b, tol=TOL, period=None):
    return a is not None and b is not None and len(a) == len(b) and all(close(x, y, tol, period) for x, y in zip(a, b))


def parse_impl(s):
    w = s.split()
    if not w or w[0] != "ok":
        return None
    try:
        return [float.fromhex(t) for t in w[1:] if t != "error"]
    except ValueError:
        return None


def parse_model(s):
    try:
        return [float.fromhex(t) for t in s.split()]
    except ValueError:
        return None


# ---------------------------------------------------------------------------------------------
# python-side geometry of a case: used ONLY to keep generated cases away from singular geometries
# (zero distances, |cos| ~ 1, pair distance ~ cut-off, displacement ~ half a cell edge)
# ---------------------------------------------------------------------------------------------

def pd(c, p1, p2, pbc=None):
    d = G.sub(p2, p1)
    use = c.get("pbc", 1) if pbc is None else pbc
    return G.min_image(d, c.get("cell")) if use else d


def near_half_cell(c, pairs):
    cell = c.get("cell")
    if not cell:
        return False
    for p1, p2 in pairs:
        for x, L in zip(G.sub(p2, p1), cell):
            f = x / L + 0.5
            if abs(f - round(f)) < 1e-7 and not (float(x * 64).is_integer() and float(math.log2(L)).is_integer()):
                return True
    return False


def well_conditioned(c):
    comp = c["comp"]; atoms = c["atoms"]; p = c.get("params", {})
    gs = [G.dedup(l) for l in c["groups"]]
    pos = lambda i: atoms[i - 1][2:5]
    try:
        coms = [G.com_of(atoms, l) for l in gs]
    except ZeroDivisionError:
        return False
    if comp in ("distance", "distanceVec", "distanceDir"):
        return G.norm(pd(c, coms[0], coms[1])) > 0.25 and not near_half_cell(c, [(coms[0], coms[1])])
    if comp in ("distanceZ", "distanceXY"):
        if len(gs) == 2:
            d = pd(c, coms[1], coms[0]); ax = p.get("axis") or [0.0, 0.0, 1.0]
            ax = G.scale(1.0 / G.norm(ax), ax)
            pairs = [(coms[1], coms[0])]
        else:
            a = pd(c, coms[1], coms[2])
            if G.norm(a) < 0.25:
                return False
            ax = G.scale(1.0 / G.norm(a), a)
            mid = G.scale(0.5, G.add(coms[1], coms[2]))
            d = pd(c, coms[1], coms[0]) if comp == "distanceXY" else pd(c, mid, coms[0])
            pairs = [(coms[1], coms[2]), (coms[1], coms[0]), (mid, coms[0])]
        if near_half_cell(c, pairs):
            return False
        if comp == "distanceXY":
            o = G.sub(d, G.scale(G.dot(d, ax), ax))
            return G.norm(o) > 0.25
        return True
    if comp == "distanceInv":
        prs = [(pos(i), pos(j)) for i in gs[0] for j in gs[1]]
        return all(G.norm(pd(c, a, b)) > 0.25 for a, b in prs) and not near_half_cell(c, prs)
    if comp == "dipoleMagnitude":
        dip = [0.0, 0.0, 0.0]
        for i in gs[0]:
            dip = G.add(dip, G.scale(atoms[i - 1][1], G.sub(pos(i), coms[0])))
        return G.norm(dip) > 0.1
    if comp in ("gyration", "inertia", "inertiaZ"):
        return len(gs[0]) >= 2
    if comp in ("angle", "dipoleAngle"):
        if comp == "angle":
            r21 = pd(c, coms[1], coms[0])
            pairs = [(coms[1], coms[0]), (coms[1], coms[2])]
        else:
            r21 = [0.0, 0.0, 0.0]
            for i in gs[0]:
                r21 = G.add(r21, G.scale(atoms[i - 1][1], G.sub(pos(i), coms[0])))
            pairs = [(coms[1], coms[2])]
        r23 = pd(c, coms[1], coms[2])
        if G.norm(r21) < 0.25 or G.norm(r23) < 0.25 or near_half_cell(c, pairs):
            return False
        return abs(G.dot(r21, r23) / (G.norm(r21) * G.norm(r23))) < 0.99
    if comp == "dihedral":
        r12 = pd(c, coms[0], coms[1]); r23 = pd(c, coms[1], coms[2]); r34 = pd(c, coms[2], coms[3])
        if near_half_cell(c, [(coms[0], coms[1]), (coms[1], coms[2]), (coms[2], coms[3])]):
            return False
        return G.norm(G.cross(r12, r23)) > 0.25 and G.norm(G.cross(r23, r34)) > 0.25 and G.norm(r23) > 0.25
    if comp == "polarTheta":
        r = G.norm(coms[0])
        return r > 0.25 and abs(coms[0][2] / r) < 0.99
    if comp == "polarPhi":
        return coms[0][0] ** 2 + coms[0][1] ** 2 > 0.1
    if comp in ("coordNum", "selfCoordNum", "groupCoord", "hBond"):
        if comp == "coordNum":
            prs = [(pos(i), coms[1]) for i in gs[0]] if p.get("center") else [(pos(i), pos(j)) for i in gs[0] for j in gs[1]]
        elif comp == "selfCoordNum":
            prs = [(pos(gs[0][i]), pos(gs[0][j])) for i in range(len(gs[0])) for j in range(i + 1, len(gs[0]))]
        elif comp == "groupCoord":
            prs = [(coms[0], coms[1])]
        else:
            if len(gs[0]) != 2:
                return False
            prs = [(pos(gs[0][0]), pos(gs[0][1]))]
        if near_half_cell(c, prs):
            return False
        for a, b in prs:
            d = pd(c, a, b, pbc=1)
            r = p.get("r0v") or [p["r0"]] * 3
            l2 = sum((x / y) ** 2 for x, y in zip(d, r))
            if abs(l2 - 1.0) < 1e-3 or l2 < 1e-6:
                return False
        return True
    return True


# ---------------------------------------------------------------------------------------------
# generators
# ---------------------------------------------------------------------------------------------

def near_unit_axis(r):
    """an axis typed almost, but not exactly, in its canonical (unit) form: a unit vector rounded to 3-7 digits; or oblique"""
    m = r.random()
    if m < 0.2:
        return r.choice([[0.57735, 0.57735, 0.57735], [0.707107, 0.707107, 0.0], [0.0, 0.6, 0.8000001], [0.267261, 0.534522, 0.801784]])
    while True:
        v = [r.gauss(0, 1) for _ in range(3)]
        n = math.sqrt(sum(x * x for x in v))
        if n > 0.3:
            break
    d = r.choice([3, 4, 5, 6, 7])
    return [round(x / n, d) for x in v]


def axis_variants(c):
    """the same configuration with the axis exactly normalised and with the axis three times as long"""
    ax = c["params"].get("axis")
    if ax is None:
        return []
    n = math.sqrt(sum(x * x for x in ax))
    out = []
    for what, a2 in (("the axis normalised to %r" % [x / n for x in ax], [x / n for x in ax]), ("the axis multiplied by 3", [3.0 * x for x in ax])):
        c2 = dict(c); c2["params"] = dict(c["params"]); c2["params"]["axis"] = a2
        out.append({"line": G.impl_line([c2]), "rel": ("same", 1e-11), "what": "axis %r replaced by %s" % (ax, what)})
    return out


def gen_params(r, comp, generic):
    p = {}
    dy = lambda lo, hi, bits=3: (r.uniform(lo, hi) if generic else V.dyadic(r, lo, hi, bits=bits))
    if comp in ("distanceZ", "distanceXY", "inertiaZ"):
        m = r.random()
        if m < 0.3:
            p["axis"] = None
        elif m < 0.5:
            p["axis"] = r.choice([[0.0, 0.0, 1.0], [1.0, 0.0, 0.0], [0.0, 1.0, 0.0], [0.0, 0.0, 2.0], [0.0, -4.0, 0.0]])
        elif m < 0.75:
            p["axis"] = near_unit_axis(r)
        else:
            while True:
                a = [dy(-2, 2) for _ in range(3)]
                if G.norm(a) > 0.5:
                    break
            p["axis"] = a
    if comp == "distanceInv":
        p["n"] = r.choice([2, 4, 6, 6, 8])
    if comp == "cartesian":
        while True:
            u = [r.randint(0, 1) for _ in range(3)]
            if any(u):
                break
        p["use"] = u
    if comp in ("coordNum", "groupCoord", "selfCoordNum", "hBond"):
        p["r0"] = r.choice([2.0, 3.0, 4.0, 3.3, 2.5, 6.0])
        if comp in ("coordNum", "groupCoord") and r.random() < 0.3:
            p["r0v"] = [r.choice([2.0, 3.0, 4.0, 5.5]) for _ in range(3)]
        p["en"], p["ed"] = r.choice([(6, 12), (4, 8), (2, 4), (6, 8), (8, 12), (12, 6), (2, 6)])
        if comp in ("coordNum", "selfCoordNum") and r.random() < 0.2:
            p["tol"] = r.choice([0.001, 0.0078125, 0.05])
        if comp == "coordNum" and r.random() < 0.25:
            p["center"] = 1
    return p


NGROUPS = {"distance": 2, "distanceVec": 2, "distanceDir": 2, "distanceInv": 2, "dipoleMagnitude": 1, "gyration": 1,
           "inertia": 1, "inertiaZ": 1, "cartesian": 1, "polarTheta": 1, "polarPhi": 1, "angle": 3, "dipoleAngle": 3,
           "dihedral": 4, "distanceZ": 2, "distanceXY": 2, "coordNum": 2, "selfCoordNum": 1, "groupCoord": 2, "hBond": 1, "distancePairs": 2}
DISJOINT = ("coordNum", "distanceInv", "groupCoord", "hBond", "distancePairs")


def gen_case(r, comp, generic=False, cellmode=None, compact=False, disjoint=None, dup=0.3):
    """one random case of a modelled component (or distancePairs); None if the geometry is singular"""
    natoms = r.randint(4, 9)
    if cellmode is None:
        cellmode = r.random() < 0.45
    cell = G.gen_cell(r, generic) if cellmode else None
    if compact and cell:
        R = min(cell) / 8.0
        atoms = G.gen_atoms(r, natoms, generic, lo=-R, hi=R, bits=6)
    else:
        atoms = G.gen_atoms(r, natoms, generic, lo=-7, hi=7)
    p = gen_params(r, comp, generic)
    ng = NGROUPS[comp]
    if comp in ("distanceZ", "distanceXY"):
        ng = 3 if p.get("axis") is None and r.random() < 0.8 else 2
        if ng == 3:
            p["axis"] = None
    dj = (comp in DISJOINT) if disjoint is None else (disjoint or comp in DISJOINT)
    minsize = 2 if comp in ("selfCoordNum", "gyration", "inertia", "inertiaZ", "dipoleMagnitude", "hBond") else 1
    if comp == "dipoleAngle":
        minsize = 2
    groups = G.gen_groups(r, natoms, ng, disjoint=dj, minsize=minsize, dup=(0.0 if comp == "hBond" else dup), maxsize=4)
    if comp == "hBond":
        groups = [groups[0][:2]]
    c = {"comp": comp, "pbc": (1 if r.random() < 0.7 else 0), "params": p, "groups": groups, "atoms": atoms, "cell": cell}
    if not well_conditioned(c):
        return None
    return c


def gen_until(r, comp, **kw):
    for _ in range(200):
        c = gen_case(r, comp, **kw)
        if c is not None:
            return c
    return None


def nontrivial(c):
    return any(isinstance(l, list) and len(G.dedup(l)) >= 2 for l in c["groups"]) or len(c["groups"]) >= 2


def case_key(c):
    p = c.get("params", {})
    return "%s/pbc%d/cell%d/%s/%s" % (c["comp"], c.get("pbc", 1), 1 if c.get("cell") else 0,
                                      ",".join("%s=%s" % (k, p[k]) for k in sorted(p)), ";".join(" ".join(map(str, l)) if isinstance(l, list) else "dummy%s" % l["dummy"] for l in c["groups"]))


# ---- reference-based (unmodelled) components: rmsd, eigenvector, orientation*, tilt, spinAngle, euler*
REFCOMPS = ["rmsd", "eigenvector", "orientation", "orientationAngle", "orientationProj", "tilt", "spinAngle",
            "eulerPhi", "eulerPsi", "eulerTheta"]


def nondegenerate(pts):
    """True when the points span three dimensions comfortably (the optimal rotation is then unique)"""
    n = len(pts)
    c = [sum(p[k] for p in pts) / n for k in range(3)]
    q = [G.sub(p, c) for p in pts]
    # smallest eigenvalue proxy: volume of the inertia ellipsoid via the Gram determinant
    Cm = [[sum(a[i] * a[j] for a in q) for j in range(3)] for i in range(3)]
    det = (Cm[0][0] * (Cm[1][1] * Cm[2][2] - Cm[1][2] * Cm[2][1]) - Cm[0][1] * (Cm[1][0] * Cm[2][2] - Cm[1][2] * Cm[2][0])
           + Cm[0][2] * (Cm[1][0] * Cm[2][1] - Cm[1][1] * Cm[2][0]))
    tr = Cm[0][0] + Cm[1][1] + Cm[2][2]
    return tr > 1.0 and det > 0.02 * (tr / 3.0) ** 3


def gen_ref_case(r, comp, generic=True):
    n = r.randint(4, 7)
    natoms = n + r.randint(0, 2)
    for _ in range(100):
        ref = [[V.dyadic(r, -4, 4, bits=4) for _ in range(3)] for _ in range(n)]
        if nondegenerate(ref):
            break
    else:
        return None
    q0 = G.random_unit_quat(r)
    # keep the rotation angle away from 0 and 180 degrees (singular points of the angle-like variables)
    while not (0.2 < abs(q0[0]) < 0.95):
        q0 = G.random_unit_quat(r)
    M0 = G.quat_matrix(q0)
    t0 = [V.dyadic(r, -5, 5) for _ in range(3)]
    ids = r.sample(range(1, natoms + 1), n)
    atoms = G.gen_atoms(r, natoms, generic)
    noise = 0.0 if r.random() < 0.15 else 0.3
    for k, i in enumerate(ids):
        p = G.add(G.matvec(M0, ref[k]), t0)
        atoms[i - 1][2:5] = [x + r.gauss(0, noise) if noise else x for x in p]
    p = {"ref": ref}
    if comp == "eigenvector":
        p["vector"] = [[V.dyadic(r, -1, 1, bits=4) for _ in range(3)] for _ in range(n)]
    if comp in ("tilt", "spinAngle"):
        m = r.random()
        p["axis"] = r.choice([[0.0, 0.0, 1.0], [1.0, 0.0, 0.0], [0.0, 1.0, 0.0]]) if m < 0.4 else \
            (near_unit_axis(r) if m < 0.8 else [V.dyadic(r, -2, 2, bits=2) or 1.0, V.dyadic(r, -2, 2, bits=2), 1.5])
    return {"comp": comp, "pbc": 1, "params": p, "groups": [ids], "atoms": atoms, "cell": None, "q0": q0}


def gen_path_case(r, comp, sdir, tag):
    """path variables in Cartesian space (reference frames in XYZ files, positions in the order of sorted atom numbers)
    and rmsd with an XYZ file holding ALL atoms of the system (positions looked up by atom number)"""
    n = r.randint(4, 6)
    natoms = n + r.randint(0, 3)
    for _ in range(100):
        ref = [[V.dyadic(r, -4, 4, bits=4) for _ in range(3)] for _ in range(n)]
        if nondegenerate(ref):
            break
    else:
        return None
    ids = r.sample(range(1, natoms + 1), n)
    order = sorted(ids)                     # file order
    atoms = G.gen_atoms(r, natoms, True)
    M0 = G.quat_matrix(G.random_unit_quat(r)); t0 = [V.dyadic(r, -5, 5) for _ in range(3)]
    p = {}
    if comp == "rmsd":
        full = [[r.uniform(-5, 5) for _ in range(3)] for _ in range(natoms)]
        for k, i in enumerate(ids):
            full[i - 1] = ref[k]
        f = os.path.join(sdir, "%s_ref.xyz" % tag)
        G.write_xyz(f, full)
        p["reffile"] = f
        cur = ref
    else:
        nfr = r.randint(3, 5)
        disp = [[r.gauss(0, 0.6) for _ in range(3)] for _ in range(n)]
        frames = [[G.add(ref[k], G.scale(j, disp[k])) for k in range(n)] for j in range(nfr)]
        files = []
        for j, fr in enumerate(frames):
            f = os.path.join(sdir, "%s_%d.xyz" % (tag, j + 1))
            # ref[k] belongs to ids[k]; the file lists the atoms by increasing atom number
            G.write_xyz(f, [fr[ids.index(i)] for i in order])
            files.append(f)
        p["files"] = files
        p["frames"] = frames
        if comp in ("aspath", "azpath") and r.random() < 0.5:
            p["lambda"] = r.choice([0.5, 1.0, 2.0, 0.25])
        lam = r.uniform(0.3, nfr - 1.3)
        cur = [G.add(ref[k], G.scale(lam, disp[k])) for k in range(n)]
    for k, i in enumerate(ids):
        atoms[i - 1][2:5] = [x + r.gauss(0, 0.15) for x in G.add(G.matvec(M0, cur[k]), t0)]
    return {"comp": comp, "pbc": 1, "params": p, "groups": [ids], "atoms": atoms, "cell": None}


def meta_of_path(r, c):
    atoms = c["atoms"]; ids = c["groups"][0]
    variants = []
    for exact in (True, False):
        M = random_rotation(r, exact)
        t = [V.dyadic(r, -4, 4, bits=3) for _ in range(3)] if exact else [r.uniform(-4, 4) for _ in range(3)]
        variants.append({"line": G.pos_line(G.move_atoms(atoms, M, t)), "rel": ("same", 1e-7), "what": "rigid motion"})
    l2 = list(ids)
    for _ in range(5):
        r.shuffle(l2)
        if l2 != ids:
            break
    c2 = dict(c); c2["groups"] = [l2]
    variants.append({"line": G.impl_line([c2]), "rel": ("same", 1e-9), "what": "atoms listed in the order %s instead of %s (reference file unchanged)" % (l2, ids)})
    c3 = dict(c); j = r.randrange(len(ids)); l3 = list(ids); l3.insert(r.randint(j + 1, len(ids)), ids[j]); c3["groups"] = [l3]
    variants.append({"line": G.impl_line([c3]), "rel": ("same", 0.0), "what": "duplicate listing %s" % l3})
    return {"what": c["comp"] + (":xyz" if c["comp"] == "rmsd" else ""), "case": c, "base_line": G.impl_line([c]), "variants": variants, "period": None}


def gen_fitted_case(r):
    """cartesian / distanceVec evaluated in the frame of a fitted group (centerToReference + rotateToReference,
    optionally through a separate fittingGroup): 'fitted variables' of the property text"""
    n = r.randint(4, 6)
    natoms = n + r.randint(2, 4)
    for _ in range(100):
        ref = [[V.dyadic(r, -4, 4, bits=4) for _ in range(3)] for _ in range(n)]
        if nondegenerate(ref):
            break
    else:
        return None
    q0 = G.random_unit_quat(r)
    M0 = G.quat_matrix(q0)
    t0 = [V.dyadic(r, -5, 5) for _ in range(3)]
    perm = list(range(1, natoms + 1)); r.shuffle(perm)
    fit_ids = perm[:n]; other = perm[n:]
    atoms = G.gen_atoms(r, natoms, True)
    for k, i in enumerate(fit_ids):
        atoms[i - 1][2:5] = [x + r.gauss(0, 0.2) for x in G.add(G.matvec(M0, ref[k]), t0)]
    reftxt = "refPositions " + " ".join(G.vec(v) for v in ref)
    mode = r.choice(["self", "fitgroup", "centeronly"])
    if mode == "self":
        extra = ["centerToReference on", "rotateToReference on", reftxt]
        groups = [fit_ids]
    elif mode == "centeronly":
        extra = ["centerToReference on", reftxt]
        groups = [fit_ids]
    else:
        extra = ["centerToReference on", "rotateToReference on", "fittingGroup {", "  atomNumbers " + " ".join(map(str, fit_ids)), "}", reftxt]
        groups = [other[:max(1, len(other) - 1)]]
    return {"comp": "cartesian", "pbc": 1, "params": {"use": [1, 1, 1]}, "groups": groups, "atoms": atoms, "cell": None,
            "group_extra": {"atoms": extra}, "fitmode": mode, "fit_ids": fit_ids, "fitref": ref}


def fitted_model_line(c):
    def grp(ids):
        t = ["G", "%d" % len(ids)]
        for i in ids:
            t += ["%d" % (i - 1)] + [G.hx(x) for x in c["atoms"][i - 1]]
        return t
    t = ["fitcart", "1", "0", G.hx(0.0), G.hx(0.0), G.hx(0.0), "0" if c["fitmode"] == "centeronly" else "1", "%d" % len(c["fitref"])]
    t += [G.hx(x) for v in c["fitref"] for x in v]
    t += grp(c["fit_ids"]) + grp(c["groups"][0])
    return " ".join(t)


# ---------------------------------------------------------------------------------------------
# the check
# ---------------------------------------------------------------------------------------------

def setup():
    V.extract_model("C02", EXTRACT, DRIVER, ["ocaml/fops.ml"])
    V.build_prog("c02unit", UNIT["c02unit"])


class Batch:
    """lines for one driver, with a tag per line to find the answers again"""
    def __init__(self):
        self.lines = []
    def add(self, line):
        self.lines.append(line)
        return len(self.lines) - 1


def replay_obj(kind, lines, extra=None):
    d = {"kind": kind, "impl_lines": lines}
    if extra:
        d.update(extra)
    return d


def start_parallel(run):
    """V.standard_start with the three property files compiled concurrently (Print Assumptions over the Reals library
    costs ~0.9 s per theorem): one make for all dependencies first, then coq_check_properties of each file in its own
    thread; the results are handed to Run.prove through the normal path"""
    from concurrent.futures import ThreadPoolExecutor
    V.coq_make([os.path.relpath(os.path.join(V.ROOT, f), V.COQ)[:-2] + ".vo" for f in PROPS])
    orig = V.coq_check_properties
    with ThreadPoolExecutor(len(PROPS)) as ex:
        res = dict(zip(PROPS, ex.map(lambda f: orig(run.pid, f), PROPS)))
    V.coq_check_properties = lambda pid, f: res[f] if f in res else orig(pid, f)
    try:
        st = V.standard_start(run, PROPS, EXTRACT, DRIVER, UNIT)
    finally:
        V.coq_check_properties = orig
    run.cov["checker_cmd"] = ("make -k -C coq C02/Properties_C02.vo C02/Properties_C02_rot.vo C02/Properties_C02_sym.vo C02/Properties_C02_fit.vo && "
                              "coqc -Q . CV <each of the property files> (Coq 8.16.1 kernel; the files are compiled concurrently; native_compute not used)")
    return st


def check(run):
    r = V.rng("C02")
    quick = run.tier == "quick"
    scale = 3 if quick else 40
    run.cov["rule"] = ("tie: random systems (4-9 atoms, dyadic or generic masses/charges/coordinates, overlapping groups, duplicate listings, "
                       "orthorhombic cell on/off, forceNoPBC on/off) x every modelled component type x options, real colvar objects vs the extracted model; "
                       "search: metamorphic relations on the implementation alone (rigid motions by axis rotations + dyadic translations and by generic rotations, "
                       "lattice translations of whole groups, permutation and duplicate listing of atoms, quaternion sign) over modelled and unmodelled component types; "
                       "optimal rotation: eigen-decomposition dumped and verified. distinct = distinct (component, options, groups) key; "
                       "non-trivial = some group with >= 2 distinct atoms or >= 2 groups")
    run.assumptions += [
        "theorems are about the R instance of the model; the tie runs the float instance with relative tolerance 1e-9 (angles compared modulo 360)",
        "cases within 1e-3 of a singular geometry (zero distance, collinear vectors, pair distance equal to the cut-off, displacement within 1e-7 of half a cell edge for non-dyadic data) are not generated",
        "Jacobi convergence (nr_jacobi.cpp) is not modelled: C02_rotation_optimal takes the orthonormal eigen-decomposition as a premise, verified numerically on every rotation case",
        "rmsd, eigenvector, orientation*, tilt, spinAngle, euler*, distancePairs, fitted groups (centerToReference/rotateToReference/fittingGroup) have no model: search (metamorphic relations) only",
        "alpha, dihedralPC (need residue/segment topology), the path variables (need path files), mapTotal, neuralNetwork, customColvar (not in this build) are not exercised",
    ]
    st = start_parallel(run)
    if st is None:
        return
    model, exes = st
    unitp = exes["c02unit"]

    impl = Batch(); mod = Batch()
    jobs = []      # closures evaluated after both drivers have answered

    # ---------------- corpus first
    corpus = []
    cdir = os.path.join(V.ROOT, "corpus")
    for f in sorted(os.listdir(cdir)) if os.path.isdir(cdir) else []:
        if f.startswith("C02_") and f.endswith(".json"):
            try:
                corpus.append(json.load(open(os.path.join(cdir, f))))
            except Exception:
                pass

    # ---------------- A. tie: every modelled component
    tie_cases = []
    for cj in corpus:
        if cj.get("kind") == "tie":
            tie_cases.append(cj["cases"])
    n_per = 22 * scale
    for comp in G.MODELLED:
        for k in range(n_per):
            generic = (k % 3 == 2)
            c = gen_until(r, comp, generic=generic)
            if c is not None:
                tie_cases.append([c])
    # the same components with the atoms selected through the other keywords (several atomNumbers lines, indexGroup,
    # atomNumbersRange, atomsOfGroup): the group is the first-occurrence de-duplication of the selections in parse order
    sdirs = os.path.join(V.BUILD, "scratch", "C02sel"); os.makedirs(sdirs, exist_ok=True)
    nsel = 0
    for comp in G.MODELLED:
        for k in range(4 * scale):
            c = gen_until(r, comp, generic=(k % 2 == 1), dup=0.2)
            if c is None or not G.respell(r, c, sdirs, "sel%d" % nsel):
                continue
            nsel += 1
            if well_conditioned(c) and (comp not in DISJOINT or not (set(G.dedup(c["groups"][0])) & set(G.dedup(c["groups"][-1])))):
                c["selection"] = 1
                tie_cases.append([c])
    # components built on the optimal rotation: the driver finds q with its own Jacobi iteration, the model maps q to the value
    for comp in G.MODELLED_REF:
        for k in range(8 * scale):
            c = gen_ref_case(r, comp)
            if c is None:
                continue
            q = c["q0"]
            if comp == "eulerTheta" and abs(2 * (q[0] * q[2] - q[3] * q[1])) > 0.95:
                continue
            if comp in ("eulerPhi", "eulerPsi", "tilt", "spinAngle") and abs(2 * (q[0] * q[2] - q[3] * q[1])) > 0.98:
                continue
            c["tol"] = 1e-7
            tie_cases.append([c])
    for k in range(6 * scale):
        c = gen_until(r, "distancePairs", generic=(k % 2 == 1))
        if c is not None:
            tie_cases.append([c])
    # combined variables: sum c_i q_i^n_i of scalar components on one system
    SCAL = [c for c in G.MODELLED if c not in G.VECTOR_VALUED]
    for k in range(30 * scale):
        base = gen_until(r, r.choice(SCAL), generic=(k % 3 == 2))
        if base is None:
            continue
        cs = [base]
        for j in range(r.randint(1, 2)):
            for _ in range(50):
                comp = r.choice(SCAL)
                p = gen_params(r, comp, False)
                ng = NGROUPS[comp]
                if comp in ("distanceZ", "distanceXY"):
                    ng = 2
                    if p.get("axis") is None:
                        p["axis"] = [0.0, 0.0, 1.0]
                groups = G.gen_groups(r, len(base["atoms"]), ng, disjoint=(comp in DISJOINT),
                                      minsize=2 if comp in ("selfCoordNum", "gyration", "inertia", "inertiaZ", "dipoleMagnitude", "hBond", "dipoleAngle") else 1,
                                      dup=0.2 if comp != "hBond" else 0.0)
                if comp == "hBond":
                    groups = [groups[0][:2]]
                c2 = {"comp": comp, "pbc": base["pbc"] if comp not in ("coordNum", "selfCoordNum", "groupCoord", "hBond") else 1,
                      "params": p, "groups": groups, "atoms": base["atoms"], "cell": base["cell"]}
                if well_conditioned(c2):
                    cs.append(c2)
                    break
        for c in cs:
            c["coeff"] = r.choice([1.0, -1.0, 2.0, 0.5, -0.25, 3.0])
            c["exp"] = r.choice([1, 1, 2, 3, -1, -2, 0])
        if r.random() < 0.3:
            cs[0]["wrap"] = "linearCombination"     # uses pow(): keep away from 0^negative (a switching function can be exactly 0)
            for c in cs:
                c["exp"] = abs(c["exp"])
        tie_cases.append(cs)
    # a dummy atom (fixed position) in place of one group of a centre-based component
    for k in range(20 * scale):
        comp = r.choice(["distance", "distanceVec", "distanceDir", "distanceZ", "distanceXY", "angle", "dihedral"])
        for _ in range(50):
            c = gen_case(r, comp, generic=(k % 3 == 2), dup=0.1)
            if c is None:
                continue
            gi = 1 if comp in ("distanceZ", "distanceXY") else r.randrange(len(c["groups"]))
            c["groups"][gi] = {"dummy": [V.dyadic(r, -5, 5) for _ in range(3)]}
            if well_conditioned(c):
                tie_cases.append([c])
                break
    # scales of the data: every length of the system (coordinates, cell, cut-offs) multiplied by 1e-4 .. 1e4
    for comp in ("distance", "distanceVec", "distanceZ", "distanceXY", "distanceInv", "gyration", "inertia", "angle", "dihedral",
                 "coordNum", "selfCoordNum", "groupCoord", "hBond", "dipoleMagnitude", "cartesian"):
        for k in range(2 * scale):
            c = gen_until(r, comp, generic=(k % 2 == 1))
            if c is None:
                continue
            sc = r.choice([1e-4, 1e-2, 1e2, 1e4]) if k % 2 == 0 else 2.0 ** r.choice([-20, -10, 10, 20])
            c["atoms"] = [[a[0], a[1]] + [x * sc for x in a[2:5]] for a in c["atoms"]]
            if c.get("cell"):
                c["cell"] = [x * sc for x in c["cell"]]
            pr = c["params"]
            if "r0" in pr:
                pr["r0"] = pr["r0"] * sc
            if pr.get("r0v") is not None:
                pr["r0v"] = [x * sc for x in pr["r0v"]]
            pr.pop("tol", None)
            c["scaled"] = sc
            tie_cases.append([c])
    for n_t, cs in enumerate(tie_cases):
        il = G.impl_line(cs)
        if n_t % 9 == 4:
            il = "EF" + il[1:]            # the same configuration read from a file
        if n_t % 11 == 5:
            il = il.replace("colvar {;  name c;", "colvar {;", 1)      # an unnamed variable (default name)
        i = impl.add(il); m = mod.add(G.model_line(cs))
        jobs.append(("tie", cs, i, m))
    # sessions: (a) a second variable on the same atoms is deleted, (b) a rejected configuration in the middle
    for k in range(10 * scale):
        ca = gen_until(r, r.choice(HIST_SCALAR), generic=(k % 2 == 1), dup=0.1)
        if ca is None:
            continue
        ca["params"].pop("tol", None)
        cb = None
        for _ in range(40):
            comp = r.choice(HIST_SCALAR); prb = gen_params(r, comp, False); prb.pop("tol", None)
            if comp in ("distanceZ", "distanceXY") and prb.get("axis") is None:
                prb["axis"] = [0.0, 0.0, 1.0]
            grp = [list(g) for g in ca["groups"]][:NGROUPS[comp]] if (len(ca["groups"]) >= NGROUPS[comp] and comp not in DISJOINT and r.random() < 0.5) else \
                G.gen_groups(r, len(ca["atoms"]), NGROUPS[comp], disjoint=(comp in DISJOINT), minsize=2 if comp in ("selfCoordNum", "gyration", "inertia", "dipoleMagnitude") else 1, dup=0.1)
            cb = {"comp": comp, "pbc": ca["pbc"], "params": prb, "groups": grp, "atoms": ca["atoms"], "cell": ca["cell"]}
            if comp in ("selfCoordNum", "gyration", "inertia", "dipoleMagnitude") and len(G.dedup(grp[0])) < 2:
                cb = None; continue
            if well_conditioned(cb):
                break
            cb = None
        if cb is None:
            continue
        moved = None
        for _ in range(30):
            mv = [[a[0], a[1]] + [x + r.gauss(0, 0.3) for x in a[2:5]] for a in ca["atoms"]]
            if well_conditioned(dict(ca, atoms=mv)) and well_conditioned(dict(cb, atoms=mv)):
                moved = mv; break
        if moved is None:
            continue
        conf2 = ";".join(G.config_of([ca], "c") + G.config_of([cb], "d"))
        mode = "delete" if k % 2 == 0 else "rejected"
        if mode == "delete":
            lines = ["E " + " ".join(G.sys_tokens(ca)) + " | " + conf2, "D d", G.pos_line(moved)]
            mlines = [G.model_line([ca]), G.model_line([cb]), G.model_line([dict(ca, atoms=moved)])]
        else:
            bad = r.choice(["colvar {;  name bad;  distance {;    group1 {;      atomNumbers 1 %d;    };    group2 {;      atomNumbers 2;    };  };}" % (len(ca["atoms"]) + 5),
                            "colvar {;  name bad;  distance {;    group1 {;      atomNumbers 1;    };    group2 {;      atomNumbers 2;    };    noSuchKeyword 3;  };}",
                            "colvar {;  name c;  distance {;    group1 {;      atomNumbers 1;    };    group2 {;      atomNumbers 2;    };  };}"])
            lines = [G.impl_line([ca]), "C | " + bad, G.pos_line(moved)]
            mlines = [G.model_line([ca]), G.model_line([dict(ca, atoms=moved)])]
        jobs.append(("session", {"mode": mode, "i": [impl.add(l) for l in lines], "m": [mod.add(l) for l in mlines], "ca": ca, "cb": cb}, None, None))
    # arithmetic path variables (aspath, azpath) in Cartesian space: value model
    sdirp = os.path.join(V.BUILD, "scratch", "C02paths"); os.makedirs(sdirp, exist_ok=True)
    for comp in ("aspath", "azpath"):
        for k in range(6 * scale):
            c = gen_path_case(r, comp, sdirp, "tie_%s_%d" % (comp, k))
            if c is None:
                continue
            pr = c["params"]; ids = c["groups"][0]
            t = [comp, "1", "0", G.hx(0.0), G.hx(0.0), G.hx(0.0), G.hx(pr["lambda"] if pr.get("lambda") is not None else -1.0),
                 "%d" % len(pr["frames"]), "%d" % len(ids)]
            t += [G.hx(x) for fr in pr["frames"] for v in fr for x in v]
            t += ["G", "%d" % len(ids)]
            for i in ids:
                t += ["%d" % (i - 1)] + [G.hx(x) for x in c["atoms"][i - 1]]
            i = impl.add(G.impl_line([c])); m = mod.add(" ".join(t))
            c["tol"] = 1e-7
            jobs.append(("tie", [c], i, m))
    # histories of run-time changes of the components (modifycvcs: componentCoeff / componentExp / forceNoPBC; cvcflags)
    for k in range(14 * scale):
        h = gen_history(r, k)
        if h is None:
            continue
        i0 = impl.add(G.impl_line(h["cases_cfg"]))
        for st in h["steps"]:
            if st["line"]:
                st["i_ev"] = impl.add(st["line"])
            st["i"] = impl.add(G.pos_line(st["atoms"]))
            st["m"] = mod.add(hist_model_line(h, st))
        # afterwards (a new E line replaces the session): the components evaluated one by one from scratch with the
        # default coefficient and exponent, for the oracle on the implementation alone
        for st in h["steps"]:
            st["fresh"] = []
            for c in st["cases"]:
                cc = dict(c, atoms=st["atoms"]); cc.pop("coeff", None); cc.pop("exp", None)
                st["fresh"].append(impl.add(G.impl_line([cc])))
        jobs.append(("history", h, i0, None))
    # pair lists of selfCoordNum and of coordNum with group2CenterOnly: built at step 0, used (stale) after the atoms moved
    for k in range(10 * scale):
        comp = "selfCoordNum" if k % 2 == 0 else "coordNum"
        c = gen_until(r, comp, generic=(k % 3 == 1), dup=0.0)
        if c is None:
            continue
        c["params"]["tol"] = r.choice([0.001, 0.0078125, 0.05, 0.2])
        if comp == "coordNum":
            c["params"]["center"] = 1
        if not well_conditioned(c):
            continue
        amp = r.choice([0.0, 0.3, 1.5])
        for _ in range(30):
            moved = [[a[0], a[1]] + [x + (r.gauss(0, amp) if amp else 0.0) for x in a[2:5]] for a in c["atoms"]]
            c2 = dict(c); c2["atoms"] = moved
            if well_conditioned(c2):
                break
        else:
            continue
        i0 = impl.add(G.impl_line([c])); i1 = impl.add(G.pos_line(moved))
        t1 = G.model_tokens(c); t2 = G.model_tokens(c2); gpos = t1.index("G")
        if comp == "selfCoordNum":
            m = mod.add(" ".join(["selfCoordNumPL"] + t1[1:] + t2[t2.index("G"):]))
        else:
            m = mod.add(" ".join(["coordNumCenterPL"] + t1[1:gpos - 1] + t1[gpos:] + t2[t2.index("G"):]))
        jobs.append(("pairlist", {"case": c, "moved": moved, "i": [i0, i1], "amp": amp}, i1, m))
    # pair list over steps AND run boundaries: runs of one session starting at arbitrary absolute steps, coordinates replaced
    # between the runs (far apart in one run, in contact in the next), list frequency 2..5
    for k in range(8 * scale):
        c = gen_until(r, "coordNum", generic=(k % 2 == 1), dup=0.0, cellmode=False)
        if c is None:
            continue
        pr = c["params"]; pr["tol"] = r.choice([0.001, 0.0078125, 0.05]); pr.pop("center", None)
        pr["plfreq"] = r.choice([2, 3, 5, 6, 7])
        g2ids = set(G.dedup(c["groups"][1]))
        def far(atoms, off):
            return [[a[0], a[1], a[2] + (off if (i + 1) in g2ids else 0.0), a[3], a[4]] for i, a in enumerate(atoms)]
        def jiggle(atoms, amp):
            return [[a[0], a[1]] + [x + r.gauss(0, amp) for x in a[2:5]] for a in atoms]
        runs = []; starts = []
        nruns = r.randint(2, 3)
        ok = True
        for j in range(nruns):
            base = far(c["atoms"], 40.0) if (j % 2 == 0) == (k % 2 == 0) else c["atoms"]
            frames = []
            for f in range(r.randint(2, 2 * pr["plfreq"] + 1)):
                for _ in range(30):
                    fr = jiggle(base, 0.2) if f else [list(a) for a in base]
                    if well_conditioned(dict(c, atoms=fr)):
                        break
                else:
                    ok = False
                frames.append(fr)
            runs.append(frames)
            starts.append(0 if j == 0 else r.choice([1, 2, 3, 4, 7, 11, 13, 10, 6, 2**31 + 3, 2**32 + 7, 2**53 + 1, 2**62 + 5]))
        if not ok:
            continue
        idx = []; fresh = []
        for j, frames in enumerate(runs):
            for f, fr in enumerate(frames):
                if j == 0 and f == 0:
                    idx.append(impl.add(G.impl_line([c], atoms=fr)))
                else:
                    if f == 0:
                        impl.add("R %d" % starts[j])
                    idx.append(impl.add(G.pos_line(fr)))
        for j, frames in enumerate(runs):          # the same coordinates evaluated from scratch (always a rebuild)
            fresh.append(impl.add(G.impl_line([c], atoms=frames[0])))
        t0 = G.model_tokens(c); gpos = t0.index("G")
        t = ["coordNumRuns"] + t0[1:6] + ["%d" % pr["plfreq"]] + t0[6:gpos - 1] + ["%d" % len(runs)]
        for frames in runs:
            t.append("%d" % len(frames))
            for fr in frames:
                tf = G.model_tokens(dict(c, atoms=fr)); t += tf[tf.index("G"):]
        m = mod.add(" ".join(t))
        jobs.append(("plruns", {"case": c, "runs": runs, "starts": starts, "idx": idx, "fresh": fresh}, None, m))
    # selfCoordNum with a pair list (no model of its list): first step of every run against a fresh evaluation
    for k in range(4 * scale):
        c = gen_until(r, "selfCoordNum", generic=(k % 2 == 1), dup=0.0, cellmode=False)
        if c is None:
            continue
        pr = c["params"]; pr["tol"] = r.choice([0.001, 0.0078125, 0.05]); pr["plfreq"] = r.choice([2, 3, 5])
        spread = [[a[0], a[1]] + [10.0 * x for x in a[2:5]] for a in c["atoms"]]
        runs = [[spread, spread], [c["atoms"], c["atoms"]]] if k % 2 == 0 else [[c["atoms"], c["atoms"]], [spread, spread], [c["atoms"]]]
        if not all(well_conditioned(dict(c, atoms=fr)) for frames in runs for fr in frames):
            continue
        starts = [0] + [r.choice([1, 2, 3, 4, 7, 11, 13, 2**31 + 1, 2**32 + 5, 2**53 + 3, 2**62 + 1]) for _ in runs[1:]]
        idx = []
        for j, frames in enumerate(runs):
            for f, fr in enumerate(frames):
                if j == 0 and f == 0:
                    idx.append(impl.add(G.impl_line([c], atoms=fr)))
                else:
                    if f == 0:
                        impl.add("R %d" % starts[j])
                    idx.append(impl.add(G.pos_line(fr)))
        fresh = [impl.add(G.impl_line([c], atoms=frames[0])) for frames in runs]
        t0 = G.model_tokens(c); gpos = t0.index("G")
        t = ["selfCoordNumRuns"] + t0[1:6] + ["%d" % pr["plfreq"]] + t0[6:gpos] + ["%d" % len(runs)]
        for frames in runs:
            t.append("%d" % len(frames))
            for fr in frames:
                tf = G.model_tokens(dict(c, atoms=fr)); t += tf[tf.index("G"):]
        m = mod.add(" ".join(t))
        jobs.append(("plruns", {"case": c, "runs": runs, "starts": starts, "idx": idx, "fresh": fresh}, None, m))
    # eigenvector with differenceVector / normalizeVector
    for k in range(8 * scale):
        c = gen_ref_case(r, "eigenvector")
        if c is None:
            continue
        pr = c["params"]; n = len(pr["ref"])
        pr["difference"] = 1 if k % 2 == 0 else 0
        pr["normalize"] = 1 if k % 4 >= 1 else 0
        if pr["difference"]:     # the vector is a second structure: the reference moved and deformed
            Mq = G.quat_matrix(G.random_unit_quat(r)); tt = [V.dyadic(r, -3, 3) for _ in range(3)]
            pr["vector"] = [[x + r.gauss(0, 0.5) for x in G.add(G.matvec(Mq, v), tt)] for v in pr["ref"]]
        ids = G.dedup(c["groups"][0])
        t = ["eigenvectorOpt", "1", "0", G.hx(0.0), G.hx(0.0), G.hx(0.0), "%d" % pr["difference"], "%d" % pr["normalize"], "%d" % n]
        t += [G.hx(x) for v in pr["ref"] for x in v] + [G.hx(x) for v in pr["vector"] for x in v]
        t += ["G", "%d" % n]
        for i in ids:
            t += ["%d" % (i - 1)] + [G.hx(x) for x in c["atoms"][i - 1]]
        i = impl.add(G.impl_line([c])); m = mod.add(" ".join(t))
        c["tol"] = 1e-7
        jobs.append(("tie", [dict(c, comp="eigenvector:options")], i, m))
    # rmsd with atomPermutation (symmetry-adapted RMSD)
    for k in range(8 * scale):
        c = gen_ref_case(r, "rmsd")
        if c is None:
            continue
        ids = G.dedup(c["groups"][0]); n = len(ids)
        perms = []
        for _ in range(r.randint(1, 3)):
            pl = list(ids)
            if r.random() < 0.5:
                a, b = r.sample(range(n), 2); pl[a], pl[b] = pl[b], pl[a]
                if r.random() < 0.6:      # the two atoms really are exchanged: the permuted copy is the closer one
                    pa, pb = c["atoms"][ids[a] - 1][2:5], c["atoms"][ids[b] - 1][2:5]
                    c["atoms"][ids[a] - 1][2:5], c["atoms"][ids[b] - 1][2:5] = pb, pa
            else:
                r.shuffle(pl)
            perms.append(pl)
        c["params"]["perms"] = perms
        t = ["rmsdperm", "1", "0", G.hx(0.0), G.hx(0.0), G.hx(0.0), "%d" % n] + [G.hx(x) for v in c["params"]["ref"] for x in v]
        t += ["%d" % len(perms)] + ["%d" % ids.index(a) for pl in perms for a in pl]
        t += ["G", "%d" % n]
        for i in ids:
            t += ["%d" % (i - 1)] + [G.hx(x) for x in c["atoms"][i - 1]]
        i = impl.add(G.impl_line([c])); m = mod.add(" ".join(t))
        c["tol"] = 1e-7
        jobs.append(("tie", [dict(c, comp="rmsd:atomPermutation")], i, m))
    # groups fitted on a reference (centerToReference, rotateToReference, fittingGroup): coordinates in the fitted frame
    for k in range(10 * scale):
        c = gen_fitted_case(r)
        if c is None:
            continue
        i = impl.add(G.impl_line([c])); m = mod.add(fitted_model_line(c))
        c["tol"] = 1e-7
        jobs.append(("tie", [dict(c, comp="fitted:" + c["fitmode"])], i, m))
    # coordNum with a pair list: built at the first step, used (stale) at the second step with moved atoms
    for k in range(12 * scale):
        c = gen_until(r, "coordNum", generic=(k % 2 == 1), dup=0.0)
        if c is None:
            continue
        c["params"]["tol"] = r.choice([0.001, 0.0078125, 0.05, 0.2]); c["params"].pop("center", None)
        if not well_conditioned(c):
            continue
        amp = r.choice([0.0, 0.0, 0.3, 1.5])
        for _ in range(30):
            moved = [[a[0], a[1]] + [x + (r.gauss(0, amp) if amp else 0.0) for x in a[2:5]] for a in c["atoms"]]
            c2 = dict(c); c2["atoms"] = moved
            if well_conditioned(c2):
                break
        else:
            continue
        i0 = impl.add(G.impl_line([c])); i1 = impl.add(G.pos_line(moved))
        t1 = G.model_tokens(c); t2 = G.model_tokens(c2)
        gpos = t1.index("G")
        m = mod.add(" ".join(["coordNumPL"] + t1[1:gpos - 1] + t1[gpos:] + t2[t2.index("G"):]))
        jobs.append(("pairlist", {"case": c, "moved": moved, "i": [i0, i1], "amp": amp}, i1, m))

    # ---------------- B. exact cases with known answers (definition at special geometries)
    special = gen_special(r, 12 * scale)
    for sp in special:
        i = impl.add(G.impl_line([sp["case"]])); m = mod.add(G.model_line([sp["case"]]))
        jobs.append(("special", sp, i, m))

    # ---------------- C. metamorphic search on the implementation (modelled and unmodelled types)
    metas = gen_metas(r, scale)
    for mt in metas:
        mt["base_i"] = impl.add(mt["base_line"])
        for v in mt["variants"]:
            v["i"] = impl.add(v["line"])
        jobs.append(("meta", mt, None, None))

    for cj in corpus:
        if cj.get("kind") == "lines-same":
            cj["idx"] = [impl.add(l) for l in cj["lines"]]
            jobs.append(("lines-same", cj, None, None))

    # ---------------- C2. create_sorted_ids / load_coords: file order (increasing id) vs listing order of the group
    sdir2 = os.path.join(V.BUILD, "scratch", "C02load"); os.makedirs(sdir2, exist_ok=True)
    for k in range(25 * scale):
        natoms = r.randint(4, 12)
        n = r.randint(3, natoms)
        listing = r.sample(range(1, natoms + 1), n)
        if k % 5 == 0:
            listing = sorted(listing)
        full = (k % 2 == 0) and n < natoms       # file with all atoms of the system (entries looked up by atom number) or exactly n entries
        entries = {i: [V.dyadic(r, -9, 9, bits=5) for _ in range(3)] for i in range(1, natoms + 1)}
        f = os.path.join(sdir2, "load_%d.xyz" % k)
        G.write_xyz(f, [entries[i] for i in (range(1, natoms + 1) if full else sorted(listing))])
        li = [impl.add("SORTMAP %d %d %s" % (natoms, n, " ".join(map(str, listing)))),
              impl.add("LOADXYZ %d %d %s | %s" % (natoms, n, " ".join(map(str, listing)), f))]
        ids0 = [i - 1 for i in listing]
        lm = [mod.add("SORTMAP %d %s" % (n, " ".join(map(str, ids0)))),
              mod.add("LOADC %d %s %s" % (n, " ".join(map(str, ids0)), " ".join(G.hx(x) for i in sorted(listing) for x in entries[i])))]
        jobs.append(("load", {"listing": listing, "entries": entries, "i": li, "m": lm, "full": full}, None, None))

    # ---------------- D. optimal rotation: dump and verify the eigen-decomposition
    rots = gen_rotations(r, 60 * scale)
    for ro in rots:
        ro["i"] = impl.add(ro["line"])
        jobs.append(("rot", ro, None, None))

    # ---------------- E. quaternion sign, rotation matrix, minimum image (tie + relations)
    misc = gen_misc(r, 60 * scale)
    for ms in misc:
        ms["i"] = [impl.add(l) for l in ms["impl"]]
        ms["m"] = [mod.add(l) for l in ms["model"]]
        jobs.append(("misc", ms, None, None))

    if not quick:
        sanitizer_pass(run, impl.lines)
    iout, crashes = run_resilient(unitp, impl.lines)
    for k, rc1, e1 in crashes[:5]:
        run.violation("unit:crash", "the implementation dies (rc=%d) on input line %d: %s ... %s" % (rc1, k, impl.lines[k][:80], e1[-300:]),
                      replay_obj("lines", [l for l in (last_config(impl.lines, k), impl.lines[k]) if l]))
    # second stage of the rotation check needs the implementation's q
    for ro in rots:
        o = parse_impl(iout[ro["i"]])
        ro["out"] = o
        if o is not None and len(o) == 49:
            ro["m"] = mod.add("ROTM %d %s %s %s" % (ro["n"], " ".join(G.hx(x) for p in ro["p1"] for x in p),
                                                 " ".join(G.hx(x) for p in ro["p2"] for x in p), " ".join(G.hx(x) for x in o[45:49])))
    rc2, mout, e2 = V.run_lines(model, mod.lines, timeout=1500)
    if len(mout) != len(mod.lines):
        run.violation("tie:model-crash", "the extracted model died (rc=%d) after %d of %d lines: %s" % (rc2, len(mout), len(mod.lines), e2[-300:]),
                      {"kind": "model", "line": mod.lines[len(mout)] if len(mout) < len(mod.lines) else None}, found_input=False)
        return

    nsample = 0
    for kind, obj, i, m in jobs:
        if kind == "tie":
            judge_tie(run, obj, impl.lines[i], iout[i], mod.lines[m], mout[m])
            if nsample < 3:
                run.sample({"tie": impl.lines[i][:400], "impl": iout[i], "model": mout[m]}); nsample += 1
        elif kind == "special":
            judge_special(run, obj, impl.lines[i], iout[i], mod.lines[m], mout[m])
        elif kind == "load":
            run.count("load/%s/%s" % (obj["listing"], obj["full"]), sorted(obj["listing"]) != obj["listing"])
            run.dist("tie:load_coords:" + ("full-file" if obj["full"] else "group-file"))
            rep = replay_obj("lines", [impl.lines[k] for k in obj["i"]], {"model_lines": [mod.lines[k] for k in obj["m"]]})
            a_map = iout[obj["i"][0]].replace("ok ", "", 1).strip(); b_map = mout[obj["m"][0]].strip()
            if a_map != b_map:
                run.mismatch("value:sorted_ids_map", impl.lines[obj["i"][0]], a_map, b_map)
            a = parse_impl(iout[obj["i"][1]]); b = parse_model(mout[obj["m"][1]])
            exp = [x for i in obj["listing"] for x in obj["entries"][i]]
            if a is None or a != exp:
                run.violation("load:positions-attached-to-wrong-atoms",
                              "positions loaded from a file for the group listed as %s: atom %s should carry %s; got %s" % (
                                  obj["listing"], obj["listing"][0], obj["entries"][obj["listing"][0]], a[:3] if a else iout[obj["i"][1]][:80]), rep)
            if a is not None and b is not None and a != b:
                run.mismatch("value:load_coords", impl.lines[obj["i"][1]], iout[obj["i"][1]][:200], mout[obj["m"][1]][:200])
        elif kind == "session":
            judge_session(run, obj, impl.lines, iout, mod.lines, mout)
        elif kind == "history":
            judge_history(run, obj, i, impl.lines, iout, mod.lines, mout)
        elif kind == "plruns":
            c = obj["case"]; f = c["params"]["plfreq"]
            run.count("plruns/" + case_key(c) + "/%s" % obj["starts"], True)
            run.dist("tie:%s:pairlist:runs" % c["comp"])
            vals = [parse_impl(iout[k]) for k in obj["idx"]]
            b = parse_model(mout[m]) if m is not None else None
            lo = min(obj["idx"]); hi = max(obj["idx"])
            rep = replay_obj("lines", impl.lines[lo:hi + 1], {"model_lines": [mod.lines[m]] if m is not None else [], "starts": obj["starts"], "pairListFrequency": f})
            if any(v is None or len(v) != 1 for v in vals):
                run.violation("value:coordNum:pairlist-error", "coordNum with a pair list fails in a session of several runs: %s" % [iout[k][:40] for k in obj["idx"]][:6], rep)
            else:
                a = [v[0] for v in vals]
                # oracle on the implementation alone: the first step of every run is a rebuild, i.e. the value of a fresh evaluation
                pos = 0
                for j, frames in enumerate(obj["runs"]):
                    fv = parse_impl(iout[obj["fresh"][j]])
                    if fv is None or not close(a[pos], fv[0], 1e-9):
                        run.violation("value:%s:pairlist:first-step-of-run" % c["comp"],
                                      c["comp"] + " (tolerance %g, pairListFrequency %d) at the first step of run %d, which starts at absolute step %d: %r, but the same coordinates evaluated from scratch give %r (stale pair list of the previous run)" % (
                                          c["params"]["tol"], f, j + 1, obj["starts"][j], a[pos], fv and fv[0]), rep)
                        break
                    pos += len(frames)
                if m is not None and (b is None or not vclose(a, b, TOL)):
                    run.mismatch("value:%s:pairlist:runs" % c["comp"], impl.lines[lo][:200], a, b)
        elif kind == "pairlist":
            a = parse_impl(iout[i]); b = parse_model(mout[m]); a0 = parse_impl(iout[obj["i"][0]])
            run.count("pairlist/" + case_key(obj["case"]) + "/%g" % obj["amp"], True)
            run.dist("tie:%s:pairlist" % obj["case"]["comp"] + (":center" if obj["case"]["params"].get("center") else "") + (":moved" if obj["amp"] else ":same-positions"))
            rep = replay_obj("lines", [impl.lines[k] for k in obj["i"]], {"model_lines": [mod.lines[m]]})
            if a is None or a0 is None:
                run.violation("value:coordNum:pairlist-error", "coordNum with a pair list fails: %s / %s" % (iout[obj["i"][0]][:80], iout[i][:80]), rep)
            else:
                if not vclose(a, b, TOL):
                    run.mismatch("value:coordNum:pairlist", impl.lines[i][:200], iout[i], mout[m])
                    run.violation("value:coordNum:pairlist:definition", "coordNum through a stale pair list: implementation %r, model %r" % (a, b), rep)
                if obj["amp"] == 0.0 and not vclose(a, a0, 1e-12):
                    run.violation("value:coordNum:pairlist:same-positions", "the pair-list step gives %r where the full evaluation at the same positions gave %r" % (a, a0), rep)
        elif kind == "meta":
            judge_meta(run, obj, impl.lines, iout)
        elif kind == "lines-same":
            outs = [parse_impl(iout[k]) for k in obj["idx"]]
            run.count("corpus/" + obj["what"][:60], True)
            if any(o is None for o in outs) or not all(vclose(o, outs[0], obj.get("tol", 1e-9), G.PERIODIC.get(obj.get("comp"))) for o in outs):
                run.violation(obj["signature"], "%s: values %r" % (obj["what"], [o[:4] if o else None for o in outs]),
                              replay_obj("lines", obj["lines"]))
        elif kind == "rot":
            judge_rot(run, obj, impl.lines, iout, mod.lines, mout)
        elif kind == "misc":
            judge_misc(run, obj, impl.lines, iout, mod.lines, mout)
    if metas:
        mt = metas[0]
        run.sample({"meta": mt["what"], "base": mt["base_line"][:300], "base_out": iout[mt["base_i"]],
                    "variant": mt["variants"][0]["rel"], "variant_out": iout[mt["variants"][0]["i"]]})
    if rots:
        run.sample({"rotation": rots[0]["line"][:300], "out": iout[rots[0]["i"]][:300]})
    run.cov["correspondence"].update({"impl_lines": len(impl.lines), "model_lines": len(mod.lines)})


def last_config(lines, k):
    """the E line that a P line at index k refers to"""
    if not lines[k].startswith("P"):
        return None
    for j in range(k - 1, -1, -1):
        if lines[j].startswith("E"):
            return lines[j]
    return None


def run_resilient(exe, lines, env=None):
    """run the unit driver; when it dies on a line, record the crash, answer 'crash' for that line and go on with the
    rest in a new process (re-sending the configuration line a following P line depends on)"""
    out = []; crashes = []
    start = 0
    while start < len(lines) and len(crashes) <= 300:
        pre = []
        if lines[start].startswith("P"):
            lc = last_config(lines, start)
            if lc:
                pre = [lc]
        rc, o, e = V.run_lines(exe, pre + lines[start:], timeout=1500, env=env)
        o = o[len(pre):] if len(o) >= len(pre) else []
        out += o
        if len(out) >= len(lines):
            break
        k = len(out)
        crashes.append((k, rc, e))
        out.append("crash")
        start = k + 1
    out += ["crash"] * (len(lines) - len(out))
    return out[:len(lines)], crashes


def judge_session(run, obj, ilines, iout, mlines, mout):
    run.count("session/%s/%s" % (obj["mode"], ilines[obj["i"][0]][-60:]), True)
    run.dist("session:" + obj["mode"])
    lines = [ilines[k] for k in obj["i"]]
    rep = replay_obj("lines", lines, {"model_lines": [mlines[k] for k in obj["m"]]})
    outs = [iout[k] for k in obj["i"]]
    mo = [parse_model(mout[k]) for k in obj["m"]]
    first = parse_impl(outs[0]); last = parse_impl(outs[2])
    if obj["mode"] == "delete":
        if first is None or len(first) != 2 or not close(first[0], mo[0][0]) or not close(first[1], mo[1][0]):
            run.violation("session:two-variables", "two variables on the same atoms: values %s, definitions %r %r" % (outs[0][:80], mo[0], mo[1]), rep); return
        if not outs[1].startswith("ok"):
            run.violation("session:delete", "deleting the second variable fails: %s" % outs[1][:80], rep); return
        if last is None or len(last) != 1 or not close(last[0], mo[2][0]):
            run.violation("session:value-after-delete", "after deleting the other variable that used the same atoms the value is %s, definition %r" % (outs[2][:80], mo[2]), rep)
    else:
        if first is None or len(first) != 1 or not close(first[0], mo[0][0]):
            run.mismatch("value:" + obj["ca"]["comp"], lines[0][:100], outs[0], mo[0]); return
        if not outs[1].startswith("err"):
            run.violation("session:bad-config-accepted", "an invalid configuration was accepted in the middle of the session: %s" % outs[1][:80], rep); return
        if last is None or len(last) != 1 or not close(last[0], mo[1][0]):
            run.violation("session:value-after-rejected-config", "after a rejected configuration the session reports %s for the existing variable, definition %r (%s)" % (outs[2][:80], mo[1], outs[1][:40]), rep)


def judge_history(run, h, i0, ilines, iout, mlines, mout):
    ncomp = len(h["cases0"])
    run.count("history/%s/%d/%s" % ("vector" if h["vector"] else "scalar", ncomp, ilines[i0][-60:]), True)
    run.dist("tie:history:%s:%dcomp%s" % ("vector" if h["vector"] else "scalar", ncomp, ":defaults" if h["default"] else ""))
    lines = [ilines[i0]]
    # python-side record of the live parameters, for the oracle on the implementation alone
    live = [{"coeff": c.get("coeff", 1.0), "exp": c.get("exp", 1), "active": 1} for c in h["cases0"]]
    nev = 0
    for st in h["steps"]:
        if st["line"]:
            lines.append(st["line"])
        lines.append(ilines[st["i"]])
        run.dist("history-event:" + st["kind"])
        for ev in st["events"][nev:]:
            if ev[0] == "F":
                for j in range(ncomp):
                    live[j]["active"] = int(ev[2 + j])
            elif int(ev[1]) == ncomp:
                for j in range(ncomp):
                    if ev[2 + 2 * j] != "-":
                        live[j]["coeff"] = float.fromhex(ev[2 + 2 * j])
                    if ev[3 + 2 * j] != "-":
                        live[j]["exp"] = int(ev[3 + 2 * j])
        nev = len(st["events"])
        a = parse_impl(iout[st["i"]]); b = parse_model(mout[st["m"]])
        rep = replay_obj("lines", list(lines), {"model_lines": [mlines[st["m"]]], "live_parameters": [dict(x) for x in live]})
        if a is None:
            run.violation("value:history:error", "the variable cannot be evaluated after a run-time change (%s): %s" % (st["kind"], iout[st["i"]][:100]), rep)
            return
        # oracle: sum over the enabled components of coeff * q^exp with the components evaluated one by one from scratch
        qs = [parse_impl(iout[f]) for f in st["fresh"]]
        if all(q is not None for q in qs):
            try:
                if h["vector"]:
                    exp = [sum(l["coeff"] * q[j] for l, q in zip(live, qs) if l["active"]) for j in range(3)]
                else:
                    exp = [sum(l["coeff"] * (q[0] if l["exp"] == 1 else q[0] ** l["exp"]) for l, q in zip(live, qs) if l["active"])]
            except (ZeroDivisionError, OverflowError):
                exp = None
            if exp is not None and not vclose(a, exp, 1e-9):
                run.violation("value:history:live-parameters",
                              "after %s the variable reports %r, but the sum over its enabled components of coeff * q^exp with the current parameters %s and the component values %s is %r" % (
                                  st["line"] or st["kind"], a[:3], [(l["coeff"], l["exp"], l["active"]) for l in live], [q[:3] for q in qs], exp[:3]), rep)
                return
        if not vclose(a, b, TOL):
            run.mismatch("value:history", ilines[st["i"]][:120], iout[st["i"]], mout[st["m"]])
            return


def sanitizer_pass(run, lines):
    """thorough tier: the same input lines through an ASan+UBSan build of the library (exploration: memory errors and
    undefined behaviour in the value code paths; not part of any theorem)"""
    try:
        exe = V.build_prog("c02unit", UNIT["c02unit"], variant="asan")
    except V.InfraError as e:
        run.notes.append("sanitizer build not available: %s" % str(e)[:200])
        return
    sub = lines[:6000]
    rc, out, err = V.run_lines(exe, sub, timeout=1500, env={"ASAN_OPTIONS": "detect_leaks=0"})
    run.cov["correspondence"]["sanitizer_lines"] = len(out)
    if rc != 0 or len(out) != len(sub):
        k = len(out)
        run.violation("unit:sanitizer", "the sanitizer build stops (rc=%d) at line %d: %s" % (rc, k, err[-600:]),
                      replay_obj("lines", sub[max(0, k - 1):k + 1], {"variant": "asan"}))


# ---------------------------------------------------------------------------------------------
# A. tie
# ---------------------------------------------------------------------------------------------

def comp_period(cs):
    if len(cs) == 1 and "coeff" not in cs[0]:
        return G.PERIODIC.get(cs[0]["comp"])
    return None


def judge_tie(run, cs, iline, iout, mline, mout):
    name = "+".join(c["comp"] for c in cs)
    key = "|".join(case_key(c) for c in cs)
    run.count(key, all(nontrivial(c) for c in cs))
    run.dist("tie:" + (cs[0]["comp"] if len(cs) == 1 else "combination") + (":cell" if cs[0].get("cell") else "") + (":selection-keywords" if cs[0].get("selection") else ""))
    a = parse_impl(iout); b = parse_model(mout)
    if a is None:
        run.violation("value:%s:error" % cs[0]["comp"], "the implementation reports an error for a valid configuration (%s): %s" % (name, iout[:200]),
                      replay_obj("tie", [iline], {"model_lines": [mline], "cases": cs}))
        return
    if any(math.isnan(x) or math.isinf(x) for x in a):
        run.violation("value:%s:not-finite" % cs[0]["comp"], "value of %s is not finite (%s) away from any singular geometry" % (name, iout[:200]),
                      replay_obj("tie", [iline], {"model_lines": [mline], "cases": cs}))
        return
    if not vclose(a, b, cs[0].get("tol", TOL), comp_period(cs)):
        run.mismatch("value:" + (cs[0]["comp"] if len(cs) == 1 else "combination"), {"impl_line": iline, "model_line": mline, "cases": cs}, iout, mout)
        # the model is the independent implementation of the documented definition: the disagreement IS the failing input
        run.violation("value:%s:definition" % (cs[0]["comp"] if len(cs) == 1 else "combination"),
                      "value of %s differs from the documented definition: implementation %s, definition (model) %s" % (name, a[:6], (b or mout)[:6] if b else mout[:100]),
                      replay_obj("tie", [iline], {"model_lines": [mline], "cases": cs}))


# ---------------------------------------------------------------------------------------------
# B. special geometries with known exact answers
# ---------------------------------------------------------------------------------------------

def gen_special(r, n):
    out = []
    for k in range(n):
        kind = r.choice(["collinear", "collinear", "rightangle", "planar", "axis", "unitpair"])
        if kind in ("collinear", "rightangle"):
            # three single atoms: angle 0 / 180 / 90 exactly
            c0 = [V.dyadic(r, -4, 4) for _ in range(3)]
            while True:
                u = [float(r.randint(-4, 4)) for _ in range(3)]
                if any(u):
                    break
            if kind == "collinear":
                generic = r.random() < 0.5
                if generic:
                    u = [x + r.uniform(-0.3, 0.3) for x in u]
                a = r.choice([0.5, 1.0, 2.0, 3.0, 0.75, 1.7]); b = r.choice([-0.5, 1.0, -2.0, 3.0, 0.25, -1.3])
                p1 = G.add(c0, G.scale(a, u)); p3 = G.add(c0, G.scale(b, u))
                exp = 0.0 if a * b > 0 else 180.0
                tol = 1e-4
            else:
                while True:
                    w = [float(r.randint(-4, 4)) for _ in range(3)]
                    v = G.cross(u, w)
                    if any(v):
                        break
                p1 = G.add(c0, u); p3 = G.add(c0, v); exp = 90.0; tol = 1e-9
            atoms = [[1.0, 0.0] + p1, [2.0, 0.0] + c0, [1.0, 0.0] + p3]
            case = {"comp": "angle", "pbc": 1, "params": {}, "groups": [[1], [2], [3]], "atoms": atoms, "cell": None}
            out.append({"case": case, "expect": [exp], "tol": tol, "what": "angle of three %s atoms" % kind})
        elif kind == "planar":
            # dihedral of a planar cis / trans arrangement: 0 or 180 (mod 360)
            cis = r.random() < 0.5
            a = [V.dyadic(r, 0.5, 3)] + [0.0]; s = V.dyadic(r, 0.5, 3)
            p1 = [-1.0, V.dyadic(r, 0.5, 3), 0.0]; p2 = [0.0, 0.0, 0.0]; p3 = [s, 0.0, 0.0]
            p4 = [s + 1.0, (1 if cis else -1) * V.dyadic(r, 0.5, 3), 0.0]
            M = r.choice(G.AXIS_ROT); t = [V.dyadic(r, -3, 3) for _ in range(3)]
            atoms = [[1.0, 0.0] + G.add(G.matvec(M, p), t) for p in (p1, p2, p3, p4)]
            case = {"comp": "dihedral", "pbc": 1, "params": {}, "groups": [[1], [2], [3], [4]], "atoms": atoms, "cell": None}
            out.append({"case": case, "expect": [0.0 if cis else 180.0], "tol": 1e-9, "period": 360.0, "what": "dihedral of a planar %s arrangement" % ("cis" if cis else "trans")})
        elif kind == "axis":
            # one atom on the z axis: polarTheta 0 or 180; distance between atoms at dyadic 3-4-5 offsets
            z = r.choice([1.0, -1.0, 2.5, -0.375])
            atoms = [[1.0, 0.0, 0.0, 0.0, z], [1.0, 0.0, 3.0, 4.0, z]]
            case = {"comp": "polarTheta", "pbc": 1, "params": {}, "groups": [[1]], "atoms": atoms, "cell": None}
            out.append({"case": case, "expect": [0.0 if z > 0 else 180.0], "tol": 1e-9, "what": "polarTheta of an atom on the z axis"})
            case2 = {"comp": "distance", "pbc": 1, "params": {}, "groups": [[1], [2]], "atoms": atoms, "cell": None}
            out.append({"case": case2, "expect": [5.0], "tol": 0.0, "what": "distance of a 3-4-5 offset"})
        else:
            # two atoms at distance exactly r0 * 2^k: coordination (1-2^(kn))/(1-2^(km)) in closed form
            k2 = r.choice([1, -1, 2])
            r0 = r.choice([2.0, 4.0])
            en, ed = r.choice([(6, 12), (2, 4), (4, 8)])
            d = r0 * 2.0 ** k2
            atoms = [[1.0, 0.0, 0.0, 0.0, 0.0], [1.0, 0.0, 0.0, d, 0.0]]
            case = {"comp": "coordNum", "pbc": 1, "params": {"r0": r0, "en": en, "ed": ed}, "groups": [[1], [2]], "atoms": atoms, "cell": None}
            x = 2.0 ** k2
            out.append({"case": case, "expect": [(1 - x ** en) / (1 - x ** ed)], "tol": 1e-12, "what": "coordNum of one pair at distance r0*2^%d" % k2})
    return out


def judge_special(run, sp, iline, iout, mline, mout):
    c = sp["case"]
    run.count("special/" + sp["what"] + "/" + iline[-80:], True)
    run.dist("special:" + c["comp"])
    a = parse_impl(iout); b = parse_model(mout)
    rep = replay_obj("tie", [iline], {"model_lines": [mline], "cases": [c], "expect": sp["expect"]})
    if a is None or any(math.isnan(x) for x in a):
        run.violation("value:%s:special-geometry" % c["comp"],
                      "%s: the implementation returns %s where the definition gives %r" % (sp["what"], iout[:80], sp["expect"]), rep)
        return
    good = (a == sp["expect"]) if sp["tol"] == 0.0 else vclose(a, sp["expect"], sp["tol"], sp.get("period"))
    if not good:
        run.violation("value:%s:special-geometry" % c["comp"],
                      "%s: the implementation returns %r where the definition gives %r" % (sp["what"], a, sp["expect"]), rep)
    if b is not None and not any(math.isnan(x) for x in b) and not vclose(a, b, max(sp["tol"], TOL), sp.get("period")):
        run.mismatch("value:" + c["comp"], {"impl_line": iline, "model_line": mline}, iout, mout)


# ---------------------------------------------------------------------------------------------
# C. metamorphic search
# ---------------------------------------------------------------------------------------------
# relation of a variant's output to the base output:
#   ("same", tol)                    equal (modulo the period of the component)
#   ("rotvec", M, tol)               3-vector turned by M
#   ("cart", M, t, tol)              list of atom coordinates moved by M, t
#   ("orient", M, tol)               quaternion q' with R(q') = M R(q)
#   ("shiftdeg", delta, tol)         value + delta modulo 360

INTERNAL = ["distance", "distanceInv", "dipoleMagnitude", "gyration", "inertia", "angle", "dipoleAngle", "dihedral",
            "coordNum", "selfCoordNum", "groupCoord", "hBond", "distancePairs"]
TRANSL_ONLY = ["distanceZ", "distanceXY", "inertiaZ"]


def random_rotation(r, exact):
    if exact:
        return [list(row) for row in r.choice(G.AXIS_ROT)]
    return G.quat_matrix(G.random_unit_quat(r))


def gen_metas(r, scale):
    metas = []
    comps_all = G.MODELLED + ["distancePairs"]
    # ---- rigid motions, permutations, duplicates: modelled components + distancePairs, no cell or forceNoPBC
    for comp in comps_all:
        for k in range(4 * scale):
            c = gen_until(r, comp, generic=(k % 2 == 1), cellmode=False, dup=0.0)
            if c is None:
                continue
            metas.append(meta_of_case(r, c))
    # ---- the same with a cell defined: translations only (and lattice translations of whole groups)
    for comp in comps_all:
        for k in range(3 * scale):
            c = gen_until(r, comp, generic=(k % 2 == 1), cellmode=True, compact=True, disjoint=True, dup=0.0)
            if c is None:
                continue
            if comp in ("coordNum", "selfCoordNum", "groupCoord", "hBond", "distanceInv", "distancePairs"):
                c["pbc"] = 1
            metas.append(meta_of_case(r, c))
    # ---- reference-based components
    for comp in REFCOMPS:
        for k in range(4 * scale):
            c = gen_ref_case(r, comp)
            if c is not None:
                metas.append(meta_of_ref(r, c))
    # ---- Cartesian path variables and rmsd with a reference file
    sdir = V.scratch("C02")
    for comp in ("gspath", "gzpath", "aspath", "azpath", "rmsd"):
        for k in range(3 * scale):
            c = gen_path_case(r, comp, sdir, "%s_%d" % (comp, k))
            if c is not None:
                metas.append(meta_of_path(r, c))
    # ---- fitted groups
    for k in range(8 * scale):
        c = gen_fitted_case(r)
        if c is not None:
            metas.append(meta_of_fitted(r, c))
    return metas


def groups_atoms(c):
    s = set()
    for l in c["groups"]:
        s.update(l)
    return s


def meta_of_case(r, c):
    comp = c["comp"]; atoms = c["atoms"]; cell = c.get("cell")
    p = c.get("params", {})
    variants = []
    nopbc_effective = (cell is None) or (not c.get("pbc", 1) and comp not in ("coordNum", "selfCoordNum", "groupCoord", "hBond"))
    aniso = p.get("r0v") is not None
    fixed_axis = comp in TRANSL_ONLY and (comp == "inertiaZ" or len(c["groups"]) == 2)
    for exact in (True, False):
        M = random_rotation(r, exact)
        t = [V.dyadic(r, -4, 4, bits=3) for _ in range(3)] if exact else [r.uniform(-4, 4) for _ in range(3)]
        tol = 1e-11 if exact else 1e-9
        if comp in ("polarTheta", "polarPhi"):
            # absolute angles: only rotations about z are symmetries of theta; phi is shifted
            k4 = r.randint(1, 3)
            ang = k4 * 90.0 if exact else r.uniform(-170, 170)
            cs_, sn_ = (round(math.cos(math.radians(ang))), round(math.sin(math.radians(ang)))) if exact else (math.cos(math.radians(ang)), math.sin(math.radians(ang)))
            Mz = [[float(cs_), -float(sn_), 0.0], [float(sn_), float(cs_), 0.0], [0.0, 0.0, 1.0]]
            rel = ("same", tol) if comp == "polarTheta" else ("shiftdeg", ang, 1e-9)
            variants.append({"line": G.pos_line(G.move_atoms(atoms, Mz, [0.0, 0.0, 0.0])), "rel": rel, "what": "rotation about z by %g degrees" % ang})
            continue
        if not nopbc_effective or fixed_axis or aniso:
            Muse = G.IDENT
        else:
            Muse = M
        moved = G.move_atoms(atoms, Muse, t)
        what = ("rotation by a multiple of 90 degrees + dyadic translation" if exact else "generic rotation + translation") if Muse is not G.IDENT else "translation"
        if comp == "distanceVec" or comp == "distanceDir":
            rel = ("rotvec", Muse, tol)
        elif comp == "cartesian":
            rel = ("cart", Muse, t, p["use"], tol)
        else:
            rel = ("same", tol)
        variants.append({"line": G.pos_line(moved), "rel": rel, "what": what})
    # lattice translation of whole groups (cell on, minimum image in use, disjoint groups, compact system)
    if cell is not None and c.get("pbc", 1) and comp not in ("cartesian", "polarTheta", "polarPhi"):
        for k in range(2):
            moved = [list(a) for a in atoms]
            if comp in ("selfCoordNum", "hBond"):
                chosen = [[i] for i in G.dedup(c["groups"][0])]      # pairwise minimum image: any single atom may move
            else:
                chosen = [G.dedup(l) for l in c["groups"]]
            desc = []
            for ids in chosen:
                if r.random() < 0.6:
                    n = [r.randint(-2, 2) for _ in range(3)]
                    for i in ids:
                        moved[i - 1][2:5] = [x + nn * L for x, nn, L in zip(moved[i - 1][2:5], n, cell)]
                    desc.append("%s by %s" % (ids, n))
            if desc:
                variants.append({"line": G.pos_line(moved), "rel": ("same", 1e-9), "what": "lattice translation of " + "; ".join(desc)})
    # the same atoms selected twice through two keywords (atomNumbers + atomNumbersRange)
    for gi, l in enumerate(c["groups"]):
        ids = sorted(set(l))
        runs = [(a, b) for a, b in zip(ids, ids[1:]) if b == a + 1]
        if runs and comp != "hBond":
            a, b = r.choice(runs)
            c2 = dict(c); ge = dict(c.get("group_extra") or {})
            key = G.GROUPKEYS[comp][gi]
            ge[key] = list(ge.get(key, [])) + ["atomNumbersRange %d-%d" % (a, b)]
            c2["group_extra"] = ge
            variants.append({"line": G.impl_line([c2]), "rel": ("same", 0.0),
                             "what": "group %d listed with a duplicate selection atomNumbersRange %d-%d" % (gi + 1, a, b)})
            break
    # permutation of the listing, duplicate listing (new configuration)
    for mode in ("perm", "dup"):
        c2 = dict(c); gl = [list(l) for l in c["groups"]]
        if comp == "hBond":
            continue
        gi = r.randrange(len(gl))
        if mode == "perm":
            if len(gl[gi]) < 2:
                continue
            old = list(gl[gi])
            for _ in range(5):
                r.shuffle(gl[gi])
                if gl[gi] != old:
                    break
            if comp in ("cartesian", "distancePairs"):
                rel = ("reorder", comp, gi, old, list(gl[gi]), [len(G.dedup(l)) for l in gl], p.get("use"), 1e-12)
            else:
                rel = ("same", 1e-12 if all(float(a[0]).is_integer() for a in atoms) else 1e-9)
            what = "group %d listed as %s instead of %s" % (gi + 1, gl[gi], old)
        else:
            j = r.randrange(len(gl[gi]))
            pos = r.randint(j + 1, len(gl[gi]))
            gl[gi].insert(pos, gl[gi][j])
            rel = ("same", 0.0)
            what = "group %d listed with a duplicate: %s" % (gi + 1, gl[gi])
        c2["groups"] = gl
        variants.append({"line": G.impl_line([c2]), "rel": rel, "what": what})
    variants += axis_variants(c)
    return {"what": comp, "case": c, "base_line": G.impl_line([c]), "variants": variants, "period": G.PERIODIC.get(comp)}


def meta_of_ref(r, c):
    comp = c["comp"]; atoms = c["atoms"]; p = c["params"]
    variants = []
    for exact in (True, False):
        M = random_rotation(r, exact)
        t = [V.dyadic(r, -4, 4, bits=3) for _ in range(3)] if exact else [r.uniform(-4, 4) for _ in range(3)]
        if comp in ("rmsd", "eigenvector"):
            variants.append({"line": G.pos_line(G.move_atoms(atoms, M, t)), "rel": ("same", 1e-8), "what": "rigid motion"})
        elif comp == "orientation":
            variants.append({"line": G.pos_line(G.move_atoms(atoms, M, t)), "rel": ("orient", M, 1e-8), "what": "rigid motion"})
        else:
            variants.append({"line": G.pos_line(G.move_atoms(atoms, G.IDENT, t)), "rel": ("same", 1e-8), "what": "translation"})
            if comp in ("tilt", "spinAngle"):
                # rotation about the component's own axis: tilt unchanged, spin angle shifted
                ax = G.scale(1.0 / G.norm(p["axis"]), p["axis"]); ang = r.choice([90.0, 180.0, 270.0]) if exact else r.uniform(-170, 170)
                if exact and any(abs(abs(x) - round(abs(x))) > 1e-12 for x in ax):
                    exact_here = False
                else:
                    exact_here = exact
                h = math.radians(ang) / 2.0
                q = [math.cos(h)] + [math.sin(h) * x for x in ax]
                Ma = G.quat_matrix(q)
                if exact_here:
                    Ma = [[float(round(x)) for x in row] for row in Ma]
                cen = [sum(atoms[i - 1][2 + k] for i in c["groups"][0]) / len(c["groups"][0]) for k in range(3)]
                moved = []
                for a in atoms:
                    moved.append([a[0], a[1]] + G.add(G.matvec(Ma, G.sub(a[2:5], cen)), cen))
                rel = ("same", 1e-7) if comp == "tilt" else ("shiftdeg", ang, 1e-7)
                variants.append({"line": G.pos_line(moved), "rel": rel, "what": "rotation about the axis by %g degrees" % ang})
    # consistent permutation of atoms and reference positions; duplicate listing
    ids = c["groups"][0]; n = len(ids)
    perm = list(range(n)); r.shuffle(perm)
    c2 = dict(c); c2["groups"] = [[ids[k] for k in perm]]
    p2 = dict(p); p2["ref"] = [p["ref"][k] for k in perm]
    if "vector" in p:
        p2["vector"] = [p["vector"][k] for k in perm]
    c2["params"] = p2
    variants.append({"line": G.impl_line([c2]), "rel": ("same", 1e-8) if comp != "orientation" else ("orient", G.IDENT, 1e-8),
                     "what": "atoms and reference positions listed in the order %s" % perm})
    c3 = dict(c); j = r.randrange(n); l3 = list(ids); l3.insert(r.randint(j + 1, n), ids[j]); c3["groups"] = [l3]
    variants.append({"line": G.impl_line([c3]), "rel": ("same", 0.0) if comp != "orientation" else ("orient", G.IDENT, 0.0), "what": "duplicate listing %s" % l3})
    variants += axis_variants(c)
    return {"what": comp, "case": c, "base_line": G.impl_line([c]), "variants": variants, "period": G.PERIODIC.get(comp)}


def meta_of_fitted(r, c):
    atoms = c["atoms"]
    variants = []
    for exact in (True, False):
        M = random_rotation(r, exact)
        if c["fitmode"] == "centeronly":
            M = G.IDENT
        t = [V.dyadic(r, -4, 4, bits=3) for _ in range(3)] if exact else [r.uniform(-4, 4) for _ in range(3)]
        variants.append({"line": G.pos_line(G.move_atoms(atoms, M, t)), "rel": ("same", 1e-8),
                         "what": "rigid motion of all atoms (coordinates in the fitted frame must not change)"})
    return {"what": "fitted:" + c["fitmode"], "case": c, "base_line": G.impl_line([c]), "variants": variants, "period": None}


def judge_meta(run, mt, ilines, iout):
    comp = mt["what"]
    base = parse_impl(iout[mt["base_i"]])
    c = mt["case"]
    run.count("meta/" + case_key(c), True)
    run.dist("meta:" + comp + (":cell" if c.get("cell") else ""))
    lines0 = [ilines[mt["base_i"]]]
    if base is None or any(math.isnan(x) for x in base):
        run.violation("meta:%s:base-error" % comp, "the implementation fails on a valid %s configuration: %s" % (comp, iout[mt["base_i"]][:200]),
                      replay_obj("lines", lines0))
        return
    per = mt.get("period")
    for v in mt["variants"]:
        out = parse_impl(iout[v["i"]])
        rel = v["rel"]
        lines = lines0 + [ilines[v["i"]]]
        kind = rel[0]
        run.dist("relation:" + kind)
        ok = False
        exp = None
        if out is None:
            ok = False
        elif kind == "same":
            tol = rel[1]
            ok = (out == base) if tol == 0.0 else vclose(out, base, tol, per)
            exp = base
        elif kind == "rotvec":
            exp = G.matvec(rel[1], base)
            ok = vclose(out, exp, rel[2])
        elif kind == "cart":
            M, t, use, tol = rel[1], rel[2], rel[3], rel[4]
            # only complete triples can be checked when all three axes are used; otherwise compare the used axes
            exp = None
            if all(use):
                exp = []
                for k in range(0, len(base), 3):
                    exp += G.add(G.matvec(M, base[k:k + 3]), t)
                ok = vclose(out, exp, tol)
            elif M == G.IDENT:
                tt = [x for x, u in zip(t, use) if u]
                exp = [x + tt[k % len(tt)] for k, x in enumerate(base)]
                ok = vclose(out, exp, tol)
            else:
                ok = out is not None and len(out) == len(base)     # projections alone do not determine the moved coordinates
        elif kind == "orient":
            Rb = G.quat_matrix(base); Ro = G.quat_matrix(out) if len(out) == 4 else None
            if Ro is not None:
                exp = [[sum(rel[1][i][k] * Rb[k][j] for k in range(3)) for j in range(3)] for i in range(3)]
                ok = all(abs(Ro[i][j] - exp[i][j]) <= max(rel[2], 1e-12) * 10 for i in range(3) for j in range(3))
        elif kind == "shiftdeg":
            exp = [base[0] + rel[1]]
            ok = vclose(out, exp, rel[2], 360.0)
        elif kind == "reorder":
            _, cname, gi, old, new, sizes, use, tol = rel
            if cname == "cartesian":
                dim = sum(1 for u in use if u)
                oldd = G.dedup(old); newd = G.dedup(new)
                exp = []
                for a in newd:
                    k = oldd.index(a)
                    exp += base[k * dim:(k + 1) * dim]
            else:
                n1, n2 = sizes
                oldd = G.dedup(old); newd = G.dedup(new)
                exp = [0.0] * len(base)
                for i1 in range(n1):
                    for i2 in range(n2):
                        if gi == 0:
                            exp[i1 * n2 + i2] = base[oldd.index(newd[i1]) * n2 + i2]
                        else:
                            exp[i1 * n2 + i2] = base[i1 * n2 + oldd.index(newd[i2])]
            ok = vclose(out, exp, tol)
        if not ok:
            sig = "meta:%s:%s" % (comp, {"same": "invariance", "rotvec": "equivariance", "cart": "equivariance", "orient": "equivariance",
                                          "shiftdeg": "equivariance", "reorder": "reorder"}[kind])
            tag = v["what"].split(" ")[0]
            if "lattice" in v["what"]:
                sig += ":lattice"
            elif v["what"].startswith("axis "):
                sig += ":axis-normalisation"
            elif "duplicate" in v["what"]:
                sig += ":duplicate"
            elif "listed" in v["what"]:
                sig += ":permutation"
            else:
                sig += ":rigid-motion"
            got = out[:8] if out else iout[v["i"]][:120]
            run.violation(sig, "%s under %s: value %r became %r, expected %r" % (comp, v["what"], base[:8], got, exp if exp is None else (exp[:8] if not isinstance(exp[0], list) else exp)),
                          replay_obj("lines", lines, {"relation": kind, "what": v["what"]}))


# ---------------------------------------------------------------------------------------------
# D. optimal rotation
# ---------------------------------------------------------------------------------------------

def gen_rotations(r, n):
    out = []
    for k in range(n):
        na = r.randint(3, 8)
        for _ in range(100):
            p1 = [[V.dyadic(r, -4, 4, bits=4) for _ in range(3)] for _ in range(na)]
            cen = [sum(p[j] for p in p1) / na for j in range(3)]
            p1 = [G.sub(p, cen) for p in p1]
            if na == 3 or nondegenerate(p1):
                break
        mode = r.choice(["exact", "noisy", "noisy", "random", "identity", "axis180"])
        if mode == "identity":
            p2 = [list(p) for p in p1]
        elif mode == "random":
            p2 = [[r.uniform(-4, 4) for _ in range(3)] for _ in range(na)]
        elif mode == "axis180":
            M = r.choice([m for m in G.AXIS_ROT if m[0][0] + m[1][1] + m[2][2] == -1.0])
            p2 = [G.matvec(M, p) for p in p1]
        else:
            M = G.quat_matrix(G.random_unit_quat(r))
            p2 = [G.matvec(M, p) for p in p1]
            if mode == "noisy":
                p2 = [[x + r.gauss(0, 0.3) for x in p] for p in p2]
        line = "ROT %d %s %s" % (na, " ".join(G.hx(x) for p in p1 for x in p), " ".join(G.hx(x) for p in p2 for x in p))
        out.append({"n": na, "p1": p1, "p2": p2, "line": line, "mode": mode, "rng": r.random()})
    return out


def judge_rot(run, ro, ilines, iout, mlines, mout):
    import random as _random
    run.count("rot/%s/%d/%s" % (ro["mode"], ro["n"], ro["line"][-40:]), True)
    run.dist("rotation:" + ro["mode"])
    o = ro["out"]
    rep = replay_obj("lines", [ro["line"]])
    if o is None or len(o) != 49 or "error" in iout[ro["i"]]:
        run.violation("rotation:error", "calc_optimal_rotation fails on %d atoms (%s): %s" % (ro["n"], ro["mode"], iout[ro["i"]][:160]), rep)
        return
    C = o[0:9]; S = [o[9 + 4 * i:13 + 4 * i] for i in range(4)]; ev = o[25:29]; Vv = [o[29 + 4 * i:33 + 4 * i] for i in range(4)]; q = o[45:49]
    scale = max(1.0, max(abs(x) for row in S for x in row))
    # S V = V L, V^T V = I, V V^T = I, descending order, q = +- top eigenvector
    res = 0.0
    for k in range(4):
        Sv = [sum(S[i][j] * Vv[k][j] for j in range(4)) for i in range(4)]
        res = max(res, max(abs(Sv[i] - ev[k] * Vv[k][i]) for i in range(4)))
    orth = max(abs(sum(Vv[a][i] * Vv[b][i] for i in range(4)) - (1.0 if a == b else 0.0)) for a in range(4) for b in range(4))
    comp = max(abs(sum(Vv[k][i] * Vv[k][j] for k in range(4)) - (1.0 if i == j else 0.0)) for i in range(4) for j in range(4))
    dec = max(abs(sum(ev[k] * Vv[k][i] * Vv[k][j] for k in range(4)) - S[i][j]) for i in range(4) for j in range(4))
    if res > 1e-9 * scale or orth > 1e-9 or comp > 1e-9 or dec > 1e-9 * scale:
        run.violation("rotation:eigendecomposition", "the eigen-decomposition returned for the overlap matrix is not one: |SV-VL|=%.3g |V^TV-I|=%.3g |VV^T-I|=%.3g |VLV^T-S|=%.3g (%d atoms, %s)" % (res, orth, comp, dec, ro["n"], ro["mode"]), rep)
    if not all(ev[0] >= ev[k] - 1e-12 * scale for k in range(1, 4)):
        run.violation("rotation:not-largest-eigenvalue", "the quaternion used does not belong to the largest eigenvalue: eigenvalues %r" % ev, rep)
    if not (vclose(q, Vv[0], 1e-12) or vclose(q, [-x for x in Vv[0]], 1e-12)):
        run.violation("rotation:q-not-top-eigenvector", "q = %r is not the first eigenvector %r" % (q, Vv[0]), rep)
    # model: C and S as built by the model from the same positions; the quadratic-form identity; optimality by sampling
    if "m" in ro:
        mo = parse_model(mout[ro["m"]])
        if mo is None or len(mo) != 29:
            run.mismatch("rotation:model", ro["line"], iout[ro["i"]][:200], mout[ro["m"]][:200])
            return
        if not vclose(C, mo[0:9], 1e-9) or not vclose([x for row in S for x in row], mo[9:25], 1e-9):
            run.mismatch("rotation:overlap-matrix", ro["line"], {"C": C, "S": S}, {"C": mo[0:9], "S": mo[9:25]})
            run.violation("rotation:overlap-matrix", "correlation/overlap matrix differs from its definition: C=%r S=%r, definition C=%r S=%r" % (C, S, mo[0:9], mo[9:25]), rep)
        sq, nx, ny, qf = mo[25:29]
        if not close(sq, nx + ny - 2 * qf, 1e-9 * max(1.0, nx + ny)):
            run.mismatch("rotation:quadratic-form", ro["line"], sq, nx + ny - 2 * qf)
        # "no other rotation gives a smaller deviation": random rotations and rotations near q
        rr = _random.Random(ro["rng"])
        def dev(qq):
            R = G.quat_matrix(qq)
            return sum(sum((a - b) ** 2 for a, b in zip(G.matvec(R, x), y)) for x, y in zip(ro["p1"], ro["p2"]))
        d0 = dev(q)
        worst = None
        for k in range(40):
            if k % 2 == 0:
                qq = G.random_unit_quat(rr)
            else:
                qq = [a + rr.gauss(0, 0.05) for a in q]
                nn = math.sqrt(sum(a * a for a in qq)); qq = [a / nn for a in qq]
            dd = dev(qq)
            if dd < d0 - 1e-9 * max(1.0, nx + ny) and (worst is None or dd < worst[0]):
                worst = (dd, qq)
        if worst:
            run.violation("rotation:not-optimal", "the rotation %r is not the least-squares optimum: deviation %.12g, but %.12g for q=%r (%d atoms, %s)" % (q, d0, worst[0], worst[1], ro["n"], ro["mode"]), rep)


# ---------------------------------------------------------------------------------------------
# E. quaternion sign, rotation matrix, minimum image
# ---------------------------------------------------------------------------------------------

def gen_misc(r, n):
    out = []
    for k in range(n):
        kind = r.choice(["qsign", "qsign", "pd", "pd", "pd", "pdt", "pdt"])
        if kind == "pdt":
            generic = r.random() < 0.3
            dy = (lambda lo, hi: r.uniform(lo, hi)) if generic else (lambda lo, hi: V.dyadic(r, lo, hi, bits=2))
            L = [r.choice([8.0, 16.0]) for _ in range(3)]
            a = [L[0], 0.0, 0.0]; b = [dy(-3, 3), L[1], 0.0]; c = [dy(-3, 3), dy(-3, 3), L[2]]
            if r.random() < 0.3:      # a general orientation: the same cell turned by an axis rotation
                M = r.choice(G.AXIS_ROT); a, b, c = G.matvec(M, a), G.matvec(M, b), G.matvec(M, c)
            p1 = [V.dyadic(r, -30, 30) for _ in range(3)]; p2 = [V.dyadic(r, -30, 30) for _ in range(3)]
            n1 = [r.randint(-3, 3) for _ in range(3)]
            p2s = [p2[k] + n1[0] * a[k] + n1[1] * b[k] + n1[2] * c[k] for k in range(3)]
            f = lambda q1, q2: "PDT %s %s %s %s %s" % tuple(" ".join(G.hx(x) for x in v) for v in (a, b, c, q1, q2))
            out.append({"kind": "pdt", "cellv": [a, b, c], "p1": p1, "p2": p2, "n": n1, "generic": generic,
                        "impl": [f(p1, p2), f(p1, p2s)], "model": [f(p1, p2), f(p1, p2s)]})
            continue
        if kind == "qsign":
            q = G.random_unit_quat(r) if r.random() < 0.7 else r.choice([[1.0, 0.0, 0.0, 0.0], [0.0, 1.0, 0.0, 0.0], [0.5, 0.5, 0.5, 0.5], [0.0, 0.0, 0.6, 0.8]])
            ax = r.choice([[0.0, 0.0, 1.0], [1.0, 0.0, 0.0], [0.0, 1.0, 0.0]])
            f = lambda qq: "QFUN %s %s" % (" ".join(G.hx(x) for x in qq), " ".join(G.hx(x) for x in ax))
            out.append({"kind": kind, "q": q, "impl": [f(q), f([-x for x in q])],
                        "model": ["QM " + " ".join(G.hx(x) for x in q), "QM " + " ".join(G.hx(x) for x in [-x for x in q])]})
        else:
            generic = r.random() < 0.3
            cell = G.gen_cell(r, generic)
            hc = 1 if r.random() < 0.85 else 0
            p1 = [V.dyadic(r, -40, 40) for _ in range(3)]; p2 = [V.dyadic(r, -40, 40) for _ in range(3)]
            if r.random() < 0.3 and not generic:   # exactly half a cell apart in one direction
                j = r.randrange(3); p2[j] = p1[j] + cell[j] / 2 + r.randint(-2, 2) * cell[j]
            elif r.random() < 0.25 and not generic:  # very far apart: 2^20 .. 2^40 cell lengths (still exact in binary64)
                j = r.randrange(3); p2[j] = p2[j] + r.choice([1, -1]) * 2.0 ** r.choice([20, 30, 31, 32, 35, 40]) * cell[j]
            n1 = [r.randint(-3, 3) for _ in range(3)]
            p2s = [x + a * L for x, a, L in zip(p2, n1, cell)]
            f = lambda a, b: "PD %d %s %s %s" % (hc, " ".join(G.hx(x) for x in cell), " ".join(G.hx(x) for x in a), " ".join(G.hx(x) for x in b))
            amb = hc and generic and any(abs(((b - a) / L + 0.5) - round((b - a) / L + 0.5)) < 1e-7 for a, b, L in zip(p1, p2, cell))
            out.append({"kind": kind, "cell": cell, "hc": hc, "p1": p1, "p2": p2, "n": n1, "amb": amb, "generic": generic,
                        "impl": [f(p1, p2), f(p1, p2s)], "model": [f(p1, p2), f(p1, p2s)]})
    return out


def judge_misc(run, ms, ilines, iout, mlines, mout):
    a = [parse_impl(iout[i]) for i in ms["i"]]; b = [parse_model(mout[m]) for m in ms["m"]]
    lines = [ilines[i] for i in ms["i"]]
    run.count("misc/" + lines[0], True)
    run.dist("misc:" + ms["kind"])
    rep = replay_obj("lines", lines, {"model_lines": [mlines[m] for m in ms["m"]]})
    if any(x is None for x in a):
        run.violation("misc:%s:error" % ms["kind"], "no numeric result: %s" % [iout[i][:80] for i in ms["i"]], rep)
        return
    if ms["kind"] == "pdt":
        a3, b3, c3 = ms["cellv"]
        # reduced coordinates by Cramer's rule (python floats)
        det = G.dot(G.cross(b3, c3), a3)
        red = lambda v: [G.dot(G.cross(b3, c3), v) / det, G.dot(G.cross(c3, a3), v) / det, G.dot(G.cross(a3, b3), v) / det]
        d = G.sub(ms["p2"], ms["p1"])
        amb = any(abs((x + 0.5) - round(x + 0.5)) < 1e-7 for x in red(d)) and ms["generic"]
        if amb:
            run.dist("boundary-ambiguous"); return
        for k in range(2):
            if not vclose(a[k], b[k], 1e-9):
                run.mismatch("value:position_distance:triclinic", lines[k], iout[ms["i"][k]], mout[ms["m"][k]])
        if not vclose(a[0], a[1], 1e-9):
            run.violation("min-image:triclinic:lattice", "position_distance in the cell %r changes when the second position is moved by the lattice vector %r: %r vs %r" % (ms["cellv"], ms["n"], a[0], a[1]), rep)
        rr = red(a[0])
        if any(not (-0.5 - 1e-9 <= x <= 0.5 + 1e-9) for x in rr):
            run.violation("min-image:triclinic:range", "position_distance %r has reduced coordinates %r outside [-1/2, 1/2] in the cell %r" % (a[0], rr, ms["cellv"]), rep)
        rd = red(G.sub(d, a[0]))
        if any(abs(x - round(x)) > 1e-8 for x in rd):
            run.violation("min-image:triclinic:congruent", "position_distance %r is not the plain difference %r minus a lattice vector of %r" % (a[0], d, ms["cellv"]), rep)
        return
    if ms["kind"] == "qsign":
        for k in range(2):
            if not vclose(a[k][0:9], b[k], 1e-12):
                run.mismatch("value:rotation_matrix", lines[k], iout[ms["i"][k]], mout[ms["m"][k]])
        if a[0][0:9] != a[1][0:9]:
            run.violation("qsign:rotation_matrix", "rotation_matrix(-q) differs from rotation_matrix(q) for q=%r" % ms["q"], rep)
        if not close(a[0][9], a[1][9], 1e-9, 360.0):
            run.violation("qsign:spin_angle", "spin angle changes with the sign of q: %r vs %r for q=%r" % (a[0][9], a[1][9], ms["q"]), rep)
        if not close(a[0][10], a[1][10], 1e-9):
            run.violation("qsign:tilt", "tilt changes with the sign of q: %r vs %r for q=%r" % (a[0][10], a[1][10], ms["q"]), rep)
    else:
        if ms["amb"]:
            run.dist("boundary-ambiguous")
            return
        for k in range(2):
            if not vclose(a[k], b[k], 1e-9):
                run.mismatch("value:position_distance", lines[k], iout[ms["i"][k]], mout[ms["m"][k]])
        if ms["hc"]:
            tol = 0.0 if not ms["generic"] else 1e-9
            if not (a[0] == a[1] if tol == 0.0 else vclose(a[0], a[1], tol)):
                run.violation("min-image:lattice", "position_distance changes when the second position is moved by the lattice vector %r: %r vs %r (cell %r)" % (ms["n"], a[0], a[1], ms["cell"]), rep)
            if any(abs(x) > L / 2 * (1 + 1e-12) for x, L in zip(a[0], ms["cell"])):
                run.violation("min-image:range", "position_distance %r exceeds half the cell %r" % (a[0], ms["cell"]), rep)
            d = G.sub(ms["p2"], ms["p1"])
            if any(abs((x - y) / L - round((x - y) / L)) > 1e-9 for x, y, L in zip(d, a[0], ms["cell"])):
                run.violation("min-image:congruent", "position_distance %r is not congruent to the plain difference %r modulo the cell %r" % (a[0], d, ms["cell"]), rep)
        else:
            if a[0] != G.sub(ms["p2"], ms["p1"]):
                run.violation("min-image:nocell", "position_distance without a cell is not the plain difference", rep)


# ---------------------------------------------------------------------------------------------

def replay(path):
    j = json.load(open(path))
    print(json.dumps(j, indent=1)[:4000])
    rp = j.get("replay", {})
    lines = rp.get("impl_lines")
    if lines:
        unitp = V.build_prog("c02unit", UNIT["c02unit"])
        print("impl :", V.run_lines(unitp, lines)[1])
    if rp.get("model_lines"):
        model = V.extract_model("C02", EXTRACT, DRIVER, ["ocaml/fops.ml"])
        print("model:", V.run_lines(model, rp["model_lines"])[1])
    return 0
