(* C01 model driver: one case per line (see props/C01/check.py: model_line), prints
   "E <energy> S <scale> A <applied force per variable...> V <values...> F <fx fy fz per atom...>" in hex floats.  Every case goes through the state
   model of SuperposModel.v: init_var on the variables as configured, then the case's history of modifycvcs / cvcflags
   events (possibly empty), then energy / values / forces of the state reached *)
open Model
open X_fops
let pi = 3.14159265358979323846
(* rotation::calc_optimal_rotation for the model: overlap matrix of the (position, reference) pairs as in
   rotation::build_correlation_matrix / compute_overlap_matrix, eigenvector of its largest eigenvalue (cyclic Jacobi) *)
let qopt_float (prs : (((float * float) * float) * ((float * float) * float)) list) =
  let c = Array.make_matrix 3 3 0.0 in
  List.iter (fun (((x1, y1), z1), ((x2, y2), z2)) ->
    let a = [| x1; y1; z1 |] and b = [| x2; y2; z2 |] in
    for i = 0 to 2 do for j = 0 to 2 do c.(i).(j) <- c.(i).(j) +. a.(i) *. b.(j) done done) prs;
  let cxx = c.(0).(0) and cxy = c.(0).(1) and cxz = c.(0).(2) and cyx = c.(1).(0) and cyy = c.(1).(1) and cyz = c.(1).(2)
  and czx = c.(2).(0) and czy = c.(2).(1) and czz = c.(2).(2) in
  let s = Array.make_matrix 4 4 0.0 in
  let set i j v = s.(i).(j) <- v; s.(j).(i) <- v in
  set 0 0 (cxx +. cyy +. czz); set 1 0 (cyz -. czy); set 2 0 (czx -. cxz); set 3 0 (cxy -. cyx);
  set 1 1 (cxx -. cyy -. czz); set 2 1 (cxy +. cyx); set 3 1 (cxz +. czx);
  set 2 2 (cyy -. cxx -. czz); set 3 2 (cyz +. czy); set 3 3 (czz -. cxx -. cyy);
  let v = Array.make_matrix 4 4 0.0 in
  for i = 0 to 3 do v.(i).(i) <- 1.0 done;
  for _sweep = 1 to 60 do
    for p = 0 to 2 do for q = p + 1 to 3 do
      if Float.abs s.(p).(q) > 1e-300 then begin
        let theta = (s.(q).(q) -. s.(p).(p)) /. (2.0 *. s.(p).(q)) in
        let t = (if theta >= 0.0 then 1.0 else -1.0) /. (Float.abs theta +. sqrt (theta *. theta +. 1.0)) in
        let cs = 1.0 /. sqrt (t *. t +. 1.0) in let sn = t *. cs in
        for k = 0 to 3 do
          let skp = s.(k).(p) and skq = s.(k).(q) in
          s.(k).(p) <- cs *. skp -. sn *. skq; s.(k).(q) <- sn *. skp +. cs *. skq
        done;
        for k = 0 to 3 do
          let spk = s.(p).(k) and sqk = s.(q).(k) in
          s.(p).(k) <- cs *. spk -. sn *. sqk; s.(q).(k) <- sn *. spk +. cs *. sqk
        done;
        for k = 0 to 3 do
          let vkp = v.(k).(p) and vkq = v.(k).(q) in
          v.(k).(p) <- cs *. vkp -. sn *. vkq; v.(k).(q) <- sn *. vkp +. cs *. vkq
        done
      end
    done done
  done;
  let best = ref 0 in
  for i = 1 to 3 do if s.(i).(i) > s.(!best).(!best) then best := i done;
  let b = !best in
  (((v.(0).(b), v.(1).(b)), v.(2).(b)), v.(3).(b))

let rec nat_of_int n = if n <= 0 then O else S (nat_of_int (n - 1))
let () =
  try
    while true do
      let line = input_line stdin in
      let w = Array.of_list (words line) in
      if Array.length w > 0 then begin
        let p = ref 0 in
        let next () = let s = w.(!p) in Stdlib.incr p; s in
        let nf () = fl (next ()) in
        let ni () = int_of_string (next ()) in
        let nb () = ni () <> 0 in
        let v3 () = let a = nf () in let b = nf () in let c = nf () in ((a, b), c) in
        let ids () = let n = ni () in List.init n (fun _ -> nat_of_int (ni ())) in
        let group () =
          match next () with
          | "D" -> GDummy (v3 ())
          | "A" ->
            let l = ids () in
            let c = if nb () then Some (v3 ()) else None in
            let f = if nb () then Some (ids ()) else None in
            let fg = nb () in
            GAtoms (l, c, f, fg)
          | s -> failwith ("group " ^ s) in
        let kind () =
          match next () with
          | "distance" -> let pbc = nb () in KDistance pbc
          | "distanceZ" -> let pbc = nb () in let a = v3 () in KDistanceZ (pbc, a)
          | "distanceZ2" -> let pbc = nb () in KDistanceZ2 pbc
          | "distanceXY" -> let pbc = nb () in let a = v3 () in KDistanceXY (pbc, a)
          | "distanceXY2" -> let pbc = nb () in KDistanceXY2 pbc
          | "distanceInv" -> let pbc = nb () in let e = ni () in KDistanceInv (pbc, nat_of_int e)
          | "gyration" -> KGyration
          | "inertia" -> KInertia
          | "inertiaZ" -> let a = v3 () in KInertiaZ a
          | "angle" -> let pbc = nb () in KAngle pbc
          | "coordNum" -> let r0 = nf () in let en = ni () in let ed = ni () in let g2c = nb () in
            KCoordNum (r0, nat_of_int en, nat_of_int ed, g2c)
          | "selfCoordNum" -> let r0 = nf () in let en = ni () in let ed = ni () in
            KSelfCoordNum (r0, nat_of_int en, nat_of_int ed)
          | "dihedral" -> let pbc = nb () in KDihedral pbc
          | "dipoleMagnitude" -> KDipoleMagnitude
          | "dipoleAngle" -> let pbc = nb () in KDipoleAngle pbc
          | "polarTheta" -> KPolarTheta
          | "polarPhi" -> KPolarPhi
          | "rmsd" -> let n = ni () in let rf = List.init n (fun _ -> v3 ()) in KRmsd (rf, qopt_float)
          | s -> failwith ("kind " ^ s) in
        (* a component as colvar::init sees it: coefficient, exponent, kind, groups, period (0 = not periodic) *)
        let cvc () =
          let c = nf () in let e = ni () in let k = kind () in
          let ng = ni () in let gs = List.init ng (fun _ -> group ()) in
          let pd = nf () in
          { sc_cvc = { c_coeff = c; c_exp = z_of_int e; c_kind = k; c_groups = gs }; sc_period = pd; sc_active = true } in
        (* a variable as written in the configuration: width and components; the flags linear / homogeneous / periodic
           and the period are computed by the model's init_var *)
        let var () =
          let wd = nf () in let n = ni () in let cs = List.init n (fun _ -> cvc ()) in
          (wd, cs) in
        (* run-time events: M v i hascoeff coeff hasexp exp (modifycvcs) | F v n flags... (cvcflags) *)
        let event () =
          match next () with
          | "M" -> let v = ni () in let i = ni () in
            let hc = nb () in let c = nf () in let he = nb () in let e = ni () in
            EvModify (nat_of_int v, nat_of_int i, (if hc then Some c else None), (if he then Some (z_of_int e) else None))
          | "F" -> let v = ni () in let n = ni () in let fl = List.init n (fun _ -> nb ()) in EvFlags (nat_of_int v, fl)
          | s -> failwith ("event " ^ s) in
        let bias () =
          match next () with
          | "harmonic" -> let k = nf () in let n = ni () in
            BHarmonic (k, List.init n (fun _ -> let i = ni () in let c = nf () in (nat_of_int i, c)))
          | "walls" -> let k = nf () in let lk = nf () in let uk = nf () in let hl = nb () in let hu = nb () in
            let n = ni () in
            BWalls (k, lk, uk, hl, hu, List.init n (fun _ -> let i = ni () in let lo = nf () in let up = nf () in (nat_of_int i, (lo, up))))
          | "linear" -> let k = nf () in let n = ni () in
            BLinear (k, List.init n (fun _ -> let i = ni () in let c = nf () in (nat_of_int i, c)))
          | "meta" -> let nh = ni () in
            BMeta (List.init nh (fun _ -> let wgt = nf () in let n = ni () in
              (wgt, List.init n (fun _ -> let i = ni () in let c = nf () in let sg = nf () in (nat_of_int i, (c, sg))))))
          | "abmd" -> let k = nf () in let dec = nb () in let i = ni () in let rf = nf () in BAbmd (k, dec, nat_of_int i, rf)
          | "hist" -> let k = nf () in let nrm = nf () in let sg = nf () in let ng = ni () in
            let grid = List.init ng (fun _ -> let xg = nf () in let rg = nf () in (xg, rg)) in
            let nv = ni () in let vs = List.init nv (fun _ -> nat_of_int (ni ())) in
            BHist (k, nrm, sg, grid, vs)
          | s -> failwith ("bias " ^ s) in
        (try
          let na = ni () in
          let s = List.init na (fun _ -> let m = nf () in let q = nf () in let x = v3 () in
                                 { a_mass = m; a_charge = q; a_pos = x }) in
          let cell = if nb () then Some (v3 ()) else None in
          let nv = ni () in let vars = List.init nv (fun _ -> var ()) in
          let nbs = ni () in let bs = List.init nbs (fun _ -> bias ()) in
          let nev = if !p < Array.length w then ni () else 0 in
          let h = List.init nev (fun _ -> event ()) in
          (* the state reached from init by the history; energy, values and forces are those of that state *)
          let cf = effective cell (state_after fops vars h) bs in
          let e = h_energy fops pi cell vars bs h s in
          let vs = h_values fops pi cell vars bs h s in
          let fs = h_forces fops pi cell vars bs h s in
          (* S = the largest single contribution entering any atomic force (conditioning of the sums) *)
          let sc = List.fold_left (fun m (_, ((a, b), c)) -> Float.max m (Float.max (Float.abs a) (Float.max (Float.abs b) (Float.abs c))))
                     0.0 (all_contribs fops pi cf s) in
          (* A = colvar::f of every variable (the sum of the biases' forces on it: what outputAppliedForce prints) *)
          let afs = List.mapi (fun i _ -> var_force fops pi cf s (nat_of_int i)) cf.cf_vars in
          Printf.printf "E %s S %s A %s V %s F %s\n" (hex e) (hex sc) (String.concat " " (List.map hex afs)) (String.concat " " (List.map hex vs))
            (String.concat " " (List.map (fun ((a, b), c) -> Printf.sprintf "%s %s %s" (hex a) (hex b) (hex c)) fs))
        with Failure m -> Printf.printf "ERR %s\n" m | Invalid_argument m -> Printf.printf "ERR %s\n" m)
      end
    done
  with End_of_file -> ()
