(* C01 model driver: one case per line (see props/C01/check.py: model_line), prints
   "E <energy> V <values...> F <fx fy fz per atom...>" in hex floats *)
open Model
open X_fops
let pi = 3.14159265358979323846
let rec nat_of_int n = if n <= 0 then O else S (nat_of_int (n - 1))
let () =
  try
    while true do
      let line = input_line stdin in
      let w = Array.of_list (words line) in
      if Array.length w > 0 then begin
        let p = ref 0 in
        let next () = let s = w.(!p) in Stdlib.incr p; s in
        let nf () = fl (next ()) in
        let ni () = int_of_string (next ()) in
        let nb () = ni () <> 0 in
        let v3 () = let a = nf () in let b = nf () in let c = nf () in ((a, b), c) in
        let ids () = let n = ni () in List.init n (fun _ -> nat_of_int (ni ())) in
        let group () =
          match next () with
          | "D" -> GDummy (v3 ())
          | "A" ->
            let l = ids () in
            let c = if nb () then Some (v3 ()) else None in
            let f = if nb () then Some (ids ()) else None in
            let fg = nb () in
            GAtoms (l, c, f, fg)
          | s -> failwith ("group " ^ s) in
        let kind () =
          match next () with
          | "distance" -> let pbc = nb () in KDistance pbc
          | "distanceZ" -> let pbc = nb () in let a = v3 () in KDistanceZ (pbc, a)
          | "distanceZ2" -> let pbc = nb () in KDistanceZ2 pbc
          | "distanceXY" -> let pbc = nb () in let a = v3 () in KDistanceXY (pbc, a)
          | "distanceXY2" -> let pbc = nb () in KDistanceXY2 pbc
          | "distanceInv" -> let pbc = nb () in let e = ni () in KDistanceInv (pbc, nat_of_int e)
          | "gyration" -> KGyration
          | "inertia" -> KInertia
          | "inertiaZ" -> let a = v3 () in KInertiaZ a
          | "angle" -> let pbc = nb () in KAngle pbc
          | "coordNum" -> let r0 = nf () in let en = ni () in let ed = ni () in let g2c = nb () in
            KCoordNum (r0, nat_of_int en, nat_of_int ed, g2c)
          | "selfCoordNum" -> let r0 = nf () in let en = ni () in let ed = ni () in
            KSelfCoordNum (r0, nat_of_int en, nat_of_int ed)
          | "dihedral" -> let pbc = nb () in KDihedral pbc
          | "dipoleMagnitude" -> KDipoleMagnitude
          | "dipoleAngle" -> let pbc = nb () in KDipoleAngle pbc
          | "polarTheta" -> KPolarTheta
          | "polarPhi" -> KPolarPhi
          | s -> failwith ("kind " ^ s) in
        let cvc () =
          let c = nf () in let e = ni () in let k = kind () in
          let ng = ni () in let gs = List.init ng (fun _ -> group ()) in
          { c_coeff = c; c_exp = z_of_int e; c_kind = k; c_groups = gs } in
        let var () =
          let wd = nf () in let per = nb () in let pd = nf () in let n = ni () in let cs = List.init n (fun _ -> cvc ()) in
          { cv_width = wd; cv_periodic = per; cv_period = pd; cv_cvcs = cs } in
        let bias () =
          match next () with
          | "harmonic" -> let k = nf () in let n = ni () in
            BHarmonic (k, List.init n (fun _ -> let i = ni () in let c = nf () in (nat_of_int i, c)))
          | "walls" -> let k = nf () in let lk = nf () in let uk = nf () in let hl = nb () in let hu = nb () in
            let n = ni () in
            BWalls (k, lk, uk, hl, hu, List.init n (fun _ -> let i = ni () in let lo = nf () in let up = nf () in (nat_of_int i, (lo, up))))
          | "linear" -> let k = nf () in let n = ni () in
            BLinear (k, List.init n (fun _ -> let i = ni () in let c = nf () in (nat_of_int i, c)))
          | "meta" -> let nh = ni () in
            BMeta (List.init nh (fun _ -> let wgt = nf () in let n = ni () in
              (wgt, List.init n (fun _ -> let i = ni () in let c = nf () in let sg = nf () in (nat_of_int i, (c, sg))))))
          | "abmd" -> let k = nf () in let dec = nb () in let i = ni () in let rf = nf () in BAbmd (k, dec, nat_of_int i, rf)
          | s -> failwith ("bias " ^ s) in
        (try
          let na = ni () in
          let s = List.init na (fun _ -> let m = nf () in let q = nf () in let x = v3 () in
                                 { a_mass = m; a_charge = q; a_pos = x }) in
          let cell = if nb () then Some (v3 ()) else None in
          let nv = ni () in let vars = List.init nv (fun _ -> var ()) in
          let nbs = ni () in let bs = List.init nbs (fun _ -> bias ()) in
          let cf = { cf_cell = cell; cf_vars = vars; cf_biases = bs } in
          let e = energy fops pi cf s in
          let vs = var_values fops pi cf s in
          let fs = forces fops pi cf s in
          (* S = the largest single contribution entering any atomic force (conditioning of the sums) *)
          let sc = List.fold_left (fun m (_, ((a, b), c)) -> Float.max m (Float.max (Float.abs a) (Float.max (Float.abs b) (Float.abs c))))
                     0.0 (all_contribs fops pi cf s) in
          Printf.printf "E %s S %s V %s F %s\n" (hex e) (hex sc) (String.concat " " (List.map hex vs))
            (String.concat " " (List.map (fun ((a, b), c) -> Printf.sprintf "%s %s %s" (hex a) (hex b) (hex c)) fs))
        with Failure m -> Printf.printf "ERR %s\n" m | Invalid_argument m -> Printf.printf "ERR %s\n" m)
      end
    done
  with End_of_file -> ()
