// vsim for C01: the shared engine simulator plus one command for script calls whose arguments contain double quotes
// and blanks (modifycvcs takes ONE argument holding double-quoted strings, one per component):
//   scriptu cv|colvar|v0|modifycvcs|"componentExp 2" "" "componentCoeff 0.5"
// words are separated by '|'; prints "SCRIPT err=ok|error result=..." like the shared `script` command.
#include "../../harness/vsim.h"
struct c01_session : public vsim_session {
  c01_session(std::ostream *o) : vsim_session(o) {}
  bool exec_extra(std::string const &cmd, std::vector<std::string> const &a, std::istream &) override
  {
    if (cmd != "scriptu") return false;
    std::string line;
    for (size_t i = 0; i < a.size(); i++) { if (i) line += " "; line += a[i]; }
    std::vector<std::string> words(1);
    for (size_t p = 0; p < line.size(); p++) {
      if (line[p] == '|') words.push_back(std::string()); else words.back() += line[p];
    }
    std::vector<unsigned char *> argv;
    for (auto &s : words) argv.push_back((unsigned char *) s.c_str());
    cvm::clear_error();
    int err = run_colvarscript_command(argv.size(), argv.data());
    std::string res = get_colvarscript_result();
    std::replace(res.begin(), res.end(), '\n', ' ');
    *out << "SCRIPT err=" << ((err == COLVARS_OK && !cvm::get_error()) ? "ok" : "error") << " result=" << res << "\n";
    cvm::clear_error();
    return true;
  }
};
int main(int argc, char **argv)
{
  c01_session s(&std::cout);
  if (argc > 1 && std::string(argv[1]) != "-") {
    std::ifstream f(argv[1]);
    if (!f) { std::cerr << "cannot open " << argv[1] << "\n"; return 2; }
    s.run(f);
  } else {
    s.run(std::cin);
  }
  std::cout.flush();
  return 0;
}
