# C01: the atomic forces handed to the engine are minus the gradient of the energy reported to the engine.
#
# tie    : generated systems (atoms, groups, components, polynomial variables, restraints) are run through the
#          engine simulator (vsim, rebuilt from the tree) and through the extracted Coq model at floats;
#          energy, variable values and every atomic force are compared.
# oracle : Richardson central finite differences of the IMPLEMENTATION's energy against the IMPLEMENTATION's
#          forces, for every atom the configuration touches and every axis; this produces the failing input.
#          The same oracle sweeps configurations that the model does not cover (thorough tier: rotated frames,
#          rmsd, orientation*, tilt, spinAngle, euler angles, vector variables, periodic cell, history biases).
import os, sys, json, math, copy
from concurrent.futures import ThreadPoolExecutor
import vcommon as V

PROP = "coq/C01/Properties_C01.v"
EXTRACT = "coq/C01/Extract_C01.v"
DRIVER = "props/C01/driver.ml"
PROGS = {"vsim_c01": ["props/C01/vsim_c01.cpp"]}
TOL_TIE = 1e-9
TOL_FD = 2e-6
H1 = 2.0 ** -11
H2 = 2.0 ** -12
JOBS = min(4, V.NPROC)


def hx(x):
    return V.hexf(x)


def close(a, b, tol, scale=1.0):
    if math.isnan(a) or math.isnan(b):
        return False
    return abs(a - b) <= tol * max(scale, abs(a), abs(b))


# ------------------------------------------------------------------------------------------------
# component table: name -> (config keyword, group keywords, modelled?)
# ------------------------------------------------------------------------------------------------
KINDS = {
    "distance": ("distance", ["group1", "group2"]),
    "distanceVec": ("distanceVec", ["group1", "group2"]),
    "distancePairs": ("distancePairs", ["group1", "group2"]),   # modelled as one `distance` variable per (atom of group1, atom of group2)      # modelled as three distanceZ variables (axes x, y, z)
    "distanceZ": ("distanceZ", ["main", "ref"]),
    "distanceZ2": ("distanceZ", ["main", "ref", "ref2"]),
    "distanceXY": ("distanceXY", ["main", "ref"]),
    "distanceXY2": ("distanceXY", ["main", "ref", "ref2"]),
    "distanceInv": ("distanceInv", ["group1", "group2"]),
    "gyration": ("gyration", ["atoms"]),
    "inertia": ("inertia", ["atoms"]),
    "inertiaZ": ("inertiaZ", ["atoms"]),
    "angle": ("angle", ["group1", "group2", "group3"]),
    "coordNum": ("coordNum", ["group1", "group2"]),
    "selfCoordNum": ("selfCoordNum", ["group1"]),
    "dihedral": ("dihedral", ["group1", "group2", "group3", "group4"]),
    "dipoleMagnitude": ("dipoleMagnitude", ["atoms"]),
    "dipoleAngle": ("dipoleAngle", ["group1", "group2", "group3"]),
    "polarTheta": ("polarTheta", ["atoms"]),
    "polarPhi": ("polarPhi", ["atoms"]),
    "rmsd": ("rmsd", ["atoms"]),
}
COM_BASED = {"distance", "distanceVec", "distanceZ", "distanceZ2", "distanceXY", "distanceXY2", "angle", "dihedral", "polarTheta", "polarPhi"}
ATOM_BASED = {"rmsd", "distanceInv", "gyration", "inertia", "inertiaZ", "coordNum", "selfCoordNum", "dipoleMagnitude", "dipoleAngle"}
POSITIVE = {"distance", "distanceXY", "distanceXY2", "distanceInv", "gyration", "inertia", "angle"}
T1 = ["distance", "distanceZ", "distanceZ2", "distanceXY", "distanceXY2", "distanceInv", "gyration", "inertia", "inertiaZ",
      "angle", "coordNum", "selfCoordNum"]
T2 = ["dihedral", "dipoleMagnitude", "dipoleAngle", "polarTheta", "polarPhi", "rmsd"]


def v3(t):
    return "(%r, %r, %r)" % (t[0], t[1], t[2])


# ------------------------------------------------------------------------------------------------
# rendering: Colvars configuration text, vsim scenario, model line
# ------------------------------------------------------------------------------------------------
def group_conf(key, g, ind):
    p = " " * ind
    L = [p + key + " {"]
    if "dummy" in g:
        L.append(p + "  dummyAtom " + v3(g["dummy"]))
    else:
        L.append(p + "  atomNumbers " + " ".join(str(i + 1) for i in g["ids"]))
        c = g.get("center")
        if c is not None and not c.get("implicit"):
            if c.get("origin"):
                L.append(p + "  centerToOrigin on")
            else:
                L.append(p + "  centerToReference on")
            if c.get("rotate"):
                L.append(p + "  rotateToReference on")
            L.append(p + "  refPositions " + " ".join(v3(x) for x in c["ref"]))
            if g.get("fit") is not None:
                L.append(p + "  fittingGroup {")
                L.append(p + "    atomNumbers " + " ".join(str(i + 1) for i in g["fit"]))
                L.append(p + "  }")
            if not g.get("fitgrad", True):
                L.append(p + "  enableFitGradients off")
    L.append(p + "}")
    return L


def cvc_conf(c):
    kw, gkeys = KINDS[c["kind"]]
    L = ["  %s {" % kw]
    if c.get("coeff", 1.0) != 1.0:
        L.append("    componentCoeff %r" % c["coeff"])
    if c.get("exp", 1) != 1:
        L.append("    componentExp %d" % c["exp"])
    pr = c.get("params", {})
    if "pbc" in pr and not pr["pbc"]:
        L.append("    forceNoPBC on")
    if "axis" in pr:
        L.append("    axis " + v3(pr["axis"]))
    if c["kind"] == "distanceInv":
        L.append("    exponent %d" % (2 * pr["e"]))
    if c["kind"] in ("coordNum", "selfCoordNum"):
        L.append("    cutoff %r" % pr["r0"])
        L.append("    expNumer %d" % (2 * pr["en2"]))
        L.append("    expDenom %d" % (2 * pr["ed2"]))
        if pr.get("g2c"):
            L.append("    group2CenterOnly on")
    if c["kind"] == "rmsd":
        L.append("    refPositions " + " ".join(v3(x) for x in pr["ref"]))
    for extra in c.get("extra", []):
        L.append("    " + extra)
    for key, g in zip(gkeys, c["groups"]):
        L += group_conf(key, g, 4)
    L.append("  }")
    return L


def files_dir():
    d = os.path.join(V.BUILD, "scratch", "C01-files")
    os.makedirs(d, exist_ok=True)
    return d


def write_files(case):
    """reference files named by a raw configuration (path files, XYZ reference frames): @FILES@/<name> in the text"""
    for name, content in (case.get("files") or {}).items():
        pth = os.path.join(files_dir(), name)
        if not os.path.exists(pth) or open(pth).read() != content:
            with open(pth + ".tmp%d" % os.getpid(), "w") as f:
                f.write(content)
            os.replace(pth + ".tmp%d" % os.getpid(), pth)


def live_biases(case):
    """the bias parameters in force at the measured steps: those of the configuration the state was loaded into"""
    rs = case.get("restart")
    if not (rs and "biases" in rs):
        return case.get("biases", [])
    # (ABMD writes forceConstant, stoppingValue and decreasing into its state and reads them back: the loaded values
    # override the new configuration)
    return [a if a["type"] == "abmd" else b for a, b in zip(case["biases"], rs["biases"])]


def restart_config_text(case):
    """the configuration of the fresh instance that loads the saved state: same variables, CHANGED legal bias options"""
    rs = case["restart"]
    if "raw_config" in rs:
        return rs["raw_config"].replace("@FILES@", files_dir())
    c2 = dict(case)
    c2["biases"] = rs["biases"]
    c2.pop("restart", None)
    return config_text(c2)


_state_counter = [0]
_state_lock = __import__("threading").Lock()


def state_prefix():
    with _state_lock:
        _state_counter[0] += 1
        return os.path.join(files_dir(), "state_%d_%d" % (os.getpid(), _state_counter[0]))


def config_text(case):
    if "raw_config" in case:
        return case["raw_config"].replace("@FILES@", files_dir())
    L = []
    for i, v in enumerate(case["vars"]):
        L += ["colvar {", "  name v%d" % i, "  width %r" % v["width"]]
        for c in v["cvcs"]:
            L += cvc_conf(c)
        L.append("}")
    for j, b in enumerate(case["biases"]):
        if b["type"] == "meta":
            L += ["metadynamics {", "  name b%d" % j, "  colvars " + " ".join("v%d" % t[0] for t in b["terms"]),
                  "  hillWeight %r" % b["W"], "  gaussianSigmas " + " ".join("%r" % t[1] for t in b["terms"]),
                  "  newHillFrequency 1000", "  useGrids off", "}"]
            continue
        if b["type"] == "hist":
            L += ["histogramRestraint {", "  name b%d" % j, "  colvars " + " ".join("v%d" % t[0] for t in b["terms"]),
                  "  lowerBoundary %r" % b["lo"], "  upperBoundary %r" % (b["lo"] + b["w"] * len(b["ref"])), "  width %r" % b["w"],
                  "  gaussianSigma %r" % b["sigma"], "  refHistogram " + " ".join("%r" % x for x in b["ref"]),
                  "  forceConstant %r" % b["k"], "}"]
            continue
        if b["type"] == "abmd":
            L += ["abmd {", "  name b%d" % j, "  colvars v%d" % b["terms"][0][0], "  forceConstant %r" % b["k"],
                  "  stoppingValue %r" % b["stop"], "  decreasing %s" % ("on" if b["dec"] else "off"), "}"]
            continue
        kw = {"harmonic": "harmonic", "walls": "harmonicWalls", "linear": "linear"}[b["type"]]
        L += [kw + " {", "  name b%d" % j, "  colvars " + " ".join("v%d" % t[0] for t in b["terms"])]
        if b["type"] in ("harmonic", "linear"):
            L.append("  centers " + " ".join(("%r" % t[1]) if not isinstance(t[1], (tuple, list)) else "(" + ", ".join("%r" % x for x in t[1]) + ")" for t in b["terms"]))
            L.append("  forceConstant %r" % b["k"])
        else:
            if b["hl"]:
                L.append("  lowerWalls " + " ".join("%r" % t[1] for t in b["terms"]))
                L.append("  lowerWallConstant %r" % b["lwk"])
            if b["hu"]:
                L.append("  upperWalls " + " ".join("%r" % t[2] for t in b["terms"]))
                L.append("  upperWallConstant %r" % b["uwk"])
        mv_ = b.get("moving")
        if mv_:
            # moving restraint (continuous update): centres and/or force constant are functions of the step number
            L.append("  targetNumSteps %d" % mv_["N"])
            if mv_.get("stages"):
                L.append("  targetNumStages %d" % mv_["stages"])
            if mv_.get("tc") is not None:
                L.append("  targetCenters " + " ".join(("%r" % c) if not isinstance(c, (tuple, list)) else "(" + ", ".join("%r" % x for x in c) + ")" for c in mv_["tc"]))
            if mv_.get("tk") is not None:
                L.append("  targetForceConstant %r" % mv_["tk"])
                if mv_.get("kexp", 1.0) != 1.0:
                    L.append("  lambdaExponent %r" % mv_["kexp"])
        L.append("}")
    return "\n".join(L)


def cxx_order(v):
    """colvar::init_components walks global_cvc_map (a std::map keyed by the configuration keyword): position of every
    configured component in colvar::cvcs = stable sort of the configuration order by keyword (byte order)"""
    idx = sorted(range(len(v["cvcs"])), key=lambda j: KINDS[v["cvcs"][j]["kind"]][0])
    pos = [0] * len(idx)
    for p_, j in enumerate(idx):
        pos[j] = p_
    return pos


def event_lines(case):
    """script calls for the history of run-time modifications (modelled events and raw script lines)"""
    L = []
    for e in case.get("events", []):
        if e["type"] in ("biasoff", "biason"):
            L.append("scriptu cv|bias|b%d|set|apply_force|%d" % (e["bias"], 1 if e["type"] == "biason" else 0))
            continue
        if e["type"] == "delbias":
            L.append("scriptu cv|bias|b%d|delete" % e["bias"])
            continue
        v = case["vars"][e["var"]]
        pos = cxx_order(v)
        if e["type"] == "mod":
            # one keyword per call (a configuration string holds one keyword per line; the scenario is line-based)
            words = []
            if e.get("coeff") is not None:
                words.append("componentCoeff %r" % e["coeff"])
            if e.get("exp") is not None:
                words.append("componentExp %d" % e["exp"])
            for wd in words:
                confs = [""] * len(v["cvcs"])
                confs[pos[e["comp"]]] = wd
                L.append("scriptu cv|colvar|v%d|modifycvcs|%s" % (e["var"], " ".join('"%s"' % c for c in confs)))
        else:
            fl = [0] * len(v["cvcs"])
            for j, f in enumerate(e["flags"]):
                fl[pos[j]] = 1 if f else 0
            L.append("scriptu cv|colvar|v%d|cvcflags|%s" % (e["var"], " ".join(str(f) for f in fl)))
    return L + list(case.get("script", []))


def bias_active(case):
    """which biases contribute energy and forces at the measured steps: not deleted, apply_force on"""
    act = [True] * len(case.get("biases", []))
    for e in case.get("events", []):
        if e["type"] in ("biasoff", "delbias"):
            act[e["bias"]] = False
        elif e["type"] == "biason":
            act[e["bias"]] = True
    return act


def n_event_steps(case):
    """steps run before the base step because of the history: one warm-up step (the components are in use when they are
    modified) and one step after every script call"""
    n = len(event_lines(case))
    return (n + 1 if (n or case.get("fd_setstep") is not None) else 0) + len(case.get("stage_visits", []))


def npre_steps(case):
    # (restart: one step at the base positions is run before the state is saved, so that the state holds the values of the
    # variables at the positions the fresh instance starts from -- a state whose values differ from the recomputed ones by
    # more than the variable's width is refused)
    return len(case.get("presteps", [])) + n_event_steps(case) + (1 if case.get("restart") else 0)


def pre_values(case, res, with_warmup):
    """variable values printed at the history steps (metadynamics: the hill sits where the last pre-step was; ABMD: the
    reference also follows the warm-up step of a restart)"""
    a = n_event_steps(case)
    b = a + len(case.get("presteps", [])) + (1 if with_warmup and case.get("restart") else 0)
    return [st["cv"] for st in res["steps"][a:b]]


def fd_coords(case):
    """(atom, axis) pairs to differentiate: every atom the configuration names"""
    return [(a, k) for a in case["touched"] for k in range(3)]


def scenario(case, tag, with_fd=True):
    """vsim commands for one case: base step + finite-difference steps"""
    write_files(case)
    at = case["atoms"]
    L = ["echo CASE %s" % tag, "natoms %d" % len(at)]
    for i, (m, q, p) in enumerate(at):
        L.append("mass %d %s" % (i + 1, hx(m)))
        if q != 0.0:
            L.append("charge %d %s" % (i + 1, hx(q)))
        L.append("pos %d %s %s %s" % (i + 1, hx(p[0]), hx(p[1]), hx(p[2])))
    if case.get("cell"):
        L.append("cell %s %s %s" % tuple(hx(x) for x in case["cell"]))
    else:
        L.append("nocell")
    if case.get("temperature"):
        L.append("temperature %r" % case["temperature"])
    L.append("restartfreq %d" % case.get("restartfreq", 0))
    L.append("fresh")
    if case.get("init_step") is not None:
        L.append("setstep %d" % case["init_step"])      # the job starts at a large absolute step number (first_step of the biases)
    L += ["config EOF", config_text(case), "EOF"]
    if case.get("setstep") is not None:
        L.append("setstep %d" % case["setstep"])
    ev = event_lines(case)
    if ev or case.get("fd_setstep") is not None:
        # (with fd_setstep: the first step of a session does not advance the step counter, every later one does; after this
        # warm-up step every measured step runs at step number fd_setstep + 1)
        L += ["show cv 0 bias 0 atomf 0", "step"]
        for ln in ev:
            L += [ln, "step"]
        for X in case.get("stage_visits", []):
            L += ["setstep %d" % (X - 1), "step"]
    for pre in case.get("presteps", []):      # history biases: steps at other positions first
        L.append("show cv 1 bias 0 atomf 0")
        for i, p in pre:
            L.append("pos %d %s %s %s" % (i + 1, hx(p[0]), hx(p[1]), hx(p[2])))
        L.append("step")
        for i, (m, q, p) in enumerate(at):
            L.append("pos %d %s %s %s" % (i + 1, hx(p[0]), hx(p[1]), hx(p[2])))
    if case.get("restart"):
        # the state (hills with their own widths and weights, the ABMD reference, ...) is saved, a fresh instance is
        # configured with changed options, and the state is loaded into it: the measured steps run there
        pfx = state_prefix()
        L += ["show cv 1 bias 0 atomf 0", "step"]
        fmt = case["restart"].get("fmt", "text")
        how = {"text": "load %s" % pfx, "binary": "load %s" % pfx, "textstr": "loadstr %s.colvars.state" % pfx,
               "binarybuf": "loadbuf %s.colvars.state" % pfx}[fmt]
        L += ["save %s %s.colvars.state" % ("binary" if fmt.startswith("binary") else "text", pfx), "fresh", "config EOF", restart_config_text(case), "EOF", how]
    # moving restraints: every measured step is run at the same step number, where centres / force constant are frozen
    fs = ["setstep %d" % case["fd_setstep"]] if case.get("fd_setstep") is not None else []
    L += ["show cv 1 bias 1 atomf 1 af 1"] + fs + ["step", "show cv 1 bias 0 atomf 0 af 0"]
    if with_fd:
        for (a, k) in fd_coords(case):
            p = list(at[a][2])
            for h in (H1, -H1, H2, -H2):
                q = list(p); q[k] = p[k] + h
                L.append("pos %d %s %s %s" % (a + 1, hx(q[0]), hx(q[1]), hx(q[2])))
                L += fs
                L.append("step")
            L.append("pos %d %s %s %s" % (a + 1, hx(p[0]), hx(p[1]), hx(p[2])))
        if case.get("presteps"):
            L.append("step")      # history biases: the base configuration once more, to detect a change of the bias state
    L.append("echo END %s" % tag)
    return L


def group_tokens(g):
    if "dummy" in g:
        return ["D"] + [hx(x) for x in g["dummy"]]
    t = ["A", str(len(g["ids"]))] + [str(i) for i in g["ids"]]
    c = g.get("center")
    if c is None:
        t.append("0")
    else:
        t += ["1"] + [hx(x) for x in c["refcog"]]
    if g.get("fit") is None:
        t.append("0")
    else:
        t += ["1", str(len(g["fit"]))] + [str(i) for i in g["fit"]]
    t.append("1" if (c is not None and g.get("fitgrad", True)) else "0")
    return t


def abmd_ref(b, pre_values):
    """colvarbias_abmd::update replayed on the pre-step values of its variable: the reference before the base step"""
    ref = None
    sign = -1.0 if b["dec"] else 1.0
    for x in pre_values:
        if ref is None:
            ref = x
        diff = (x - ref) * sign
        if diff > 0.0 and (ref - b["stop"]) * sign <= 0.0:
            ref = x
    return ref


def model_line(case, res=None):
    at = case["atoms"]
    t = [str(len(at))]
    for (m, q, p) in at:
        t += [hx(m), hx(q), hx(p[0]), hx(p[1]), hx(p[2])]
    if case.get("cell"):
        t += ["1"] + [hx(x) for x in case["cell"]]
    else:
        t.append("0")
    # a distanceVec variable is presented to the model as three scalar variables: distanceZ along x, y, z with
    # main = group2 and ref = group1 (the same centres of mass, the same minimum-image difference)
    mvars, vmap = [], []
    for v in case["vars"]:
        if v.get("vec") == "pairs":
            # distancePairs: element i1*n2 + i2 is the (minimum-image) distance between atom i1 of group1 and atom i2 of
            # group2, and apply_force pushes exactly those two atoms: one `distance` variable on two one-atom groups each
            c = v["cvcs"][0]
            idx = []
            for a1 in c["groups"][0]["ids"]:
                for a2 in c["groups"][1]["ids"]:
                    def one(g, a):
                        # one atom of a group that may be centred: the shift and the fit term are those of the whole group
                        if g.get("center") is None:
                            return {"ids": [a]}
                        return {"ids": [a], "center": g["center"], "fit": g["fit"] if g.get("fit") is not None else list(g["ids"]),
                                "fitgrad": g.get("fitgrad", True)}
                    c2 = {"kind": "distance", "coeff": c.get("coeff", 1.0), "exp": 1, "params": {"pbc": c["params"]["pbc"]},
                          "groups": [one(c["groups"][0], a1), one(c["groups"][1], a2)]}
                    idx.append(len(mvars))
                    mvars.append({"width": v["width"], "cvcs": [c2]})
            vmap.append(idx)
        elif v.get("vec"):
            c = v["cvcs"][0]
            idx = []
            for kk, ax in enumerate(((1.0, 0.0, 0.0), (0.0, 1.0, 0.0), (0.0, 0.0, 1.0))):
                c2 = {"kind": "distanceZ", "coeff": c.get("coeff", 1.0), "exp": 1, "params": {"pbc": c["params"]["pbc"], "axis": ax},
                      "groups": [c["groups"][1], c["groups"][0]]}
                idx.append(len(mvars))
                mv = {"width": v["width"], "cvcs": [c2]}
                if case.get("cell") and c["params"]["pbc"]:
                    # distance_vec::dist2 takes the minimum image of (value - centre): each projection is a periodic
                    # scalar whose period is the cell edge
                    mv["period"] = case["cell"][kk]
                mvars.append(mv)
            vmap.append(idx)
        else:
            vmap.append([len(mvars)])
            mvars.append(v)
    t.append(str(len(mvars)))
    for v in mvars:
        # the model's init_var computes linear / homogeneous / periodic / period from the components as configured
        t += [hx(v["width"]), str(len(v["cvcs"]))]
        for c in v["cvcs"]:
            pr = c.get("params", {})
            t += [hx(c.get("coeff", 1.0)), str(c.get("exp", 1)), c["kind"]]
            k = c["kind"]
            if "pbc" in pr:
                t.append("1" if pr["pbc"] else "0")
            if "axis" in pr:
                t += [hx(x) for x in pr["axis"]]
            if k == "distanceInv":
                t.append(str(pr["e"]))
            if k == "coordNum":
                t += [hx(pr["r0"]), str(pr["en2"]), str(pr["ed2"]), "1" if pr.get("g2c") else "0"]
            if k == "selfCoordNum":
                t += [hx(pr["r0"]), str(pr["en2"]), str(pr["ed2"])]
            if k == "rmsd":
                t.append(str(len(pr["ref"])))
                for x in pr["ref"]:
                    t += [hx(x[0]), hx(x[1]), hx(x[2])]
            t.append(str(len(c["groups"])))
            for g in c["groups"]:
                t += group_tokens(g)
            t.append(hx(v["period"] if v.get("period") else PERIODIC.get(k, 0.0)))      # the component's own period
    act = bias_active(case)
    t.append(str(sum(1 for a_ in act if a_)))
    pre = []
    pre_all = []
    if res is not None:
        pre = pre_values(case, res, False)
        pre_all = pre_values(case, res, True)
    for jb, b in enumerate(case["biases"]):
        if not act[jb]:
            continue
        if b["type"] == "meta":
            # one hill, deposited at the last pre-step (step 1000): centre = the variable values printed there; the hill keeps
            # the weight and the widths it was deposited with (those of the configuration of the FIRST instance), also after
            # its state was loaded into an instance configured with other widths
            terms = []
            for (i, sg) in b["terms"]:
                c = pre[-1]["v%d" % i]
                terms += [(j, cj, sg) for j, cj in zip(vmap[i], c)]
            t += ["meta", "1", hx(b["W"]), str(len(terms))]
            for (j, cj, sg) in terms:
                t += [str(j), hx(cj), hx(sg)]
            continue
        b = live_biases(case)[jb]       # every other parameter is that of the instance the measured steps run in
        if b["type"] == "hist":
            vs = [j for (i, _) in b["terms"] for j in vmap[i]]
            # colvarbias_restraint_histogram: init normalises the reference; update uses norm = 1/(sqrt(2 pi) sigma n)
            ref = list(b["ref"])
            integral = sum(ref) * b["w"]
            if abs(integral - 1.0) > 1.0e-03:
                ref = [x / integral for x in ref]
            norm = 1.0 / (math.sqrt(2.0 * math.pi) * b["sigma"] * len(vs))
            t += ["hist", hx(b["k"]), hx(norm), hx(b["sigma"]), str(len(ref))]
            for ig, rg in enumerate(ref):
                t += [hx(b["lo"] + (ig + 0.5) * b["w"]), hx(rg)]
            t += [str(len(vs))] + [str(j) for j in vs]
            continue
        if b["type"] == "abmd":
            i = b["terms"][0][0]
            ref = abmd_ref(b, [p["v%d" % i][0] for p in pre_all])
            t += ["abmd", hx(b["k"]), "1" if b["dec"] else "0", str(vmap[i][0]), hx(ref)]
            continue
        lam = None
        keff = lambda k0: k0
        if b.get("moving"):
            # colvarbias_restraint_centers_moving / k_moving::update, continuous: lambda = (step - first_step) / targetNumSteps
            lam = float(case["fd_setstep"] + 1 - (case.get("init_step") or 0)) / float(b["moving"]["N"])
            if b["moving"].get("stages"):
                # staged: the k-th visited jump step sets lambda = (k - 1) / stages (the stage counter starts at 0)
                lam = float(b["moving"]["K"] - 1) / float(b["moving"]["stages"])
            if b["moving"].get("tk") is not None:
                keff = lambda k0: k0 + (b["moving"]["tk"] - k0) * lam ** b["moving"].get("kexp", 1.0)
        if b["type"] in ("harmonic", "linear"):
            terms = []
            for ti, (i, c) in enumerate(b["terms"]):
                if lam is not None and b["moving"].get("tc") is not None:
                    c1 = b["moving"]["tc"][ti]
                    if isinstance(c, (tuple, list)):
                        c = tuple((1.0 - lam) * x0 + lam * x1 for x0, x1 in zip(c, c1))
                    else:
                        c = (1.0 - lam) * c + lam * c1
                if isinstance(c, (tuple, list)):
                    terms += [(j, cj) for j, cj in zip(vmap[i], c)]
                else:
                    terms.append((vmap[i][0], c))
            t += [b["type"], hx(keff(b["k"])), str(len(terms))]
            for (i, c) in terms:
                t += [str(i), hx(c)]
        else:
            # colvarbias_restraint_harmonic_walls::init: force_k and the two relative constants
            hl, hu = b["hl"], b["hu"]
            if hl and hu:
                k = math.sqrt(b["lwk"] * b["uwk"]); lk = b["lwk"] / k; uk = b["uwk"] / k
            elif hu:
                k = b["uwk"]; lk = 1.0; uk = 1.0
            else:
                k = b["lwk"]; lk = 1.0; uk = 1.0
            t += ["walls", hx(keff(k)), hx(lk), hx(uk), "1" if hl else "0", "1" if hu else "0", str(len(b["terms"]))]
            for (i, lo, up) in b["terms"]:
                t += [str(vmap[i][0]), hx(lo), hx(up)]
    # history of run-time modifications (component indices in configuration order, as in the model's lists)
    evs = [e for e in case.get("events", []) if e["type"] in ("mod", "flags")]
    t.append(str(len(evs)))
    for e in evs:
        if e["type"] == "mod":
            t += ["M", str(vmap[e["var"]][0]), str(e["comp"]), "1" if e.get("coeff") is not None else "0", hx(e.get("coeff") or 0.0),
                  "1" if e.get("exp") is not None else "0", str(e.get("exp") or 0)]
        else:
            t += ["F", str(vmap[e["var"]][0]), str(len(e["flags"]))] + ["1" if f else "0" for f in e["flags"]]
    return " ".join(t)


# ------------------------------------------------------------------------------------------------
# geometry helpers (python, only used to keep generated cases away from singular geometries)
# ------------------------------------------------------------------------------------------------
def vsub(a, b): return [a[0] - b[0], a[1] - b[1], a[2] - b[2]]
def vadd(a, b): return [a[0] + b[0], a[1] + b[1], a[2] + b[2]]
def vdot(a, b): return a[0] * b[0] + a[1] * b[1] + a[2] * b[2]
def vnorm(a): return math.sqrt(vdot(a, a))
def vcross(a, b): return [a[1] * b[2] - a[2] * b[1], a[2] * b[0] - a[0] * b[2], a[0] * b[1] - a[1] * b[0]]
def vscale(s, a): return [s * a[0], s * a[1], s * a[2]]


def gpositions(case, g):
    at = case["atoms"]
    if "dummy" in g:
        return []
    sh = [0.0, 0.0, 0.0]
    c = g.get("center")
    if c is not None:
        fids = g["fit"] if g.get("fit") is not None else g["ids"]
        cog = [sum(at[i][2][k] for i in fids) / len(fids) for k in range(3)]
        sh = vsub(c["refcog"], cog)
    return [vadd(at[i][2], sh) for i in g["ids"]]


def gcom(case, g):
    if "dummy" in g:
        return list(g["dummy"])
    at = case["atoms"]
    ps = gpositions(case, g)
    M = sum(at[i][0] for i in g["ids"])
    return [sum(at[i][0] * p[k] for i, p in zip(g["ids"], ps)) / M for k in range(3)]


def mic(case, d, pbc=True):
    """minimum image of d; also returns the distance (in units of the cell) of the closest cut"""
    cell = case.get("cell")
    if not cell or not pbc:
        return list(d), 1.0
    out, margin = [], 1.0
    for k in range(3):
        y = d[k] / cell[k] + 0.5
        f = math.floor(y)
        margin = min(margin, y - f, f + 1 - y)
        out.append(d[k] - f * cell[k])
    return out, margin


def jacobi_eigs(S):
    """eigenvalues (ascending) of a small symmetric matrix, cyclic Jacobi"""
    n = len(S); A = [row[:] for row in S]
    for _ in range(60):
        for p in range(n - 1):
            for q in range(p + 1, n):
                if abs(A[p][q]) > 1e-300:
                    th = (A[q][q] - A[p][p]) / (2.0 * A[p][q])
                    t = (1.0 if th >= 0 else -1.0) / (abs(th) + math.sqrt(th * th + 1.0))
                    c = 1.0 / math.sqrt(t * t + 1.0); sn = t * c
                    for k in range(n):
                        akp, akq = A[k][p], A[k][q]
                        A[k][p] = c * akp - sn * akq; A[k][q] = sn * akp + c * akq
                    for k in range(n):
                        apk, aqk = A[p][k], A[q][k]
                        A[p][k] = c * apk - sn * aqk; A[q][k] = sn * apk + c * aqk
    return sorted(A[i][i] for i in range(n))


def cvc_guard(case, c):
    """True when the component is well away from its singular geometries (and minimum-image cuts)"""
    k = c["kind"]; pr = c.get("params", {}); gs = c["groups"]
    pbc = pr.get("pbc", True)
    MARG = 0.02
    try:
        if k in COM_BASED:
            cs = [gcom(case, g) for g in gs]
        if k == "distance":
            d, m = mic(case, vsub(cs[1], cs[0]), pbc)
            return vnorm(d) > 0.3 and m > MARG
        if k == "distanceZ":
            d, m = mic(case, vsub(cs[0], cs[1]), pbc)
            return m > MARG
        if k == "distanceVec":
            d, m = mic(case, vsub(cs[1], cs[0]), pbc)
            return m > MARG
        if k == "distancePairs":
            for p1 in gpositions(case, gs[0]):
                for p2 in gpositions(case, gs[1]):
                    d, m = mic(case, vsub(p2, p1), pbc)
                    if vnorm(d) < 0.3 or m <= MARG:
                        return False
            return True
        if k in ("distanceZ2", "distanceXY2"):
            a12, m1 = mic(case, vsub(cs[2], cs[1]), pbc)
            if k == "distanceZ2":
                mid = vscale(0.5, vadd(cs[1], cs[2]))
                d, m2 = mic(case, vsub(cs[0], mid), pbc)
                d3, m3 = mic(case, vsub(cs[0], cs[2]), pbc)
                d4, m4 = mic(case, vsub(cs[0], cs[1]), pbc)
                if min(m3, m4) <= MARG:
                    return False
                # the gradient formula assumes consistent images (no wrapping between the three centres)
                if case.get("cell") and pbc and (vnorm(vsub(d, vsub(cs[0], mid))) > 1e-9 or vnorm(vsub(a12, vsub(cs[2], cs[1]))) > 1e-9
                                                 or vnorm(vsub(d3, vsub(cs[0], cs[2]))) > 1e-9 or vnorm(vsub(d4, vsub(cs[0], cs[1]))) > 1e-9):
                    return False
            else:
                d, m2 = mic(case, vsub(cs[0], cs[1]), pbc)
            L = vnorm(a12)
            if L < 0.3 or min(m1, m2) <= MARG:
                return False
            if k == "distanceXY2":
                ax = vscale(1 / L, a12)
                v = vsub(d, vscale(vdot(d, ax), ax))
                return vnorm(v) > 0.3
            return True
        if k == "distanceXY":
            d, m = mic(case, vsub(cs[0], cs[1]), pbc)
            ax = pr["axis"]
            v = vsub(d, vscale(vdot(d, ax), ax))
            return vnorm(v) > 0.3 and m > MARG
        if k == "angle":
            r21, m1 = mic(case, vsub(cs[0], cs[1]), pbc); r23, m2 = mic(case, vsub(cs[2], cs[1]), pbc)
            l1, l3 = vnorm(r21), vnorm(r23)
            if l1 < 0.3 or l3 < 0.3 or min(m1, m2) <= MARG:
                return False
            return abs(vdot(r21, r23) / (l1 * l3)) < 0.95
        if k == "dihedral":
            r12, m1 = mic(case, vsub(cs[1], cs[0]), pbc); r23, m2 = mic(case, vsub(cs[2], cs[1]), pbc)
            r34, m3 = mic(case, vsub(cs[3], cs[2]), pbc)
            A, B = vcross(r12, r23), vcross(r23, r34)
            if min(vnorm(A), vnorm(B), vnorm(r23)) < 0.3 or min(m1, m2, m3) <= MARG:
                return False
            # away from the +-180 branch cut
            cosphi = vdot(A, B); sinphi = vdot(A, r34) * vnorm(r23)
            return abs(abs(math.degrees(math.atan2(sinphi, cosphi))) - 180.0) > 2.0
        if k in ("polarTheta", "polarPhi"):
            p = cs[0]; r = vnorm(p)
            if r < 0.3:
                return False
            st = math.sqrt(max(0.0, 1 - (p[2] / r) ** 2))
            if st < 0.2:
                return False
            if k == "polarPhi":
                return abs(abs(math.degrees(math.atan2(p[1], p[0]))) - 180.0) > 2.0
            return True
        if k in ("distanceInv", "coordNum"):
            l1 = gpositions(case, gs[0])
            l2 = [gcom(case, gs[1])] if (pr.get("g2c") or "dummy" in gs[1]) else gpositions(case, gs[1])
            for p1 in l1:
                for p2 in l2:
                    d, m = mic(case, vsub(p2, p1), pbc if k == "distanceInv" else True)
                    if vnorm(d) < 0.3 or m <= MARG:
                        return False
                    if k == "coordNum" and abs(vnorm(d) / pr["r0"] - 1.0) < 0.05:
                        return False
            return True
        if k == "selfCoordNum":
            l = gpositions(case, gs[0])
            for i in range(len(l)):
                for j in range(i + 1, len(l)):
                    d, m = mic(case, vsub(l[j], l[i]), True)
                    if vnorm(d) < 0.3 or m <= MARG or abs(vnorm(d) / pr["r0"] - 1.0) < 0.05:
                        return False
            return True
        if k == "rmsd":
            # non-degenerate optimal rotation (gap between the two largest eigenvalues of the overlap matrix) and rmsd > 0
            l = gpositions(case, gs[0]); rf = [list(x) for x in pr["ref"]]
            n = len(l)
            cl = [sum(p[kk] for p in l) / n for kk in range(3)]; cr = [sum(p[kk] for p in rf) / n for kk in range(3)]
            y = [vsub(p, cl) for p in l]; rr = [vsub(p, cr) for p in rf]
            C = [[sum(a[i2] * b[j2] for a, b in zip(y, rr)) for j2 in range(3)] for i2 in range(3)]
            S = [[C[0][0]+C[1][1]+C[2][2], C[1][2]-C[2][1], C[2][0]-C[0][2], C[0][1]-C[1][0]],
                 [C[1][2]-C[2][1], C[0][0]-C[1][1]-C[2][2], C[0][1]+C[1][0], C[0][2]+C[2][0]],
                 [C[2][0]-C[0][2], C[0][1]+C[1][0], C[1][1]-C[0][0]-C[2][2], C[1][2]+C[2][1]],
                 [C[0][1]-C[1][0], C[0][2]+C[2][0], C[1][2]+C[2][1], C[2][2]-C[0][0]-C[1][1]]]
            w = jacobi_eigs(S)
            msd = (sum(vdot(a, a) for a in y) + sum(vdot(a, a) for a in rr) - 2 * w[-1]) / n
            return (w[-1] - w[-2]) > 1.0 and msd > 0.1
        if k in ("gyration", "inertia", "inertiaZ"):
            l = gpositions(case, gs[0])
            return math.sqrt(sum(vdot(p, p) for p in l) / len(l)) > 0.3
        if k in ("dipoleMagnitude", "dipoleAngle"):
            at = case["atoms"]; g = gs[0]
            ps = gpositions(case, g); cm = gcom(case, g)
            dip = [sum(at[i][1] * (p[kk] - cm[kk]) for i, p in zip(g["ids"], ps)) for kk in range(3)]
            if vnorm(dip) < 0.3:
                return False
            if k == "dipoleAngle":
                c2, c3 = gcom(case, gs[1]), gcom(case, gs[2])
                r23, m = mic(case, vsub(c3, c2), pbc)
                if vnorm(r23) < 0.3 or m <= MARG:
                    return False
                return abs(vdot(dip, r23) / (vnorm(dip) * vnorm(r23))) < 0.95
            return True
    except ZeroDivisionError:
        return False
    return True


# ------------------------------------------------------------------------------------------------
# generators
# ------------------------------------------------------------------------------------------------
MASSES = [1.0, 2.0, 4.0, 8.0, 0.5, 1.5, 12.0, 16.0, 3.0]
AXES = [(0.0, 0.0, 1.0), (1.0, 0.0, 0.0), (0.0, 1.0, 0.0), (0.0, -1.0, 0.0), (0.6, 0.8, 0.0), (0.0, 0.28, 0.96), (-0.8, 0.0, 0.6)]


def unit_axis(a):
    n2 = a[0] * a[0] + a[1] * a[1] + a[2] * a[2]
    if n2 == 1.0:
        return tuple(a)
    n = math.sqrt(n2)
    return (a[0] / n, a[1] / n, a[2] / n)


def gen_group(r, n_atoms, pool, opts, size=None, allow_dummy=True, allow_center=True):
    """a group over atoms of `pool` (list of atom indices, consumed when disjointness is wanted by the caller)"""
    if allow_dummy and opts["dummy"] and r.random() < 0.15:
        return {"dummy": tuple(V.dyadic(r, -3, 3, bits=4) for _ in range(3))}
    k = size if size is not None else r.choice([1, 1, 2, 2, 3, 4])
    k = max(1, min(k, len(pool)))
    ids = r.sample(pool, k)
    g = {"ids": ids}
    if allow_center and opts["center"] and r.random() < 0.3:
        fit = None
        if r.random() < 0.5:
            fit = r.sample(range(n_atoms), r.choice([1, 2, 3]))
        nref = len(fit) if fit is not None else len(ids)
        if r.random() < 0.5:
            # the documented short forms: fewer reference positions than fitted atoms (a single triplet in particular);
            # only their centre matters for centerToReference without rotation, the fit term is still -(1/N_fit) sum grad
            nref = 1 if r.random() < 0.6 else r.randint(1, nref)
        ref = [tuple(V.dyadic(r, -2, 2, bits=3) for _ in range(3)) for _ in range(nref)]
        origin = r.random() < 0.25
        # atom_group::center_ref_pos: sum / n
        cogs = [0.0, 0.0, 0.0]
        for x in ref:
            cogs = [cogs[0] + x[0], cogs[1] + x[1], cogs[2] + x[2]]
        refcog = tuple(c / float(len(ref)) for c in cogs)
        g["center"] = {"ref": ref, "origin": origin, "refcog": (0.0, 0.0, 0.0) if origin else refcog}
        g["fit"] = fit
        g["fitgrad"] = not (opts.get("nofitgrad") and r.random() < 0.2)
    return g


def gen_cvc(r, kind, n_atoms, opts):
    pool = list(range(n_atoms))
    c = {"kind": kind, "params": {}, "groups": []}
    pr = c["params"]
    ng = len(KINDS[kind][1])
    if kind in ("distance", "distanceVec", "distancePairs", "distanceZ", "distanceZ2", "distanceXY", "distanceXY2", "distanceInv", "angle", "dihedral", "dipoleAngle"):
        pr["pbc"] = r.random() < 0.7
    if kind in ("distanceZ", "distanceXY", "inertiaZ"):
        pr["axis"] = unit_axis(r.choice(AXES))
    if kind == "distanceInv":
        pr["e"] = r.choice([1, 2, 3])
    if kind in ("coordNum", "selfCoordNum"):
        pr["r0"] = r.choice([1.0, 2.0, 1.5, 2.5, 4.0]); pr["en2"] = r.choice([1, 2, 3]); pr["ed2"] = pr["en2"] + r.choice([1, 2, 3])
        if kind == "coordNum":
            pr["g2c"] = r.random() < 0.25
    disjoint = kind in ("distanceInv", "coordNum", "distancePairs")
    for gi in range(ng):
        atom_based_first = kind in ATOM_BASED and (gi == 0 or kind in ("distanceInv", "coordNum"))
        size = None
        if kind in ("gyration", "inertia", "inertiaZ", "selfCoordNum", "dipoleMagnitude") or (kind == "dipoleAngle" and gi == 0):
            size = r.choice([2, 3, 4, 5])
        if kind == "rmsd":
            size = r.choice([3, 4, 5])
        allow_dummy = not atom_based_first or (kind == "coordNum" and gi == 1)
        # gyration/inertia centre their group themselves; explicit fitting options change their meaning
        allow_center = kind not in ("gyration", "inertia", "inertiaZ", "rmsd")   # rmsd: default fit of the component itself
        if kind == "distancePairs":
            size, allow_dummy, allow_center = r.choice([1, 2, 2]), False, True
        g = gen_group(r, n_atoms, pool, opts, size=size, allow_dummy=allow_dummy, allow_center=allow_center)
        if kind in ("gyration", "inertia", "inertiaZ"):
            # gyration::init: enable(f_ag_center) with the origin as reference, fit gradients not enabled
            g["center"] = {"implicit": True, "refcog": (0.0, 0.0, 0.0), "ref": [(0.0, 0.0, 0.0)]}
            g["fit"] = None
            g["fitgrad"] = False
        if disjoint and "ids" in g:
            pool = [i for i in pool if i not in g["ids"]]
            if not pool:
                pool = None
        c["groups"].append(g)
        if disjoint and pool is None and gi + 1 < ng:
            return None
    if kind == "rmsd":
        n = len(c["groups"][0]["ids"])
        pr["ref"] = [tuple(V.dyadic(r, -3, 3, bits=3) for _ in range(3)) for _ in range(n)]
    if kind == "coordNum" and "dummy" in c["groups"][1]:
        pr["g2c"] = True
    c["coeff"] = r.choice([1.0, 1.0, 1.0, -1.0, 0.5, 2.0, 1.5, -0.25]) if opts["poly"] else 1.0
    if opts["poly"]:
        exps = [1, 1, 1, 2, 3] + ([-1, -2] if kind in POSITIVE else [])
        c["exp"] = r.choice(exps)
    else:
        c["exp"] = 1
    return c


PERIODIC = {"dihedral": 360.0, "polarPhi": 360.0}


def var_period(v):
    """colvar::init / colvar::dist2: a variable is periodic (and uses the periodic metric of its first component) iff it
    is homogeneous and ALL its components are periodic with the same period (after repair 88e52a0e of /repo main: a sum of
    components of different periodicity no longer inherits the period of cvcs[0]; it uses the plain difference)"""
    if v.get("vec"):
        return 0.0
    if v.get("period"):
        return v["period"]
    homog = all(c.get("exp", 1) == 1 and abs(abs(c.get("coeff", 1.0)) - 1.0) < 1e-10 for c in v["cvcs"])
    if homog and all(c["kind"] in PERIODIC for c in v["cvcs"]) and len(set(PERIODIC[c["kind"]] for c in v["cvcs"])) == 1:
        return PERIODIC[v["cvcs"][0]["kind"]]
    return 0.0


def touched_atoms(case):
    s = set()
    for v in case["vars"]:
        for c in v["cvcs"]:
            for g in c["groups"]:
                if "ids" in g:
                    s.update(g["ids"])
                    if g.get("fit") is not None and g.get("center") is not None:
                        s.update(g["fit"])
    return sorted(s)


def gen_case(r, kinds, opts):
    n_atoms = r.randint(4, 10)
    case = {"cell": None}
    if opts["cell"] and r.random() < 0.35:
        case["cell"] = tuple(r.choice([8.0, 16.0, 12.0]) for _ in range(3))
    nv = r.choice([1] * 13 + [2] * 5 + [3] * 2)            # up to three variables
    for attempt in range(60):
        case["atoms"] = [(r.choice(MASSES), V.dyadic(r, -2, 2, bits=3),
                          tuple(V.dyadic(r, -4, 4, bits=6) for _ in range(3))) for _ in range(n_atoms)]
        if case["cell"] and r.random() < 0.7:
            # move some atoms to other periodic images, so that centre / pair differences really wrap (|d_k| > L_k/2
            # before imaging); the guards below keep every minimum-image difference away from the cuts
            at = []
            for (m_, q_, p_) in case["atoms"]:
                if r.random() < 0.4:
                    p_ = tuple(x + r.choice([-1, 0, 0, 1]) * L for x, L in zip(p_, case["cell"]))
                at.append((m_, q_, p_))
            case["atoms"] = at
        vars_ = []
        ok = True
        for vi in range(nv):
            if opts.get("pairs") and r.random() < opts["pairs"]:
                c = gen_cvc(r, "distancePairs", n_atoms, opts)
                if c is None or not cvc_guard(case, c):
                    ok = False
                    break
                c["exp"] = 1
                vars_.append({"width": r.choice([1.0, 1.0, 0.5, 2.0]), "cvcs": [c], "vec": "pairs"})
                continue
            if opts.get("vec") and r.random() < opts["vec"]:
                c = gen_cvc(r, "distanceVec", n_atoms, opts)
                if c is None or not cvc_guard(case, c):
                    ok = False
                    break
                c["exp"] = 1
                vars_.append({"width": r.choice([1.0, 1.0, 0.5, 2.0]), "cvcs": [c], "vec": True})
                continue
            ncv = 1 if not opts["poly"] else r.choice([1] * 11 + [2] * 6 + [3] * 2 + [4])     # up to four components (the odd one inside)
            cvcs = []
            for ci in range(ncv):
                c = gen_cvc(r, r.choice(kinds), n_atoms, opts)
                if c is None or not cvc_guard(case, c):
                    ok = False
                    break
                cvcs.append(c)
            if not ok:
                break
            vars_.append({"width": r.choice([1.0, 1.0, 0.5, 2.0, 0.25]), "cvcs": cvcs})
        if ok:
            case["vars"] = vars_
            break
    else:
        return None
    # biases
    nb = r.choice([1] * 13 + [2] * 5 + [3] * 2)            # up to three biases
    case["biases"] = []
    for bi in range(nb):
        bt = r.choice(opts["biases"])
        vis = [r.randrange(nv)] if (nv == 1 or r.random() < 0.5) else list(range(nv))
        if any(case["vars"][i].get("vec") for i in vis):
            # walls are for scalars; distancePairs also under linear (sum of the elements), distanceVec under harmonic
            bt = r.choice(["harmonic", "linear"]) if all(case["vars"][i].get("vec") in ("pairs", None) for i in vis) and bt != "walls" else "harmonic"
            if bt == "linear" and any(var_period(case["vars"][i]) for i in vis):
                bt = "harmonic"
        if bt == "linear" and any(var_period(case["vars"][i]) for i in vis):
            bt = "harmonic"      # linear biases cannot be applied to periodic variables
        if bt == "harmonic":
            def vec_centre(v):
                # distance_vec::dist2 takes the minimum image of (value - centre) when a cell is defined: keep the centre
                # within 1.5 of the value so that the restraint metric is the plain difference (the model's)
                c = v["cvcs"][0]
                d, _ = mic(case, vsub(gcom(case, c["groups"][1]), gcom(case, c["groups"][0])), c["params"]["pbc"])
                wrapping = case.get("cell") and c["params"]["pbc"] and c.get("coeff", 1.0) == 1.0
                out = []
                for kk, x in enumerate(d):
                    for _ in range(20):
                        # with a cell the restraint takes the minimum image of value - centre (the model: a periodic scalar
                        # with the cell edge as period); keep away from the half-cell cut; without wrapping stay close
                        cc = round(c.get("coeff", 1.0) * x * 8) / 8.0 + V.dyadic(r, -7.0 if wrapping else -1.5, 7.0 if wrapping else 1.5, bits=3)
                        if not wrapping:
                            break
                        y = (x - cc) / case["cell"][kk] + 0.5
                        if min(y - math.floor(y), math.floor(y) + 1 - y) > 0.06:
                            break
                    out.append(cc)
                return tuple(out)
            def centre_of(v):
                if v.get("vec") == "pairs":
                    c = v["cvcs"][0]
                    return tuple(V.dyadic(r, 0, 6, bits=3) for _ in range(len(c["groups"][0]["ids"]) * len(c["groups"][1]["ids"])))
                return vec_centre(v) if v.get("vec") else V.dyadic(r, -2, 6, bits=3)
            b = {"type": "harmonic", "k": r.choice([1.0, 2.0, 0.5, 10.0, 3.0]), "terms": [(i, centre_of(case["vars"][i])) for i in vis]}
        elif bt == "linear":
            def lcentre_of(v):
                if v.get("vec") == "pairs":
                    c = v["cvcs"][0]
                    return tuple(V.dyadic(r, 0, 6, bits=3) for _ in range(len(c["groups"][0]["ids"]) * len(c["groups"][1]["ids"])))
                return V.dyadic(r, -2, 6, bits=3)
            b = {"type": "linear", "k": r.choice([1.0, -2.0, 0.5, 3.0]), "terms": [(i, lcentre_of(case["vars"][i])) for i in vis]}
        else:
            m = r.random()
            hl, hu = (True, True) if m < 0.5 else ((True, False) if m < 0.75 else (False, True))
            if any(var_period(case["vars"][i]) for i in vis):
                hl, hu = True, True
            terms = []
            for i in vis:
                lo = V.dyadic(r, -2, 8, bits=3)
                up = lo + V.dyadic(r, 0.5, 6, bits=3)
                terms.append((i, lo, up))
            b = {"type": "walls", "hl": hl, "hu": hu, "lwk": r.choice([1.0, 2.0, 4.0, 0.5]), "uwk": r.choice([1.0, 2.0, 4.0, 8.0]), "terms": terms}
        case["biases"].append(b)
    if opts.get("histr") and r.random() < opts["histr"]:
        vis = [i for i, v in enumerate(case["vars"]) if v.get("vec") in (None, False, "pairs") and not var_period(v)]
        if vis:
            vis = vis if r.random() < 0.5 else [r.choice(vis)]
            case["biases"][r.randrange(len(case["biases"]))] = {
                "type": "hist", "k": r.choice([1.0, 10.0, 4.0]), "lo": r.choice([0.0, -2.0]), "w": r.choice([2.0, 1.0]),
                "sigma": r.choice([1.5, 1.0, 2.0]), "ref": [V.dyadic(r, 0, 0.25, bits=4) + 0.0625 for _ in range(6)],
                "terms": [(i, None) for i in vis]}
    case["touched"] = touched_atoms(case)
    if opts.get("hist") and r.random() < opts["hist"]:
        # a history-dependent bias evaluated at a frozen state: one metadynamics hill / the ABMD reference, produced by
        # pre-steps at slightly displaced positions
        kind = r.choice(["meta", "meta", "abmd"])
        scal = [i for i, v in enumerate(case["vars"]) if not v.get("vec")]
        if kind == "abmd" and not scal:
            kind = "meta"
        disp = lambda: [(a, tuple(x + V.dyadic(r, -0.125, 0.125, bits=5) for x in case["atoms"][a][2])) for a in case["touched"]]
        if kind == "meta":
            vis = [r.randrange(nv)] if (nv == 1 or r.random() < 0.5) else list(range(nv))
            b = {"type": "meta", "W": r.choice([1.0, 2.0, 0.5, 4.0]), "terms": [(i, r.choice([1.0, 4.0, 16.0, 0.5])) for i in vis]}
            # (hills are deposited when step % 1000 == 0: also far beyond 2^31, 2^32, 2^53 and near 2^62)
            case["setstep"] = r.choice([999, 999, 2999999999, 4294967295999, 9007199254740999, 4611686018427386999])
            case["presteps"] = [disp(), disp()]
        else:
            i = r.choice(scal)
            dec = r.random() < 0.5
            b = {"type": "abmd", "k": r.choice([1.0, 2.0, 0.5, 10.0]), "dec": dec, "stop": -1.0e6 if dec else 1.0e6, "terms": [(i, None)]}
            case["presteps"] = [disp()]
        case["biases"][r.randrange(len(case["biases"]))] = b
    if opts.get("restart") and r.random() < (opts["restart"] * (4.0 if case.get("presteps") else 1.0)):
        add_restart(r, case)
    if opts.get("events") and r.random() < opts["events"] and not case.get("restart"):
        add_history(r, case, n_atoms, opts)
    if opts.get("events") and r.random() < 0.5 * opts["events"] and not case.get("restart") and not case.get("presteps") \
       and not any(b["type"] in ("meta", "abmd") for b in case["biases"]):
        # two holders of the same kind of thing, one of them switched off for a few steps / deleted in the middle of the session
        nbs = len(case["biases"])
        evs = case.setdefault("events", [])
        j = r.randrange(nbs)
        m = r.random()
        if m < 0.4:
            evs += [{"type": "biasoff", "bias": j}, {"type": "biason", "bias": j}]
        elif m < 0.7 and nbs >= 2:
            evs += [{"type": "biasoff", "bias": j}]
        elif nbs >= 2:
            evs += [{"type": "delbias", "bias": j}]
        else:
            evs += [{"type": "biasoff", "bias": j}, {"type": "biason", "bias": j}]
    if opts.get("moving") and r.random() < opts["moving"] and not case.get("presteps") and not case.get("restart"):
        # moving restraints, evaluated at a fixed step number S <= targetNumSteps (dyadic lambda = S/N)
        N = r.choice([1024, 512, 1000, 6, 12, 7, 5, 3])          # also targetNumSteps that are not powers of two
        if r.random() < 0.4:
            case["init_step"] = r.choice([2 ** 31, 2 ** 32 + 7, 2 ** 53 + 1001, 2 ** 62 - 5000])
        staged = r.random() < 0.3 and not case.get("events")     # (event steps would pass through jump steps themselves)
        if staged:
            # staged centres (targetNumStages >= 3): the centres jump at the steps first + 1 + k n; the scenario visits K of
            # them (setstep + step), then measures between two of them: lambda = (K - 1) / stages
            N = r.choice([10, 7, 12])
            nst = r.choice([3, 4, 5])
            K = r.randint(1, nst + 1)
            first = case.get("init_step") or 0
        for b in case["biases"]:
            if b["type"] not in ("harmonic", "linear", "walls"):
                continue
            mv_ = {"N": N}
            m = r.random()
            plain_vars = not any(var_period(case["vars"][t[0]]) for t in b["terms"])
            if staged:
                if b["type"] == "walls" or not plain_vars:
                    continue
                m = 0.0
                mv_["stages"] = nst
                mv_["K"] = K
                case["stage_visits"] = [first + 1 + k_ * N for k_ in range(K)]
                case["fd_setstep"] = first + (K - 1) * N + N // 2
            if b["type"] != "walls" and plain_vars and m < 0.5:
                def shift(c):
                    if isinstance(c, (tuple, list)):
                        return tuple(x + V.dyadic(r, -1, 1, bits=3) for x in c)
                    return c + V.dyadic(r, -2, 2, bits=3)
                mv_["tc"] = [shift(t[1]) for t in b["terms"]]
            if "tc" not in mv_:        # (moving centres and a changing force constant exclude each other)
                mv_["tk"] = r.choice([4.0, 0.25, 8.0, 1.5])
                mv_["kexp"] = r.choice([1.0, 1.0, 2.0, 4.0])
            b["moving"] = mv_
            if "fd_setstep" not in case:
                S_ = r.choice([N // 4, N // 2, 3 * N // 4, N]) if N >= 512 else r.randint(1, N)
                case["fd_setstep"] = (case.get("init_step") or 0) + S_ - 1
    return case


def add_restart(r, case):
    """state save -> fresh instance with CHANGED legal options -> load -> measured steps.  What a bias carries across:
    metadynamics hills keep their own weight and widths; ABMD keeps its reference; restraints have no state, so the new
    force constants / centres / walls apply."""
    other = lambda x, choices: r.choice([c for c in choices if c != x] or [x])
    B = copy.deepcopy(case["biases"])
    for b in B:
        if b["type"] == "meta":
            b["W"] = other(b["W"], [1.0, 2.0, 0.5, 4.0])
            b["terms"] = [(i, sg * r.choice([2.0, 0.5, 4.0, 0.25])) for (i, sg) in b["terms"]]
        elif b["type"] in ("harmonic", "linear"):
            b["k"] = other(b["k"], [1.0, 2.0, 0.5, 10.0, 3.0])
            if b["type"] == "harmonic" and r.random() < 0.5 and not any(isinstance(t[1], (tuple, list)) and case.get("cell") for t in b["terms"]):
                b["terms"] = [(t[0], tuple(x + V.dyadic(r, -0.5, 0.5, bits=3) for x in t[1]) if isinstance(t[1], (tuple, list)) else t[1] + V.dyadic(r, -1, 1, bits=3))
                              for t in b["terms"]]
        elif b["type"] == "walls":
            b["lwk"] = other(b["lwk"], [1.0, 2.0, 4.0, 0.5]); b["uwk"] = other(b["uwk"], [1.0, 2.0, 4.0, 8.0])
        elif b["type"] == "abmd":
            b["k"] = other(b["k"], [1.0, 2.0, 0.5, 10.0])
        elif b["type"] == "hist":
            b["k"] = other(b["k"], [1.0, 10.0, 4.0])
    case["restart"] = {"biases": B, "fmt": r.choice(["text", "binary", "textstr", "binarybuf"])}


def add_history(r, case, n_atoms, opts):
    """a history of run-time modifications of the superposition of one scalar variable (script interface):
    modifycvcs componentCoeff / componentExp on components in use, cvcflags.  case["vars"] stays the configuration as
    parsed (colvar::init computes linear / homogeneous / periodic from it, once); case["events"] is the history.
    Not combined with history-dependent biases (their pre-steps define a frozen state of their own)."""
    if case.get("presteps") or any(b["type"] in ("meta", "abmd") for b in case["biases"]):
        return
    cand = [i for i, v in enumerate(case["vars"]) if not v.get("vec")]
    if not cand:
        return
    i = r.choice(cand)
    v = case["vars"][i]
    if any(c["kind"] in PERIODIC for c in v["cvcs"]) and \
       any(b["type"] != "harmonic" and i in [t[0] for t in b["terms"]] for b in case["biases"]):
        return          # walls / linear / histogram on a variable whose periodic flag may go stale: harmonic only
    if r.random() < 0.6:
        # parsed as a linear (and mostly homogeneous) superposition: the flags are on when the history starts
        for c in v["cvcs"]:
            c["exp"] = 1
            if r.random() < 0.7:
                c["coeff"] = r.choice([1.0, 1.0, -1.0])
    if len(v["cvcs"]) == 1 and r.random() < 0.4:
        # a second component, so that cvcflags has something to switch
        for _ in range(20):
            kinds = [k for k in KINDS if k not in ("distanceVec", "distancePairs", "rmsd") and k not in PERIODIC]
            c = gen_cvc(r, r.choice(kinds), n_atoms, opts)
            if c is not None and cvc_guard(case, c):
                if r.random() < 0.6:
                    c["exp"] = 1
                v["cvcs"].append(c)
                break
    n = len(v["cvcs"])
    events = []
    for _ in range(r.choice([1, 1, 2, 3])):
        if n >= 2 and r.random() < 0.3:
            fl = [r.random() < 0.6 for _ in range(n)]
            if not any(fl):
                fl[r.randrange(n)] = True
            events.append({"type": "flags", "var": i, "flags": fl})
        else:
            j = r.randrange(n)
            kind = v["cvcs"][j]["kind"]
            exps = [2, 2, 3, 1] + ([-1, -2] if kind in POSITIVE else [])
            m = r.random()
            e = {"type": "mod", "var": i, "comp": j,
                 "coeff": r.choice([2.0, -1.0, 0.5, 1.5, -0.25, 1.0]) if m < 0.4 else None,
                 "exp": r.choice(exps) if m >= 0.4 else None}
            events.append(e)
    case["events"] = events
    case["touched"] = touched_atoms(case)


def effective_params(case):
    """live (coeff, exp, active) of every component after the history (python mirror, for labels only)"""
    out = [[[c.get("coeff", 1.0), c.get("exp", 1), True] for c in v["cvcs"]] for v in case["vars"]]
    for e in case.get("events", []):
        if e["type"] not in ("mod", "flags"):
            continue
        if e["type"] == "mod":
            t = out[e["var"]][e["comp"]]
            if e.get("coeff") is not None:
                t[0] = e["coeff"]
            if e.get("exp") is not None:
                t[1] = e["exp"]
        else:
            for t, f in zip(out[e["var"]], e["flags"]):
                t[2] = bool(f)
    return out


def history_label(case):
    """coverage label of a history: which flags of colvar::init are stale after it"""
    if not case.get("events"):
        return None
    lab = set()
    eff = effective_params(case)
    for e in case["events"]:
        lab.add({"flags": "cvcflags", "mod": "modifycvcs", "biasoff": "bias-apply_force-off", "biason": "bias-apply_force-on-again",
                 "delbias": "bias-deleted"}[e["type"]])
    for v, ps in zip(case["vars"], eff):
        lin0 = all(c.get("exp", 1) == 1 for c in v["cvcs"])
        hom0 = lin0 and all(abs(abs(c.get("coeff", 1.0)) - 1.0) < 1e-10 for c in v["cvcs"])
        lin1 = all(p_[1] == 1 for p_ in ps)
        hom1 = lin1 and all(abs(abs(p_[0]) - 1.0) < 1e-10 for p_ in ps)
        if lin0 and not lin1:
            lab.add("stale-linear")
        if hom0 and not hom1:
            lab.add("stale-homogeneous")
        if not lin0 and lin1:
            lab.add("became-linear")
        if var_period(v) and not hom1:
            lab.add("periodicity-refreshed")
        if not all(p_[2] for p_ in ps):
            lab.add("component-off")
    return "history:" + "+".join(sorted(lab))


def case_key(case):
    """(components with options, biases): the distinct-nontrivial key"""
    ks = []
    for v in case["vars"]:
        for c in v["cvcs"]:
            o = []
            for g in c["groups"]:
                if "dummy" in g:
                    o.append("D")
                else:
                    o.append("A%s%s%s" % ("c" if g.get("center") else "", "f" if g.get("fit") is not None else "", "" if g.get("fitgrad", True) else "n"))
            pr = c.get("params", {})
            ks.append("%s[%s]%s%s%s" % (c["kind"], ",".join(o), "" if pr.get("pbc", True) else ":nopbc",
                                         "" if c.get("exp", 1) == 1 else ":exp%d" % c["exp"], ":g2c" if pr.get("g2c") else ""))
    bs = sorted(b["type"] for b in case["biases"])
    return "+".join(sorted(ks)) + "|" + "+".join(bs) + ("|cell" if case.get("cell") else "")


# ------------------------------------------------------------------------------------------------
# running vsim on batches of cases and parsing
# ------------------------------------------------------------------------------------------------
def parse_vsim(out, ncases):
    """-> list of per-case dicts: config line, base step (energy, cvs, atomf), fd energies"""
    res = [None] * ncases
    cur = None
    for ln in out:
        w = ln.split()
        if not w:
            continue
        if w[0] == "echo" and len(w) >= 3 and w[1] == "CASE":
            cur = {"id": int(w[2]), "config": None, "steps": [], "done": False}
        elif cur is None:
            continue
        elif w[0] == "echo" and w[1] == "END":
            cur["done"] = True
            res[cur["id"]] = cur
            cur = None
        elif w[0] == "CONFIG":
            cur["config"] = ln
        elif w[0] == "SCRIPT":
            cur.setdefault("script", []).append(ln.strip())
        elif w[0] in ("SAVE", "LOAD"):
            cur.setdefault("script", []).append(ln.strip().split(" it=")[0])
        elif w[0] == "STEP":
            cur["steps"].append({"err": ln, "cv": {}, "atomf": {}, "bias": {}})
        elif w[0] == "ENERGY" and cur["steps"]:
            cur["steps"][-1]["energy"] = float.fromhex(w[1])
        elif w[0] == "CV" and cur["steps"]:
            try:
                cur["steps"][-1]["cv"][w[1]] = [float.fromhex(t) for t in w[2:]]
            except ValueError:
                cur["steps"][-1]["cv"][w[1]] = None
        elif w[0] == "AF" and cur["steps"]:
            try:
                cur["steps"][-1].setdefault("af", {})[w[1]] = [float.fromhex(t) for t in w[2:]]
            except ValueError:
                cur["steps"][-1].setdefault("af", {})[w[1]] = None
        elif w[0] == "BIAS" and cur["steps"]:
            cur["steps"][-1]["bias"][w[1]] = float.fromhex(w[2])
        elif w[0] == "ATOMF" and cur["steps"]:
            cur["steps"][-1]["atomf"][int(w[1]) - 1] = [float.fromhex(t) for t in w[2:5]]
    if cur is not None:
        res[cur["id"]] = cur      # died inside this case
    return res


def run_vsim(vsim, cases, with_fd=True):
    """run all cases (4 processes in parallel); returns per-case parsed results"""
    n = len(cases)
    chunks = [list(range(i, n, JOBS)) for i in range(JOBS)]
    results = [None] * n

    def work(idx):
        L = []
        for j, i in enumerate(idx):
            L += scenario(cases[i], str(j), with_fd and not cases[i].get("nofd"))
        rc, out, err = V.run_lines(vsim, L, timeout=1500, cwd=V.scratch("C01-%d" % (idx[0] if idx else 0)))
        return idx, rc, parse_vsim(out, len(idx)), err

    with ThreadPoolExecutor(max_workers=JOBS) as ex:
        for idx, rc, parsed, err in ex.map(work, [c for c in chunks if c]):
            died = False
            for j, i in enumerate(idx):
                p = parsed[j]
                if p is None or not p["done"]:
                    # the process died in this case (or before reaching it): rerun the rest one by one
                    died = True
                    break
                results[i] = p
            if died:
                for j2 in range(j, len(idx)):
                    i2 = idx[j2]
                    rc2, out2, err2 = V.run_lines(vsim, scenario(cases[i2], "0", with_fd and not cases[i2].get("nofd")), timeout=600,
                                                  cwd=V.scratch("C01-r"))
                    p2 = parse_vsim(out2, 1)[0]
                    if p2 is None:
                        p2 = {"id": 0, "config": None, "steps": [], "done": False}
                    p2["rc"] = rc2
                    p2["stderr"] = err2[-400:]
                    results[i2] = p2
    return results


def fd_check(case, res):
    """finite-difference oracle on the implementation alone.
    returns (status, detail): status in ok | ambiguous | fail"""
    steps = res["steps"]
    npre = npre_steps(case)
    base = steps[npre]
    coords = fd_coords(case)
    fd_steps = steps[npre + 1:]
    if case.get("presteps") and len(fd_steps) == 4 * len(coords) + 1:
        again = fd_steps.pop()
        e0, e1 = base.get("energy"), again.get("energy")
        if e0 is None or e1 is None or abs(e0 - e1) > 1e-9 * max(1.0, abs(e0)):
            # the bias changed its own state during the displaced steps (ABMD ratchet, a new hill): the energies of the
            # displaced steps are not values of one function
            return "ambiguous", "the state of a history-dependent bias changed during the finite-difference steps"
    if len(fd_steps) != 4 * len(coords):
        return "ambiguous", "finite-difference steps missing (%d of %d)" % (len(fd_steps), 4 * len(coords))
    forces = base["atomf"]
    fmax = max([1e-3] + [abs(x) for f in forces.values() for x in f])
    emax = max([abs(base.get("energy", 0.0))] + [abs(st.get("energy") or 0.0) for st in fd_steps])
    # rounding of the energy itself limits what a difference quotient can resolve
    noise = 1024 * 2.0 ** -52 * emax / H2
    worst = None
    for n, (a, k) in enumerate(coords):
        e = [fd_steps[4 * n + j].get("energy") for j in range(4)]
        if any(x is None or math.isnan(x) or math.isinf(x) for x in e):
            return "ambiguous", "energy not finite near the base point"
        e0 = base.get("energy")
        if e0 is not None and abs(e[0] + e[1] - 2.0 * e0) / H1 > 0.05 * max(abs(e[0] - e[1]) / (2 * H1), abs(forces.get(a, [0.0, 0.0, 0.0])[k]), 1e-3 * fmax) \
           and abs(e[0] + e[1] - 2.0 * e0) > 64 * noise * H1:
            # the two one-sided difference quotients disagree: the base point sits on a kink of the energy (a minimum-image cut
            # between two CENTRES, a wall, a truncation radius); no verdict for this configuration
            return "ambiguous", "one-sided finite differences disagree at the base point (atom %d axis %d)" % (a + 1, k)
        d1 = (e[0] - e[1]) / (2 * H1)
        d2 = (e[2] - e[3]) / (2 * H2)
        rich = (4 * d2 - d1) / 3.0
        est = abs(d2 - d1)
        f = forces.get(a, [0.0, 0.0, 0.0])[k]
        scale = max(fmax, abs(rich))
        if est > 1e-3 * scale:
            # the two step sizes disagree: too close to a singular geometry / a kink for a verdict
            return "ambiguous", "finite differences at the two step sizes disagree (atom %d axis %d: %r vs %r)" % (a + 1, k, d1, d2)
        err = abs(f + rich)
        # rounding of a variable's own value: a variable of size |x| that moves by dx between the two displaced steps carries a
        # relative error of about ulp(x)/dx into the difference quotient (a huge constant term, e.g. the cube of an angle
        # of a dummy atom, next to a term that depends on the coordinate)
        relx = 0.0
        for nm, x2 in (fd_steps[4 * n + 2].get("cv") or {}).items():
            x3 = (fd_steps[4 * n + 3].get("cv") or {}).get(nm)
            if x2 and x3 and len(x2) == len(x3):
                for p2, p3 in zip(x2, x3):
                    dx = abs(p2 - p3)
                    if dx > 0.0 and max(abs(p2), abs(p3)) >= 1.0e4:      # only where the offset is huge
                        relx = max(relx, 16 * 2.0 ** -52 * max(abs(p2), abs(p3)) / dx)
        xnoise = min(relx, 1.0) * abs(rich)
        # est = |d(h2) - d(h1)| measures how far the two difference quotients are from convergence: for a smooth energy the
        # Richardson value is much better than that, at a kink inside the stencil (wrapped periodic value of a high power,
        # minimum-image cut) it is not; no failure is claimed within 2 est
        if err > TOL_FD * scale + noise + xnoise + 2.0 * est:
            if noise + xnoise > 1e-4 * scale:
                # the rounding of the energy (or of a variable amplified by dE/dxi) swamps the difference quotient
                return "ambiguous", "finite differences cannot resolve forces of this size (rounding noise %.3g, scale %.3g)" % (noise, scale)
            if worst is None or err / scale > worst[0]:
                worst = (err / scale, a, k, f, -rich)
    if worst:
        return "fail", {"atom": worst[1] + 1, "axis": "xyz"[worst[2]], "force": worst[3], "minus_dE_dx": worst[4], "rel_err": worst[0]}
    # atoms not named by the configuration receive no force by construction (vsim lists requested atoms only)
    return "ok", None


def walls_ambiguous(case, base, res=None):
    """a variable within 0.05 of a wall position (or of the ABMD reference): the energy has a kink there"""
    act = bias_active(case)
    for j, b in enumerate(case.get("biases", [])):
        if not act[j]:
            continue
        if b["type"] == "meta":
            # the hill is set to zero beyond exponent 23 (a jump of W*1e-5 in the energy): decided only well inside
            e = base.get("bias", {}).get("b%d" % j)
            if e is None or not (abs(e) > 1e-4 * abs(b["W"])):
                return True
        b = live_biases(case)[j]
        if b["type"] == "abmd" and res is not None:
            i = b["terms"][0][0]
            pre = pre_values(case, res, True)
            x = base["cv"].get("v%d" % i)
            try:
                ref = abmd_ref(b, [p["v%d" % i][0] for p in pre])
            except Exception:
                return True
            # beyond the reference the reference follows the variable (at the base step and at every displaced step), so the
            # displaced energies are not values of one function; only the biased side, away from the reference, is decided
            if not x or ref is None or (x[0] - ref) * (-1.0 if b["dec"] else 1.0) > -0.01 * max(1.0, abs(ref)):
                return True
        if b["type"] == "walls":
            for (i, lo, up) in b["terms"]:
                x = base["cv"].get("v%d" % i)
                if not x:
                    return True
                if (b["hl"] and abs(x[0] - lo) < 0.05) or (b["hu"] and abs(x[0] - up) < 0.05):
                    return True
    return False


def signature(case):
    ks = sorted(set(c["kind"] for v in case["vars"] for c in v["cvcs"])) if "vars" in case else [case.get("name", "raw")]
    return "fd:" + ("history:" if case.get("events") or case.get("script") else "") + ("restart:" if case.get("restart") else "") + ":".join(ks)


def shrink_fd(vsim, case, run_one):
    """try to reduce a failing generated case: single variable, single component, harmonic only"""
    best = case
    if "vars" not in case:
        return best
    cands = []
    for vi, v in enumerate(case["vars"]):
        for c in v["cvcs"]:
            c2 = copy.deepcopy(c)
            small = {"atoms": case["atoms"], "cell": case.get("cell"), "vars": [{"width": v["width"], "cvcs": [c2], "vec": v.get("vec", False)}],
                     "biases": [{"type": "harmonic", "k": 1.0, "terms": [(0, ((0.5,) * (len(c2["groups"][0]["ids"]) * len(c2["groups"][1]["ids"])) if v.get("vec") == "pairs" else (0.5, 0.5, 0.5)) if v.get("vec") else 0.5)]}]}
            small["touched"] = touched_atoms(small)
            cands.append(small)
            c3 = copy.deepcopy(c2); c3["coeff"] = 1.0; c3["exp"] = 1
            small2 = dict(small); small2["vars"] = [{"width": 1.0, "cvcs": [c3], "vec": v.get("vec", False)}]
            cands.append(small2)
    for cand in reversed(cands):
        st, det, _ = run_one(cand)
        if st == "fail":
            return cand
    return best


# ------------------------------------------------------------------------------------------------
# unmodelled sweep (thorough tier): raw configurations, FD oracle only
# ------------------------------------------------------------------------------------------------
def raw_case(r, name, n_atoms, conf, touched, cell=None, presteps=None, charges=False):
    atoms = [(r.choice(MASSES), V.dyadic(r, -2, 2, bits=3) if charges else 0.0,
              tuple(V.dyadic(r, -4, 4, bits=6) for _ in range(3))) for _ in range(n_atoms)]
    c = {"name": name, "atoms": atoms, "cell": cell, "raw_config": conf, "touched": touched}
    if presteps:
        c["presteps"] = presteps
    return c


def ids_str(ids):
    return " ".join(str(i + 1) for i in ids)


def refpos_str(r, n):
    # a non-degenerate reference structure
    return " ".join(v3(tuple(V.dyadic(r, -3, 3, bits=3) for _ in range(3))) for _ in range(n))


def gen_unmodelled(r, n):
    out = []
    names = ["rot_distance", "rot_fit_distance", "rmsd", "orientation", "orientationAngle", "orientationProj", "tilt", "spinAngle",
             "eulerPhi", "eulerTheta", "eulerPsi", "distanceVec", "distanceDir", "cartesian", "distancePairs",
             "rot_gyration", "eigenvector_nofit", "rot_distanceVec", "center_distanceVec", "groupCoord", "hBond",
             "meta_nogrid", "opes_frozen", "abmd", "histogramRestraint", "distanceZ_periodic", "dihedral_walls", "mapTotal"]
    cell_names = ["cell_distanceVec", "cell_distanceDir", "cell_distancePairs", "cell_distancePairs_linear", "cell_histogramRestraint",
                  "cell_groupCoord", "cell_hBond", "cell_poly_two_biases", "cell_center_distanceVec", "cell_meta_nogrid",
                  "center_distancePairs", "rot_distancePairs", "distancePairs_linear",
                  "center1_distanceVec", "center1_fit_distanceDir", "center1_distancePairs",
                  "rmsd_perm", "lincomb_coordNum", "lincomb_selfCoordNum", "distanceZ2_period",
                  "ev_forceNoPBC", "ev_period", "ev_distanceVec_coeff", "ev_rmsd_exp", "ev_dihedral_coeff", "ev_distancePairs_coeff",
                  "gspathCV", "gzpathCV", "aspathCV", "azpathCV", "gspath", "gzpath", "aspath", "azpath", "scripted_vsum", "lincomb_distanceVec",
                  "meta_nogrid_restart", "cell_meta_nogrid_restart", "opes_frozen_restart", "abmd_restart", "antipodal_distanceDir", "ev_badconfig"]
    names = names + cell_names
    only = os.environ.get("C01_ONLY")          # debugging aid: restrict the sweep to kinds containing this text
    if only:
        names = [x for x in names if only in x] or names
    for i in range(n):
        name = names[i % len(names)] if i < 3 * len(names) else r.choice(names)
        full_name = name
        wrap = name.startswith("cell_")
        if wrap:
            name = name[5:]
        rst = name.endswith("_restart")
        if rst:
            name = name[:-8]
        na = r.randint(6, 10)
        ids = r.sample(range(na), 4)
        others = [j for j in range(na) if j not in ids]
        oth2 = r.sample(others, 2)
        harm_c = V.dyadic(r, 0, 3, bits=3)
        harm = "harmonic {\n  colvars v0\n  centers %r\n  forceConstant %r\n}" % (harm_c, r.choice([1.0, 2.0, 0.5]))
        cell = None
        pre = None
        script = None
        files = None
        exact = None
        script_error_ok = False
        touched = sorted(set(ids + oth2))
        fitopts = "centerToReference on\n      rotateToReference on\n      refPositions %s" % refpos_str(r, 4)
        if name == "rot_distance":
            conf = "colvar {\n  name v0\n  distanceZ {\n    main {\n      atomNumbers %s\n      %s\n    }\n    ref {\n      dummyAtom (0.5, 0.25, -1.0)\n    }\n    axis (0.6, 0.8, 0.0)\n  }\n}\n%s" % (ids_str(ids), fitopts, harm)
        elif name == "rot_fit_distance":
            # (three fitted atoms at least: with two, the optimal rotation is degenerate -- any rotation about their axis --
            # and its derivative is not defined)
            fit = r.sample(others, 3) if len(others) >= 3 else (others + ids[2:4])[:3]
            touched = sorted(set(ids[:2] + fit))
            conf = ("colvar {\n  name v0\n  distanceZ {\n    main {\n      atomNumbers %s\n      centerToReference on\n      rotateToReference on\n"
                    "      refPositions %s\n      fittingGroup {\n        atomNumbers %s\n      }\n    }\n    ref {\n      dummyAtom (0.5, 0.25, -1.0)\n    }\n    axis (0.0, 0.6, 0.8)\n  }\n}\n%s"
                    % (ids_str(ids[:2]), refpos_str(r, len(fit)), ids_str(fit), harm))
        elif name == "rmsd":
            touched = sorted(ids)
            conf = "colvar {\n  name v0\n  rmsd {\n    atoms {\n      atomNumbers %s\n    }\n    refPositions %s\n  }\n}\n%s" % (ids_str(ids), refpos_str(r, 4), harm)
        elif name in ("orientationAngle", "orientationProj", "tilt", "spinAngle", "eulerPhi", "eulerTheta", "eulerPsi"):
            touched = sorted(ids)
            ax = "\n    axis (0.0, 0.6, 0.8)" if name in ("tilt", "spinAngle") else ""
            cen = {"orientationAngle": 40.0, "orientationProj": 0.5, "tilt": 0.25, "spinAngle": 30.0, "eulerPhi": 20.0, "eulerTheta": 10.0, "eulerPsi": -30.0}[name]
            conf = ("colvar {\n  name v0\n  %s {\n    atoms {\n      atomNumbers %s\n    }\n    refPositions %s%s\n  }\n}\n"
                    "harmonic {\n  colvars v0\n  centers %r\n  forceConstant %r\n}" % (name, ids_str(ids), refpos_str(r, 4), ax, cen, 0.01 if "Proj" not in name and name != "tilt" else 2.0))
        elif name == "orientation":
            touched = sorted(ids)
            conf = ("colvar {\n  name v0\n  orientation {\n    atoms {\n      atomNumbers %s\n    }\n    refPositions %s\n  }\n}\n"
                    "harmonic {\n  colvars v0\n  centers (0.8, 0.0, 0.6, 0.0)\n  forceConstant 2.0\n}" % (ids_str(ids), refpos_str(r, 4)))
        elif name in ("distanceVec", "rot_distanceVec", "center_distanceVec"):
            extra = ""
            if name == "rot_distanceVec":
                extra = "\n      " + fitopts
            if name == "center_distanceVec":
                extra = "\n      centerToReference on\n      refPositions %s" % refpos_str(r, 2)
            g1 = ids[:2] if name == "center_distanceVec" else ids
            touched = sorted(set(g1 + oth2))
            conf = ("colvar {\n  name v0\n  distanceVec {\n    group1 {\n      atomNumbers %s%s\n    }\n    group2 {\n      atomNumbers %s\n    }\n  }\n}\n"
                    "harmonic {\n  colvars v0\n  centers (1.0, -0.5, 0.25)\n  forceConstant 2.0\n}" % (ids_str(g1), extra, ids_str(oth2)))
        elif name == "distanceDir":
            conf = ("colvar {\n  name v0\n  distanceDir {\n    group1 {\n      atomNumbers %s\n    }\n    group2 {\n      atomNumbers %s\n    }\n  }\n}\n"
                    "harmonic {\n  colvars v0\n  centers (0.6, 0.0, 0.8)\n  forceConstant 2.0\n}" % (ids_str(ids), ids_str(oth2)))
        elif name == "cartesian":
            touched = sorted(ids[:2])
            conf = ("colvar {\n  name v0\n  cartesian {\n    atoms {\n      atomNumbers %s\n    }\n  }\n}\n"
                    "harmonic {\n  colvars v0\n  centers (1.0, 0.0, 0.5, -1.0, 0.25, 2.0)\n  forceConstant 2.0\n}" % ids_str(ids[:2]))
        elif name == "distancePairs":
            touched = sorted(set(ids[:2] + oth2))
            conf = ("colvar {\n  name v0\n  distancePairs {\n    group1 {\n      atomNumbers %s\n    }\n    group2 {\n      atomNumbers %s\n    }\n  }\n}\n"
                    "harmonic {\n  colvars v0\n  centers (1.0, 2.0, 3.0, 2.5)\n  forceConstant 2.0\n}" % (ids_str(ids[:2]), ids_str(oth2)))
        elif name == "distancePairs_linear":
            touched = sorted(set(ids[:2] + oth2))
            conf = ("colvar {\n  name v0\n  distancePairs {\n    group1 {\n      atomNumbers %s\n    }\n    group2 {\n      atomNumbers %s\n    }\n  }\n}\n"
                    "linear {\n  colvars v0\n  centers (1.0, 2.0, 3.0, 2.5)\n  forceConstant 2.0\n}" % (ids_str(ids[:2]), ids_str(oth2)))
        elif name == "rmsd_perm":
            touched = sorted(ids)
            # several alternative orderings, so that the original one is rarely the closest (the defect repaired on
            # fix-C01-4 only shows when another ordering wins)
            perms = []
            for sw in ([(0, 1)], [(2, 3)], [(0, 1), (2, 3)], [(0, 2)], [(1, 3)]):
                perm = list(ids)
                for (i1, i2) in sw:
                    perm[i1], perm[i2] = perm[i2], perm[i1]
                perms.append("    atomPermutation %s\n" % ids_str(perm))
            conf = ("colvar {\n  name v0\n  rmsd {\n    atoms {\n      atomNumbers %s\n    }\n    refPositions %s\n%s  }\n}\n%s"
                    % (ids_str(ids), refpos_str(r, 4), "".join(perms), harm))
        elif name == "lincomb_coordNum":
            touched = sorted(set(ids[:2] + oth2))
            conf = ("colvar {\n  name v0\n  linearCombination {\n    coordNum {\n      componentCoeff 2.0\n      group1 {\n        atomNumbers %s\n      }\n      group2 {\n        atomNumbers %s\n      }\n      cutoff 3.0\n    }\n"
                    "    distance {\n      componentCoeff 0.5\n      group1 {\n        atomNumbers %s\n      }\n      group2 {\n        atomNumbers %s\n      }\n    }\n  }\n}\n%s"
                    % (ids_str(ids[:2]), ids_str(oth2), ids_str(ids[:1]), ids_str(oth2[:1]), harm))
        elif name == "lincomb_selfCoordNum":
            touched = sorted(ids)
            conf = ("colvar {\n  name v0\n  linearCombination {\n    selfCoordNum {\n      group1 {\n        atomNumbers %s\n      }\n      cutoff 3.0\n    }\n  }\n}\n%s"
                    % (ids_str(ids), harm))
        elif name == "distanceZ2_period":
            touched = sorted(set(ids[:3] + oth2))
            conf = ("colvar {\n  name v0\n  distanceZ {\n    main {\n      atomNumbers %s\n    }\n    ref {\n      atomNumbers %d\n    }\n    ref2 {\n      atomNumbers %s\n    }\n    period %r\n  }\n}\n"
                    "harmonic {\n  colvars v0\n  centers 0.25\n  forceConstant 2.0\n}" % (ids_str(ids[:2]), ids[2] + 1, ids_str(oth2), r.choice([1.0, 2.0, 1.5])))
        elif name == "center1_distanceVec":
            touched = sorted(set(ids[:3] + oth2))
            conf = ("colvar {\n  name v0\n  distanceVec {\n    group1 {\n      atomNumbers %s\n      centerToReference on\n      refPositions %s\n    }\n    group2 {\n      atomNumbers %s\n    }\n  }\n}\n"
                    "harmonic {\n  colvars v0\n  centers (1.0, -0.5, 0.25)\n  forceConstant 2.0\n}" % (ids_str(ids[:3]), refpos_str(r, 1), ids_str(oth2)))
        elif name == "center1_fit_distanceDir":
            fitg = r.sample(others, 3) if len(others) >= 3 else others
            touched = sorted(set(ids[:2] + fitg + oth2))
            conf = ("colvar {\n  name v0\n  distanceDir {\n    group1 {\n      atomNumbers %s\n      centerToReference on\n      refPositions %s\n      fittingGroup {\n        atomNumbers %s\n      }\n    }\n    group2 {\n      atomNumbers %s\n    }\n  }\n}\n"
                    "harmonic {\n  colvars v0\n  centers (0.6, 0.0, 0.8)\n  forceConstant 2.0\n}" % (ids_str(ids[:2]), refpos_str(r, 1), ids_str(fitg), ids_str(oth2)))
        elif name == "center1_distancePairs":
            touched = sorted(set(ids[:2] + oth2))
            conf = ("colvar {\n  name v0\n  distancePairs {\n    group1 {\n      atomNumbers %s\n      centerToReference on\n      refPositions %s\n    }\n    group2 {\n      atomNumbers %s\n    }\n  }\n}\n"
                    "harmonic {\n  colvars v0\n  centers (1.0, 2.0, 3.0, 2.5)\n  forceConstant 2.0\n}" % (ids_str(ids[:2]), refpos_str(r, 1), ids_str(oth2)))
        elif name == "center_distancePairs":
            touched = sorted(set(ids[:2] + oth2))
            conf = ("colvar {\n  name v0\n  distancePairs {\n    group1 {\n      atomNumbers %s\n      centerToReference on\n      refPositions %s\n    }\n    group2 {\n      atomNumbers %s\n    }\n  }\n}\n"
                    "harmonic {\n  colvars v0\n  centers (1.0, 2.0, 3.0, 2.5)\n  forceConstant 2.0\n}" % (ids_str(ids[:2]), refpos_str(r, 2), ids_str(oth2)))
        elif name == "rot_distancePairs":
            touched = sorted(set(ids[:3] + oth2))
            conf = ("colvar {\n  name v0\n  distancePairs {\n    group1 {\n      atomNumbers %s\n      centerToReference on\n      rotateToReference on\n      refPositions %s\n    }\n    group2 {\n      atomNumbers %s\n    }\n  }\n}\n"
                    "harmonic {\n  colvars v0\n  centers (1.0, 2.0, 3.0, 2.5, 1.5, 2.0)\n  forceConstant 2.0\n}" % (ids_str(ids[:3]), refpos_str(r, 3), ids_str(oth2)))
        elif name == "rot_gyration":
            touched = sorted(ids)
            conf = "colvar {\n  name v0\n  inertiaZ {\n    atoms {\n      atomNumbers %s\n      %s\n    }\n    axis (0.0, 0.0, 1.0)\n  }\n}\n%s" % (ids_str(ids), fitopts, harm)
        elif name == "eigenvector_nofit":
            touched = sorted(ids)
            conf = ("colvar {\n  name v0\n  eigenvector {\n    atoms {\n      atomNumbers %s\n      centerToReference off\n      rotateToReference off\n    }\n"
                    "    refPositions %s\n    vector %s\n  }\n}\n%s" % (ids_str(ids), refpos_str(r, 4), refpos_str(r, 4), harm))
        elif name == "groupCoord":
            conf = ("colvar {\n  name v0\n  groupCoord {\n    group1 {\n      atomNumbers %s\n    }\n    group2 {\n      atomNumbers %s\n    }\n    cutoff 3.0\n  }\n}\n"
                    "harmonic {\n  colvars v0\n  centers 0.5\n  forceConstant 10.0\n}" % (ids_str(ids), ids_str(oth2)))
        elif name == "hBond":
            touched = sorted(ids[:2])
            conf = ("colvar {\n  name v0\n  hBond {\n    acceptor %d\n    donor %d\n    cutoff 3.0\n  }\n}\n"
                    "harmonic {\n  colvars v0\n  centers 0.5\n  forceConstant 10.0\n}" % (ids[0] + 1, ids[1] + 1))
        elif name == "meta_nogrid":
            touched = sorted(set(ids[:2] + oth2))
            conf = ("colvar {\n  name v0\n  width 0.5\n  distance {\n    group1 {\n      atomNumbers %s\n    }\n    group2 {\n      atomNumbers %s\n    }\n  }\n}\n"
                    "metadynamics {\n  colvars v0\n  hillWeight 2.0\n  hillWidth 4.0\n  newHillFrequency 1000\n  useGrids off\n}" % (ids_str(ids[:2]), ids_str(oth2)))
            pre = "shift2"
        elif name == "opes_frozen":
            touched = sorted(set(ids[:2] + oth2))
            conf = ("colvar {\n  name v0\n  width 0.5\n  distance {\n    group1 {\n      atomNumbers %s\n    }\n    group2 {\n      atomNumbers %s\n    }\n  }\n}\n"
                    "opes_metad {\n  colvars v0\n  newHillFrequency 1000\n  barrier 5.0\n  gaussianSigma 0.75\n}" % (ids_str(ids[:2]), ids_str(oth2)))
            pre = "shift2"
        elif name == "abmd":
            touched = sorted(set(ids[:2] + oth2))
            conf = ("colvar {\n  name v0\n  distance {\n    group1 {\n      atomNumbers %s\n    }\n    group2 {\n      atomNumbers %s\n    }\n  }\n}\n"
                    "abmd {\n  colvars v0\n  forceConstant 2.0\n  stoppingValue 1000.0\n}" % (ids_str(ids[:2]), ids_str(oth2)))
            pre = "farther"
        elif name == "histogramRestraint":
            touched = sorted(set(ids[:2] + oth2))
            conf = ("colvar {\n  name v0\n  distancePairs {\n    group1 {\n      atomNumbers %s\n    }\n    group2 {\n      atomNumbers %s\n    }\n  }\n}\n"
                    "histogramRestraint {\n  colvars v0\n  lowerBoundary 0.0\n  upperBoundary 12.0\n  width 2.0\n  gaussianSigma 1.5\n  refHistogram 0.1 0.1 0.1 0.1 0.05 0.05\n  forceConstant 10.0\n}"
                    % (ids_str(ids[:2]), ids_str(oth2)))
        elif name == "distanceZ_periodic":
            touched = sorted(set(ids[:2] + oth2))
            cell = (8.0, 8.0, 8.0)
            conf = ("colvar {\n  name v0\n  distanceZ {\n    main {\n      atomNumbers %s\n    }\n    ref {\n      atomNumbers %s\n    }\n    axis (0.0, 0.0, 1.0)\n    period 8.0\n  }\n}\n"
                    "harmonic {\n  colvars v0\n  centers 3.0\n  forceConstant 2.0\n}" % (ids_str(ids[:2]), ids_str(oth2)))
        elif name in ("ev_forceNoPBC", "ev_period", "ev_distanceVec_coeff", "ev_rmsd_exp", "ev_dihedral_coeff", "ev_distancePairs_coeff"):
            # histories of run-time modifications outside the model (FD only): other live-modifiable parameters of
            # cvc::init (forceNoPBC, period/wrapAround), coefficients of vector-valued variables, exponent of rmsd,
            # a periodic variable made non-homogeneous at run time (its periodic flag goes stale)
            touched = sorted(set(ids[:2] + oth2))
            d2 = "  distance {\n    group1 {\n      atomNumbers %s\n    }\n    group2 {\n      atomNumbers %s\n    }\n  }\n" % (ids_str(ids[:2]), ids_str(oth2))
            if name == "ev_forceNoPBC":
                wrap = True
                conf = "colvar {\n  name v0\n%s}\n%s" % (d2, harm)
                script = ['scriptu cv|colvar|v0|modifycvcs|"forceNoPBC on"'] + (['scriptu cv|colvar|v0|modifycvcs|"forceNoPBC off"'] if r.random() < 0.3 else [])
            elif name == "ev_period":
                conf = ("colvar {\n  name v0\n  distanceZ {\n    main {\n      atomNumbers %s\n    }\n    ref {\n      atomNumbers %s\n    }\n    axis (0.0, 0.6, 0.8)\n%s  }\n}\n"
                        "harmonic {\n  colvars v0\n  centers 0.7\n  forceConstant 2.0\n}" % (ids_str(ids[:2]), ids_str(oth2), r.choice(["", "    period 6.0\n"])))
                script = ['scriptu cv|colvar|v0|modifycvcs|"period %r"' % r.choice([3.0, 5.0, 2.5])] + (['scriptu cv|colvar|v0|modifycvcs|"wrapAround 1.0"'] if r.random() < 0.5 else [])
            elif name == "ev_distanceVec_coeff":
                conf = "colvar {\n  name v0\n  distanceVec {\n    group1 {\n      atomNumbers %s\n    }\n    group2 {\n      atomNumbers %s\n    }\n  }\n}\nharmonic {\n  colvars v0\n  centers (1.0, 0.5, -0.5)\n  forceConstant 2.0\n}" % (ids_str(ids[:2]), ids_str(oth2))
                script = ['scriptu cv|colvar|v0|modifycvcs|"componentCoeff %r"' % r.choice([2.0, -0.5, 1.5])]
            elif name == "ev_distancePairs_coeff":
                conf = "colvar {\n  name v0\n  distancePairs {\n    group1 {\n      atomNumbers %s\n    }\n    group2 {\n      atomNumbers %s\n    }\n  }\n}\nharmonic {\n  colvars v0\n  centers (1.0, 2.0, 3.0, 4.0)\n  forceConstant 2.0\n}" % (ids_str(ids[:2]), ids_str(oth2))
                script = ['scriptu cv|colvar|v0|modifycvcs|"componentCoeff %r"' % r.choice([2.0, -0.5, 1.5])]
            elif name == "ev_rmsd_exp":
                touched = sorted(ids)
                conf = "colvar {\n  name v0\n  rmsd {\n    atoms {\n      atomNumbers %s\n    }\n    refPositions %s\n  }\n}\n%s" % (ids_str(ids), refpos_str(r, 4), harm)
                script = ['scriptu cv|colvar|v0|modifycvcs|"componentExp %d"' % r.choice([2, 3, -1])] + (['scriptu cv|colvar|v0|modifycvcs|"componentCoeff 0.5"'] if r.random() < 0.5 else [])
            else:
                touched = sorted(ids)
                conf = ("colvar {\n  name v0\n  dihedral {\n    group1 {\n      atomNumbers %d\n    }\n    group2 {\n      atomNumbers %d\n    }\n    group3 {\n      atomNumbers %d\n    }\n    group4 {\n      atomNumbers %d\n    }\n  }\n}\n"
                        "harmonic {\n  colvars v0\n  centers 150.0\n  forceConstant 0.001\n}\nharmonicWalls {\n  colvars v0\n  lowerWalls -170.0\n  upperWalls 170.0\n  lowerWallConstant 0.01\n  upperWallConstant 0.02\n}" % tuple(i + 1 for i in ids))
                script = ['scriptu cv|colvar|v0|modifycvcs|"componentCoeff %r"' % r.choice([2.0, 0.5, -1.5])] + (['scriptu cv|colvar|v0|modifycvcs|"componentExp 2"'] if r.random() < 0.4 else [])
        elif name in ("gspathCV", "gzpathCV", "aspathCV", "azpathCV"):
            # path variables in the space of other components (distance, distanceZ; coordNum computes its gradients only
            # with f_cvc_gradient, see fix-C01-4): reference values from a path file
            touched = sorted(set(ids[:3] + oth2))
            third = r.random() < 0.4
            subs = ("    distance {\n      name d1\n      group1 {\n        atomNumbers %s\n      }\n      group2 {\n        atomNumbers %s\n      }\n    }\n"
                    "    distanceZ {\n      name d2\n      main {\n        atomNumbers %d\n      }\n      ref {\n        atomNumbers %s\n      }\n      axis (0.6, 0.0, 0.8)\n    }\n"
                    % (ids_str(ids[:2]), ids_str(oth2), ids[2] + 1, ids_str(oth2)))
            if third:
                subs += ("    coordNum {\n      name d3\n      group1 {\n        atomNumbers %s\n      }\n      group2 {\n        atomNumbers %s\n      }\n      cutoff 4.0\n    }\n"
                         % (ids_str(ids[:2]), ids_str(oth2)))
            vecsub = r.random() < 0.35
            if vecsub:
                # a vector-valued sub-component has no explicit atomic gradients: the path variable then hands each
                # sub-component its share of the force through apply_force() instead of scaling stored gradients
                third = False
                subs = ("    distanceVec {\n      name d1\n      group1 {\n        atomNumbers %s\n      }\n      group2 {\n        atomNumbers %s\n      }\n    }\n"
                        "    distance {\n      name d2\n      group1 {\n        atomNumbers %d\n      }\n      group2 {\n        atomNumbers %s\n      }\n    }\n"
                        % (ids_str(ids[:2]), ids_str(oth2), ids[2] + 1, ids_str(oth2)))
            nfr = r.choice([3, 4, 5])
            rows = []
            for fr in range(nfr):
                if vecsub:
                    row = [-3.0 + 1.5 * fr + V.dyadic(r, -0.5, 0.5, bits=3), -2.0 + 1.25 * fr + V.dyadic(r, -0.5, 0.5, bits=3),
                           3.0 - 1.5 * fr + V.dyadic(r, -0.5, 0.5, bits=3), 1.0 + 1.75 * fr + V.dyadic(r, -0.5, 0.5, bits=3)]
                else:
                    row = [1.0 + 1.75 * fr + V.dyadic(r, -0.5, 0.5, bits=3), -3.0 + 1.5 * fr + V.dyadic(r, -0.5, 0.5, bits=3)]
                if third:
                    row.append(0.25 + 0.5 * fr)
                rows.append(" ".join("%r" % x for x in row))
            fname = "path_%s_%d.txt" % (name, i)
            files = {fname: "\n".join(rows) + "\n"}
            extra = ""
            if name in ("gspathCV", "gzpathCV"):
                extra = "    useSecondClosestFrame %s\n    useThirdClosestFrame %s\n" % (("on", "off") if r.random() < 0.6 else ("off", "on"))
                if name == "gzpathCV" and r.random() < 0.5:
                    extra += "    useZsquare on\n"
            else:
                extra = "    lambda %r\n" % r.choice([0.5, 1.0, 0.25])
                if r.random() < 0.5:
                    extra += "    weights %s\n" % " ".join("%r" % r.choice([1.0, 0.5, 2.0]) for _ in range(3 if third else 2))
            cen = {"gspathCV": 0.4, "gzpathCV": 1.0, "aspathCV": 0.5, "azpathCV": 2.0}[name]
            conf = ("colvar {\n  name v0\n  %s {\n%s    pathFile @FILES@/%s\n%s  }\n}\nharmonic {\n  colvars v0\n  centers %r\n  forceConstant %r\n}"
                    % (name, subs, fname, extra, cen, r.choice([2.0, 10.0, 1.0])))
        elif name in ("gspath", "gzpath", "aspath", "azpath"):
            # path variables in Cartesian space: reference frames from XYZ files, each frame fitted by its own copy of the group
            ids = sorted(ids)
            touched = list(ids)
            nfr = r.choice([3, 4])
            frame0 = [[V.dyadic(r, -3, 3, bits=3) for _ in range(3)] for _ in ids]
            drift = [[V.dyadic(r, -1, 1, bits=3) for _ in range(3)] for _ in ids]
            files = {}
            reflines = ""
            for fr in range(nfr):
                fname = "frame_%s_%d_%d.xyz" % (name, i, fr)
                L_ = ["%d" % len(ids), "frame %d" % fr]
                for p0, dv in zip(frame0, drift):
                    L_.append("X " + " ".join("%r" % (a_ + fr * b_ + V.dyadic(r, -0.25, 0.25, bits=3)) for a_, b_ in zip(p0, dv)))
                files[fname] = "\n".join(L_) + "\n"
                reflines += "    refPositionsFile%d @FILES@/%s\n" % (fr + 1, fname)
            extra = ""
            if name in ("gspath", "gzpath"):
                extra = "    useSecondClosestFrame %s\n    useThirdClosestFrame %s\n" % (("on", "off") if r.random() < 0.6 else ("off", "on"))
                if name == "gzpath" and r.random() < 0.5:
                    extra += "    useZsquare on\n"
            else:
                extra = "    lambda %r\n" % r.choice([0.5, 1.0, 0.25])
            cen = {"gspath": 0.4, "gzpath": 1.0, "aspath": 0.5, "azpath": 2.0}[name]
            conf = ("colvar {\n  name v0\n  %s {\n    atoms {\n      atomNumbers %s\n    }\n%s%s  }\n}\nharmonic {\n  colvars v0\n  centers %r\n  forceConstant %r\n}"
                    % (name, ids_str(ids), reflines, extra, cen, r.choice([2.0, 10.0, 1.0])))
        elif name == "lincomb_distanceVec":
            # vector-valued linear combination: the sub-components get their forces through apply_force()
            touched = sorted(set(ids + oth2))
            conf = ("colvar {\n  name v0\n  linearCombination {\n    distanceVec {\n      name a\n      componentCoeff 2.0\n      group1 {\n        atomNumbers %s\n      }\n      group2 {\n        atomNumbers %s\n      }\n    }\n"
                    "    distanceVec {\n      name b\n      componentCoeff -0.5\n      group1 {\n        atomNumbers %s\n      }\n      group2 {\n        atomNumbers %s\n      }\n    }\n  }\n}\n"
                    "harmonic {\n  colvars v0\n  centers (1.0, 0.5, -0.5)\n  forceConstant 2.0\n}" % (ids_str(ids[:2]), ids_str(oth2), ids_str(ids[2:]), ids_str(oth2[:1])))
        elif name == "ev_badconfig":
            # a configuration string rejected in the middle of a session (after the module, the variable's atoms and, for a
            # bias, its name counters were touched); the session goes on: forces are still minus the gradient of the energy
            touched = sorted(set(ids[:2] + oth2))
            conf = ("colvar {\n  name v0\n  distance {\n    group1 {\n      atomNumbers %s\n    }\n    group2 {\n      atomNumbers %s\n    }\n  }\n}\n%s\nharmonicWalls {\n  colvars v0\n  upperWalls 1.0\n  upperWallConstant 0.5\n}"
                    % (ids_str(ids[:2]), ids_str(oth2), harm))
            bad = r.choice(["harmonic { colvars nosuchvar centers 0.0 forceConstant 1.0 }",
                            "harmonic { colvars v0 centers 1.0 2.0 forceConstant 1.0 }",
                            "colvar { name v1 distance { group1 { atomNumbers %d } } }" % (ids[2] + 1),
                            "colvar { name v0 distance { group1 { atomNumbers 1 } group2 { atomNumbers 2 } } }",
                            "metadynamics { colvars v0 hillWeight 1.0 }",
                            "harmonic { colvars v0 centers 1.0 forceConstant 1.0 nosuchkeyword 3 }"])
            script = ["scriptu cv|config|" + bad]
            script_error_ok = True
        elif name == "antipodal_distanceDir":
            # a unit-vector variable with a restraint centred EXACTLY opposite (cut locus of the geodesic distance): the
            # energy is finite there; whatever force is applied must be finite too
            touched = sorted(ids[:2])
            ax = r.choice([(1.0, 0.0, 0.0), (0.0, -1.0, 0.0), (0.0, 0.0, 1.0), (0.6, 0.8, 0.0)])
            conf = ("colvar {\n  name v0\n  distanceDir {\n    group1 {\n      atomNumbers %d\n    }\n    group2 {\n      atomNumbers %d\n    }\n  }\n}\n"
                    "harmonic {\n  colvars v0\n  centers (%r, %r, %r)\n  forceConstant 2.0\n}" % (ids[0] + 1, ids[1] + 1, -ax[0], -ax[1], -ax[2]))
            exact = (ids[0], ids[1], ax)
        elif name == "scripted_vsum":
            # scriptedFunction through the engine's callback (vsim: vsum = sum of the component values, gradient 1)
            touched = sorted(set(ids[:3] + oth2))
            conf = ("colvar {\n  name v0\n  scriptedFunction vsum\n  distance {\n    componentCoeff 3.0\n    group1 {\n      atomNumbers %s\n    }\n    group2 {\n      atomNumbers %s\n    }\n  }\n"
                    "  distanceZ {\n    main {\n      atomNumbers %d\n    }\n    ref {\n      atomNumbers %s\n    }\n    axis (0.6, 0.0, 0.8)\n  }\n}\n%s"
                    % (ids_str(ids[:2]), ids_str(oth2), ids[2] + 1, ids_str(oth2), harm))
        elif name == "dihedral_walls":
            touched = sorted(ids)
            conf = ("colvar {\n  name v0\n  dihedral {\n    group1 {\n      atomNumbers %d\n    }\n    group2 {\n      atomNumbers %d\n    }\n    group3 {\n      atomNumbers %d\n    }\n    group4 {\n      atomNumbers %d\n    }\n  }\n}\n"
                    "harmonicWalls {\n  colvars v0\n  lowerWalls -170.0\n  upperWalls 170.0\n  lowerWallConstant 0.01\n  upperWallConstant 0.02\n}\n"
                    "harmonic {\n  colvars v0\n  centers 150.0\n  forceConstant 0.001\n}" % tuple(i + 1 for i in ids))
        else:  # mapTotal is not available without a volumetric map: use a second polynomial instead
            name = "poly_two_biases"
            touched = sorted(set(ids[:2] + oth2))
            conf = ("colvar {\n  name v0\n  distance {\n    componentExp 2\n    componentCoeff 0.5\n    group1 {\n      atomNumbers %s\n    }\n    group2 {\n      atomNumbers %s\n    }\n  }\n"
                    "  distanceZ {\n    componentCoeff -1.5\n    main {\n      atomNumbers %s\n    }\n    ref {\n      atomNumbers %s\n    }\n  }\n}\n%s\nlinear {\n  colvars v0\n  centers 0.0\n  forceConstant -0.5\n}"
                    % (ids_str(ids[:2]), ids_str(oth2), ids_str(ids[2:]), ids_str(oth2), harm))
        c = raw_case(r, full_name, na, conf, touched, cell=cell)
        if exact:
            a0, a1, ax = exact
            at = list(c["atoms"])
            p0 = tuple(V.dyadic(r, -2, 2, bits=3) for _ in range(3))
            ln_ = r.choice([1.0, 2.5, 5.0])
            at[a0] = (at[a0][0], at[a0][1], p0)
            at[a1] = (at[a1][0], at[a1][1], tuple(x + ln_ * u for x, u in zip(p0, ax)))
            c["atoms"] = at
            c["nofd"] = True
        if rst:
            # state saved, fresh instance with changed legal options, state loaded (kernels / hills keep their own widths)
            confB = conf
            for old_, new_ in (("hillWidth 4.0", "hillWidth %r" % r.choice([2.0, 8.0])), ("hillWeight 2.0", "hillWeight 0.5"),
                               ("gaussianSigma 0.75", "gaussianSigma %r" % r.choice([1.5, 0.375])), ("barrier 5.0", "barrier 8.0"),
                               ("forceConstant 2.0", "forceConstant 5.0")):
                confB = confB.replace(old_, new_)
            if name == "meta_nogrid" and r.random() < 0.5:
                confB = confB.replace("width 0.5", "width 1.0")
            c["restart"] = {"raw_config": confB, "fmt": r.choice(["text", "binary", "textstr", "binarybuf"])}
        if script:
            c["script"] = script
            if script_error_ok:
                c["script_error_ok"] = True
        if files:
            c["files"] = files
        if wrap:
            # a periodic cell in which some of the named atoms sit in other images: centre / pair differences wrap
            c["cell"] = tuple(r.choice([8.0, 10.0, 12.0]) for _ in range(3))
            base_at = list(c["atoms"])
            for attempt in range(120):
                at = list(base_at)
                moved = False
                for a in touched:
                    if r.random() < 0.5 or (not moved and a == touched[-1]):
                        m_, q_, p_ = at[a]
                        sh = [r.choice([-1, 0, 1]) for _ in range(3)]
                        if not any(sh):
                            sh[r.randrange(3)] = r.choice([-1, 1])
                        at[a] = (m_, q_, tuple(x + n_ * L + (V.dyadic(r, -0.5, 0.5, bits=6) if attempt else 0.0) for x, n_, L in zip(p_, sh, c["cell"])))
                        moved = True
                # no pair of named atoms exactly on (or within 0.03 cell edges of) a cut of the minimum image: dyadic
                # coordinates do hit L/2 exactly, where the distance has a cusp that central differences do not see
                okc = True
                for ia in touched:
                    for ib in touched:
                        if ia < ib:
                            for kk in range(3):
                                y = (at[ib][2][kk] - at[ia][2][kk]) / c["cell"][kk] + 0.5
                                if min(y - math.floor(y), math.floor(y) + 1 - y) < 0.015:
                                    okc = False
                if okc:
                    break
            c["atoms"] = at
            if not okc:
                continue        # no cut-free placement found: drop the case rather than risk an undetectable cusp
        if pre == "shift2":
            # hills are deposited when step_absolute % 1000 == 0 and step_relative > 0: start at step 999, so that the
            # second pre-step (at a slightly different configuration) deposits the only hill / kernel
            c["setstep"] = r.choice([999, 999, 2999999999, 4294967295999, 9007199254740999, 4611686018427386999])
            c["temperature"] = 300.0
            c["restartfreq"] = 100000     # OPES divides by the restart frequency (0 is the subject of C10, not of this check)
            if c.get("restartfreq_override"):
                # OPES writes the snapshot of its kernels taken at the last multiple of the restart frequency: the state
                # is saved at step 1001 (two pre-steps from 999, one warm-up step), so make that step such a multiple
                c["restartfreq"] = c.pop("restartfreq_override")
            c["presteps"] = [[(a, tuple(x + V.dyadic(r, -0.25, 0.25, bits=4) for x in c["atoms"][a][2])) for a in touched] for _ in range(2)]
        elif pre == "farther":
            # ABMD: first step with the groups farther apart sets the reference; the base step is then below it
            g1 = ids[:2]
            c["presteps"] = [[(a, tuple(x * 3.0 + (20.0 if kk == 0 else 0.0) for kk, x in enumerate(c["atoms"][a][2]))) for a in g1]]
        out.append(c)
    return out


# ------------------------------------------------------------------------------------------------
# the check
# ------------------------------------------------------------------------------------------------
def setup():
    V.extract_model("C01", EXTRACT, DRIVER, ["ocaml/fops.ml"])
    V.build_prog("vsim_c01", PROGS["vsim_c01"])


def load_corpus():
    out = []
    d = os.path.join(V.ROOT, "corpus")
    if os.path.isdir(d):
        for f in sorted(os.listdir(d)):
            if f.startswith("C01_") and f.endswith(".json"):
                try:
                    c = json.load(open(os.path.join(d, f)))
                    c["corpus"] = f
                    out.append(untuple(c))
                except Exception:
                    pass
    return out


def untuple(c):
    return c


def compare_case(run, case, res, mline, mout):
    """tie: implementation vs model on the base step"""
    comp = ("history:" if case.get("events") else "") + ("restart:" if case.get("restart") else "") + ":".join(sorted(set(c["kind"] for v in case["vars"] for c in v["cvcs"])))
    if res is None or res.get("config") is None or "err=ok" not in res["config"]:
        run.mismatch(comp, {"config": config_text(case)}, res and res.get("config"), "the model accepts this configuration")
        return False
    npre = npre_steps(case)
    if len(res["steps"]) <= npre or "energy" not in res["steps"][npre]:
        run.mismatch(comp, {"config": config_text(case)}, "no step output (rc=%s %s)" % (res.get("rc"), res.get("stderr", "")), mout)
        return False
    base = res["steps"][npre]
    if case.get("restart"):
        for b in case["biases"]:
            if b["type"] == "abmd":
                # the text state keeps 14 digits of the reference: when the warm-up step left the reference AT the variable, the
                # loaded reference differs from it in the last digits and a force of that size appears; no verdict there
                try:
                    i_ = b["terms"][0][0]
                    ref_ = abmd_ref(b, [p_["v%d" % i_][0] for p_ in pre_values(case, res, True)])
                    x_ = base["cv"]["v%d" % i_][0]
                    if abs(x_ - ref_) <= 1e-9 * max(1.0, abs(ref_)):
                        run.dist("tie:restart-abmd-at-its-reference")
                        return True
                except Exception:
                    pass
    if any("err=ok" not in ln for ln in res.get("script", [])):
        run.mismatch(comp, {"config": config_text(case), "events": event_lines(case)}, "a script call of the history failed: %r" % res.get("script"), mout)
        return False
    w = mout.split()
    if not w or w[0] != "E":
        run.mismatch(comp, {"line": mline}, base.get("energy"), mout)
        return False
    try:
        ia = w.index("A"); iv = w.index("V"); jf = w.index("F")
        me = float.fromhex(w[1]); msc = float.fromhex(w[3]); ma = [float.fromhex(t) for t in w[ia + 1:iv]]
        mv = [float.fromhex(t) for t in w[iv + 1:jf]]; mf = [float.fromhex(t) for t in w[jf + 1:]]
    except ValueError:
        run.mismatch(comp, {"line": mline}, base.get("energy"), mout)
        return False
    ok = True
    bad = []
    mi = 0
    for i, v in enumerate(case["vars"]):
        x = base["cv"].get("v%d" % i)
        n = 1
        if v.get("vec") == "pairs":
            n = len(v["cvcs"][0]["groups"][0]["ids"]) * len(v["cvcs"][0]["groups"][1]["ids"])
        elif v.get("vec"):
            n = 3
        per = var_period(v) if n == 1 else 0.0
        if per and x and len(x) == 1 and case.get("events"):
            # colvar::wrap brings the value of a variable flagged periodic into one period; the model's value is the
            # plain sum (the restraint metric is periodic in both): compare modulo the period
            d_ = (x[0] - mv[mi]) / per
            x = [x[0] - round(d_) * per]
        if not x or len(x) != n or not all(close(a, b, TOL_TIE) for a, b in zip(x, mv[mi:mi + n])):
            bad.append("value v%d impl=%r model=%r" % (i, x, mv[mi:mi + n]))
        # the force applied to the variable (colvar::applied_force(), what outputAppliedForce writes) = the model's sum of
        # the biases' forces on it; sums of bias forces may cancel: tolerance relative to the largest element
        af = (base.get("af") or {}).get("v%d" % i)
        maf = ma[mi:mi + n]
        asc = max([1.0] + [abs(t_) for t_ in maf])
        if case.get("restart") and x:
            # a text state keeps 14 digits of hill centres / references: for a variable of size |x| the loaded centre is off
            # by 1e-14 |x|, and so is the force of a hill the variable sits exactly on
            asc = max([asc] + [1e-3 * abs(t_) for t_ in x])
        if not af or len(af) != n or not all(close(a, b, TOL_TIE, asc) for a, b in zip(af, maf)):
            bad.append("applied force on v%d impl=%r model=%r" % (i, af, maf))
        mi += n
    escale = max(1.0, abs(me))
    if not close(base["energy"], me, TOL_TIE):
        bad.append("energy impl=%r model=%r" % (base["energy"], me))
    # forces are sums of contributions that may cancel: the tolerance is relative to the largest contribution
    fscale = max([1.0, msc] + [abs(x) for x in mf])
    for a in range(len(case["atoms"])):
        fi = base["atomf"].get(a, [0.0, 0.0, 0.0])
        fm = mf[3 * a:3 * a + 3]
        if not all(close(x, y, TOL_TIE, fscale) for x, y in zip(fi, fm)):
            bad.append("force on atom %d impl=%r model=%r" % (a + 1, fi, fm))
    if bad:
        run.mismatch(comp, {"config": config_text(case), "atoms": case["atoms"], "cell": case.get("cell"), "model_line": mline},
                     "; ".join(bad[:4]), mout[:300])
        ok = False
    return ok


def check(run):
    r = V.rng("C01")
    quick = run.tier == "quick"
    run.cov["rule"] = ("random systems of 4-10 atoms (dyadic coordinates, positive dyadic masses, charges), 1-2 polynomial variables of 1-2 components "
                       "(distance, distanceZ fixed/two-point axis, distanceXY fixed/two-point axis, distanceInv, gyration, inertia, inertiaZ, angle, coordNum, selfCoordNum, "
                       "dihedral, dipoleMagnitude, dipoleAngle, polarTheta, polarPhi) x group options (overlapping mass-weighted groups, dummy atoms, centerToReference/"
                       "centerToOrigin with and without fittingGroup, forceNoPBC, orthorhombic cell) x componentCoeff/componentExp x 1-2 biases (harmonic, harmonicWalls, linear), "
                       "rejection-sampled away from singular geometries; distinct = distinct (components with their group options, biases, cell) key; "
                       "non-trivial = some applied force is non-zero and every FD coordinate was decided")
    run.assumptions += [
        "theorems are over the R instance of the model; the tie runs the float instance and compares energy, variable values and all atomic forces with relative tolerance 1e-9",
        "the finite-difference oracle (Richardson, h = 2^-11 and 2^-12, relative tolerance 2e-6) is run on the implementation alone; cases where the two step sizes disagree or a variable is within 0.05 of a wall are counted as boundary-ambiguous and skipped",
        "the optimal rotation (rotateToReference) and its derivative are not modelled; rotated frames, rmsd, orientation*, tilt, spinAngle, euler angles, vector-valued variables and history-dependent biases are covered by the finite-difference oracle only (thorough tier)",
        "enableFitGradients off is a documented user-chosen approximation: such cases are tied to the model but excluded from the finite-difference oracle",
    ]
    st = V.standard_start(run, PROP, EXTRACT, DRIVER, PROGS)
    if st is None:
        return
    model, exes = st
    vsim = exes["vsim_c01"]

    opts = {"dummy": True, "center": True, "poly": True, "cell": True, "nofitgrad": True, "vec": 0.12, "pairs": 0.08, "hist": 0.2, "histr": 0.1, "events": 0.15, "moving": 0.1, "restart": 0.08, "biases": ["harmonic", "harmonic", "walls", "linear"]}
    kinds = T1 + T1 + T2
    ncases = 500 if quick else 40000
    cases = load_corpus()
    # first block: each component alone under a harmonic restraint, plain groups (the (a) deliverable)
    plain = {"dummy": False, "center": False, "poly": False, "cell": False, "biases": ["harmonic"]}
    vplain = dict(plain, vec=1.0)
    for _ in range(4 if quick else 40):
        c = gen_case(r, ["distance"], vplain)
        if c:
            cases.append(c)
    pplain = dict(plain, pairs=1.0, cell=True, histr=0.4, biases=["harmonic", "linear"])
    for _ in range(8 if quick else 80):
        c = gen_case(r, ["distance"], pplain)
        if c:
            cases.append(c)
    for k in T1 + T2:
        for _ in range(2 if quick else 20):
            c = gen_case(r, [k], plain)
            if c:
                cases.append(c)
    # histories of run-time modifications (modifycvcs componentCoeff / componentExp, cvcflags) on every kind of component
    hopts = dict(opts, events=1.0, hist=0.0, vec=0.0, pairs=0.0)
    for k in T1 + T2:
        for _ in range(2 if quick else 60):
            c = gen_case(r, [k], hopts)
            if c:
                cases.append(c)
    while len(cases) < ncases:
        c = gen_case(r, kinds, opts)
        if c:
            cases.append(c)
    for c in cases:
        if any((not g.get("fitgrad", True)) and g.get("center") and not g["center"].get("implicit") for v in c["vars"] for cv in v["cvcs"] for g in cv["groups"]):
            c["nofd"] = True

    results = run_vsim(vsim, cases)
    mlines = []
    for c, res0 in zip(cases, results):
        try:
            mlines.append(model_line(c, res0))
        except Exception:
            mlines.append("0 0 0 0")        # the implementation produced no pre-step values: reported by the tie below
    rcm, mouts, em = V.run_lines(model, mlines, timeout=900)
    if len(mouts) != len(mlines):
        raise V.InfraError("C01 model driver died: rc=%d %s" % (rcm, em[-500:]))

    n_amb = 0
    n_fd = 0
    reported = set()

    def run_one(cand):
        res1 = run_vsim(vsim, [cand])[0]
        if res1 is None or not res1.get("steps"):
            return "ambiguous", None, res1
        s, d = fd_check(cand, res1)
        return s, d, res1

    for ci, (case, res, ml, mo) in enumerate(zip(cases, results, mlines, mouts)):
        key = case_key(case)
        run.dist("kinds:" + "+".join(sorted(set(c["kind"] for v in case["vars"] for c in v["cvcs"]))))
        for b in case["biases"]:
            run.dist("bias:" + b["type"])
        if history_label(case):
            run.dist(history_label(case))
        if case.get("restart"):
            for b in case["biases"]:
                run.dist("restart:%s:%s" % (b["type"], case["restart"]["fmt"]))
        for b in case["biases"]:
            if b.get("moving"):
                run.dist("moving:%s:%s%s" % (b["type"], "centers" if b["moving"].get("tc") is not None else "forceConstant",
                                             ":staged%d:after%d" % (b["moving"]["stages"], b["moving"]["K"]) if b["moving"].get("stages") else ""))
        if res is not None and not res.get("done") and res.get("config") and "err=ok" in res["config"]:
            run.violation("crash:" + signature(case)[3:], "the engine simulator died (rc=%s) on a generated configuration: %s" % (res.get("rc"), res.get("stderr", "")[-200:]),
                          {"kind": "scenario", "scenario": scenario(case, "0")})
            run.count(key, False)
            continue
        tie_ok = compare_case(run, case, res, ml, mo)
        nontriv = False
        if res is not None and res.get("steps"):
            npre = npre_steps(case)
            if len(res["steps"]) > npre:
                base = res["steps"][npre]
                nontriv = any(abs(x) > 1e-9 for f in base["atomf"].values() for x in f)
                if case.get("nofd"):
                    run.dist("fd:skipped-enableFitGradients-off")
                elif walls_ambiguous(case, base, res):
                    n_amb += 1
                    run.dist("fd:boundary-ambiguous")
                    nontriv = False
                else:
                    s, d = fd_check(case, res)
                    if s == "ambiguous":
                        n_amb += 1
                        run.dist("fd:boundary-ambiguous")
                        nontriv = False
                    elif s == "fail":
                        sig = signature(case)
                        if sig not in reported:
                            reported.add(sig)
                            small = shrink_fd(vsim, case, run_one)
                            s2, d2, res2 = run_one(small)
                            if s2 != "fail":
                                small, d2 = case, d
                            run.violation(signature(small), "the force on atom %(atom)d along %(axis)s is %(force)r but minus the finite-difference derivative of the reported energy is %(minus_dE_dx)r (relative error %(rel_err).3g)" % d2
                                          + ((" after the run-time modifications " + "; ".join(event_lines(small))) if event_lines(small) else "")
                                          + " for: " + config_text(small).replace("\n", " ")[:300],
                                          {"kind": "fd", "case": small, "detail": d2})
                    else:
                        n_fd += 1
                        run.dist("fd:ok")
        run.count(key, nontriv and tie_ok)
        if ci < 3:
            run.sample({"config": config_text(case), "atoms": case["atoms"], "cell": case.get("cell"),
                        "impl_energy": res and res["steps"] and res["steps"][0].get("energy"), "model": mo[:200]})
    run.cov["correspondence"].update({"cases": len(cases), "fd_decided": n_fd, "boundary_ambiguous": n_amb})

    # ---- finite-difference sweep over configurations the model does not cover (a few per kind in the quick tier)
    if True:
        ur = V.rng("C01-unmodelled")
        ucases = gen_unmodelled(ur, 213 if quick else 6000)
        ures = run_vsim(vsim, ucases)
        for case, res in zip(ucases, ures):
            name = case["name"]
            run.dist("unmodelled:" + name)
            if res is None or res.get("config") is None:
                run.dist("unmodelled-not-run:" + name)
                continue
            if "err=ok" not in res["config"]:
                run.dist("unmodelled-config-rejected:" + name)
                continue
            if any("err=ok" not in ln for ln in res.get("script", [])) and not case.get("script_error_ok"):
                run.dist("unmodelled-script-rejected:" + name)
                continue
            if case.get("script_error_ok"):
                run.dist("unmodelled:%s:%s" % (name, "rejected" if any("err=ok" not in ln for ln in res.get("script", [])) else "accepted"))
            if not res.get("done"):
                run.violation("crash:" + name, "the engine simulator died on an accepted configuration (%s)" % name,
                              {"kind": "scenario", "scenario": scenario(case, "0")})
                continue
            npre = npre_steps(case)
            if len(res["steps"]) > npre and "err=ok" in res["steps"][npre].get("err", "") and \
               any(math.isnan(x) or math.isinf(x) for f in res["steps"][npre]["atomf"].values() for x in f):
                run.violation("nonfinite-force:" + name, "unmodelled configuration %s: the step reports no error and an energy of %r but hands non-finite forces to the engine: %r"
                              % (name, res["steps"][npre].get("energy"), res["steps"][npre]["atomf"]), {"kind": "fd", "case": case, "detail": {}})
                continue
            if case.get("nofd"):
                run.dist("unmodelled-ok:" + name + ":finite-forces")
                continue
            s, d = fd_check(case, res)
            base = res["steps"][npre]
            nz = any(abs(x) > 1e-9 for f in base["atomf"].values() for x in f)
            run.count("unmodelled:" + name, s == "ok" and nz)
            if s == "ambiguous":
                run.dist("unmodelled-ambiguous:" + name)
            elif s == "fail":
                sig = "fd:" + name
                if name.startswith("opes_frozen") and d["rel_err"] < 2e-3:
                    # colvarbias_opes::evaluateKernel differentiates h*(exp(-d2/2) - c) as -val*d/sigma (the constant c is kept in
                    # the derivative: forces vanish continuously at the kernel cut-off); a larger discrepancy is a different defect
                    sig = "fd:opes_frozen:cutoff-term-omitted"
                run.violation(sig, "unmodelled configuration %s: the force on atom %d along %s is %r but minus the finite-difference derivative of the reported energy is %r (relative error %.3g)"
                              % (name, d["atom"], d["axis"], d["force"], d["minus_dE_dx"], d["rel_err"]), {"kind": "fd", "case": case, "detail": d})
            else:
                run.dist("unmodelled-ok:" + name + (":nonzero" if nz else ":zero-force"))


def replay(path):
    j = json.load(open(path))
    print(json.dumps(j, indent=1)[:4000])
    rp = j["replay"]
    vsim = V.build_prog("vsim_c01", PROGS["vsim_c01"])
    if rp.get("kind") == "fd":
        case = rp["case"]
        res = run_vsim(vsim, [case])[0]
        print("config:\n" + config_text(case))
        print("base step:", json.dumps(res["steps"][npre_steps(case)], indent=1)[:3000])
        print("finite-difference verdict:", fd_check(case, res))
        if "vars" in case:
            model = V.extract_model("C01", EXTRACT, DRIVER, ["ocaml/fops.ml"])
            print("model:", V.run_lines(model, [model_line(case, res)])[1])
    elif rp.get("kind") == "scenario":
        rc, out, err = V.run_lines(vsim, rp["scenario"])
        print("\n".join(out[-40:]), err[-500:])
    return 0
