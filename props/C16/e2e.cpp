// C16 end-to-end driver: the engine simulator plus `divcheck <abf bias>`: prints the gradient/count grids and the
// divergence array that colvarbias_abf::update() maintained incrementally through pmf->update_div_neighbors, then
// calls set_div() and prints the divergence recomputed from scratch (read-only otherwise; call it AFTER post_run).
#include <cstdio>
#include <cstdlib>
#include <cstring>
#include <cmath>
#include <iostream>
#include <fstream>
#include <sstream>
#include <string>
#include <vector>
#include <map>
#include <algorithm>
#include <functional>
#include <thread>
#include <mutex>
#include <memory>
#include <list>
#define private public
#define protected public
#include "colvarmodule.h"
#include "colvar.h"
#include "colvarbias.h"
#include "colvarbias_abf.h"
#include "colvargrid.h"
#undef private
#undef protected
#include "vsim.h"

struct c16_session : public vsim_session {
  c16_session(std::ostream *o) : vsim_session(o) {}
  bool exec_extra(std::string const &cmd, std::vector<std::string> const &a, std::istream &) override
  {
    std::ostream &o = *out;
    if (cmd == "divcheck") {
      colvarbias_abf *abf = dynamic_cast<colvarbias_abf *>(cvm::main()->bias_by_name(a[0]));
      // `divcheck <bias> local`: the LOCAL grids and local_pmf of a shared-ABF walker instead of the collected ones
      const bool local = a.size() > 1 && a[1] == "local";
      if (!abf || !abf->pmf || (local && !abf->local_pmf) || abf->pmf->nd < 2) { o << "DIVCHECK none\n"; return true; }
      integrate_potential *pmf = local ? abf->local_pmf.get() : abf->pmf.get();
      colvar_grid_gradient *grad = local ? abf->local_gradients.get() : abf->gradients.get();
      colvar_grid_count *cnt = local ? abf->local_samples.get() : abf->samples.get();
      o << (local ? "DIVCHECK-LOCAL " : "DIVCHECK ") << pmf->nd;
      for (size_t i = 0; i < pmf->nd; i++) o << " " << (grad->periodic[i] ? 1 : 0);
      for (size_t i = 0; i < pmf->nd; i++) o << " " << grad->nx[i];
      for (size_t i = 0; i < pmf->nd; i++) o << " " << vs_hex(grad->widths[i]);
      o << " |";
      for (size_t k = 0; k < grad->data.size(); k++) o << " " << vs_hex(grad->data[k]);
      o << " |";
      for (size_t k = 0; k < cnt->data.size(); k++) o << " " << cnt->data[k];
      o << " |";
      for (size_t k = 0; k < pmf->divergence.size(); k++) o << " " << vs_hex(pmf->divergence[k]);
      pmf->set_div();
      o << " |";
      for (size_t k = 0; k < pmf->divergence.size(); k++) o << " " << vs_hex(pmf->divergence[k]);
      o << "\n";
      return true;
    }
    return false;
  }
};

int main(int argc, char **argv)
{
  c16_session s(&std::cout);
  if (argc > 1 && std::string(argv[1]) != "-") {
    std::ifstream f(argv[1]);
    if (!f) { std::cerr << "cannot open " << argv[1] << "\n"; return 2; }
    s.run(f);
  } else {
    s.run(std::cin);
  }
  std::cout.flush();
  return 0;
}
