// C16 unit driver: builds a colvar_grid_gradient (+ optional colvar_grid_count) by hand, constructs the real
// integrate_potential from it and calls integrate (nd==1), acc_force + update_div_neighbors, set_div,
// atimes and the conjugate-gradient solve on the same case lines as the model driver.
#include <cstdio>
#include <cstdlib>
#include <cstring>
#include <cmath>
#include <cstdint>
#include <iostream>
#include <fstream>
#include <sstream>
#include <iomanip>
#include <string>
#include <vector>
#include <list>
#include <map>
#include <set>
#include <unordered_map>
#include <unordered_set>
#include <algorithm>
#include <functional>
#include <numeric>
#include <limits>
#include <memory>
#include <thread>
#include <mutex>
#include <random>
#include <typeinfo>
#include <stdexcept>
#include <cassert>
#include <ctime>
#include <omp.h>
// read-only access to integrate_potential::divergence / atimes (protected): no hook in /repo needed
#define private public
#define protected public
#include "vsim.h"
#include "colvargrid.h"
#include "colvargrid_def.h"
#undef private
#undef protected

static double num(std::string const &s) { return strtod(s.c_str(), NULL); }

static void hexout(std::ostream &os, double x) { char b[64]; snprintf(b, sizeof b, "%a", x); os << b; }

struct grids {
  std::shared_ptr<colvar_grid_count> cnt;
  std::shared_ptr<colvar_grid_gradient> grad;
  std::unique_ptr<integrate_potential> pmf;
};

// gradient grid of nd variables with nxg points, widths w, periodic flags; lower boundary 0
static void make(grids &G, int nd, std::vector<int> const &per, std::vector<int> const &nxg,
                 std::vector<double> const &w, bool has_samples, bool smoothed, int min_s, int full_s)
{
  G.grad.reset(new colvar_grid_gradient());
  G.grad->setup(nxg, 0.0, nd);
  for (int i = 0; i < nd; i++) {
    G.grad->widths.push_back(w[i]);
    G.grad->periodic.push_back(per[i] != 0);
    G.grad->lower_boundaries.push_back(colvarvalue(0.0));
    G.grad->upper_boundaries.push_back(colvarvalue(nxg[i] * w[i]));
  }
  G.grad->min_samples = min_s;
  G.grad->full_samples = full_s;
  if (has_samples) {
    G.cnt.reset(new colvar_grid_count());
    G.cnt->setup(nxg, 0, 1);
    for (int i = 0; i < nd; i++) {
      G.cnt->widths.push_back(w[i]);
      G.cnt->periodic.push_back(per[i] != 0);
      G.cnt->lower_boundaries.push_back(colvarvalue(0.0));
      G.cnt->upper_boundaries.push_back(colvarvalue(nxg[i] * w[i]));
    }
    G.grad->samples = G.cnt;
  }
  G.pmf.reset(new integrate_potential(G.grad));
  G.pmf->b_smoothed = smoothed;
}

int main(int argc, char **argv)
{
  vsim_engine eng; eng.resize(1);
  vsim_proxy *proxy = new vsim_proxy(&eng, true);   // the grid classes need cvm::main()
  std::string line;
  while (std::getline(std::cin, line)) {
    std::istringstream is(line);
    std::string cmd; if (!(is >> cmd)) continue;
    std::vector<std::string> a; std::string tok; while (is >> tok) a.push_back(tok);
    size_t p = 0;
    auto nf = [&]() { return num(a[p++]); };
    auto ni = [&]() { return atoi(a[p++].c_str()); };
    std::ostream &os = std::cout;
    if (cmd == "ONED") {
      // ONED per has_samples smoothed min full n w data(n) counts(n)
      int per = ni(), hs = ni(), sm = ni(), mins = ni(), fulls = ni(), n = ni();
      double w = nf();
      grids G;
      make(G, 1, std::vector<int>(1, per), std::vector<int>(1, n), std::vector<double>(1, w), hs != 0, sm != 0, mins, fulls);
      for (int i = 0; i < n; i++) G.grad->data[i] = nf();
      for (int i = 0; i < n; i++) { int c = ni(); if (hs) G.cnt->data[i] = (size_t) c; }
      double err = 0;
      G.pmf->integrate(100, 1e-6, err, false);
      os << G.pmf->nt;
      for (size_t i = 0; i < G.pmf->nt; i++) { os << " "; hexout(os, G.pmf->data[i]); }
      os << "\n";
    } else if (cmd == "TI1D" || cmd == "TI1DG") {
      // TI1DG: the count grid gets a custom geometry ("widths w lower_boundaries w upper_boundaries w+n*w") that differs from
      // the colvar's (width 2w, from 0): the gradient grid built on it must follow, and the integral use the GRID's width/origin
      const bool custom = (cmd == "TI1DG");
      // TI1D per has_samples min full n w data(n) counts(n): colvar_grid_gradient::write_1D_integral (the .ti.pmf
      // writer) on grids constructed from a real colvar (distanceZ, optionally periodic with period n*w)
      int per = ni(), hs = ni(), mins = ni(), fulls = ni(), n = ni();
      double w = nf();
      std::ostringstream cfg; cfg.precision(17);
      cfg << "colvar {\n name z\n width " << (custom ? 2 * w : w) << "\n lowerBoundary 0\n upperBoundary " << (custom ? 2 * w * ((n + 3) / 2) : n * w)
          << "\n distanceZ {\n main {\n atomNumbers 1\n }\n ref {\n dummyAtom (0.0, 0.0, 0.0)\n }\n axis (0.0, 0.0, 1.0)\n";
      if (per) cfg << " period " << n * w << "\n";
      cfg << " }\n}\n";
      cvm::main()->read_config_string(cfg.str());
      std::vector<colvar *> cvs = *(cvm::main()->variables());
      if (cvs.size() != 1 || cvm::get_error()) { os << "ERR colvar " << proxy->errtext.substr(0, 200) << "\n"; }
      else {
        std::shared_ptr<colvar_grid_count> cnt;
        std::ostringstream gc; gc.precision(17);
        gc << "widths " << w << "\nlower_boundaries " << w << "\nupper_boundaries " << w + n * w << "\n";
        if (hs || custom) cnt.reset(custom ? new colvar_grid_count(cvs, gc.str()) : new colvar_grid_count(cvs));
        std::shared_ptr<colvar_grid_gradient> g(new colvar_grid_gradient(cvs, cnt));
        if (custom && !hs) { g->samples.reset(); }      // geometry taken from the count grid, no normalisation by counts
        g->min_samples = mins; g->full_samples = fulls;
        if ((int) g->nx[0] != n || (bool) g->periodic[0] != (per != 0)) {
          os << "ERR grid nx=" << g->nx[0] << " periodic=" << g->periodic[0] << "\n";
        } else {
          for (int i = 0; i < n; i++) g->data[i] = nf();
          for (int i = 0; i < n; i++) { int c = ni(); if (hs && i < (int) cnt->data.size()) cnt->data[i] = (size_t) c; }
          std::ostringstream txt;
          g->write_1D_integral(txt);
          std::istringstream rd(txt.str());
          std::string l; std::vector<double> xi, av;
          while (std::getline(rd, l)) {
            if (l.empty() || l[0] == '#') continue;
            std::istringstream ls(l); double a, b; if (ls >> a >> b) { xi.push_back(a); av.push_back(b); }
          }
          os << av.size();
          for (size_t i = 0; i < av.size(); i++) { os << " "; hexout(os, av[i]); }
          os << " |";
          for (size_t i = 0; i < xi.size(); i++) { os << " "; hexout(os, xi[i]); }
          os << "\n";
        }
      }
      cvm::main()->reset();
    } else if (cmd == "DIV" || cmd == "SOLVE" || cmd == "SOLVE2") {
      // DIV nd per(nd) nxg(nd) w(nd) has_samples smoothed min full npre nev (bin(nd) force(nd))*(npre+nev)
      // the first npre arrivals are accumulated without divergence update and followed by set_div
      // (data read from files at start-up); the next nev go through acc_force + update_div_neighbors.
      int nd = ni();
      std::vector<int> per(nd), nxg(nd); std::vector<double> w(nd);
      for (int i = 0; i < nd; i++) per[i] = ni();
      for (int i = 0; i < nd; i++) nxg[i] = ni();
      for (int i = 0; i < nd; i++) w[i] = nf();
      int hs = ni(), sm = ni(), mins = ni(), fulls = ni(), npre = ni(), nev = ni();
      grids G;
      make(G, nd, per, nxg, w, hs != 0, sm != 0, mins, fulls);
      std::vector<int> b(nd); std::vector<double> f(nd);
      for (int e = 0; e < npre + nev; e++) {
        for (int i = 0; i < nd; i++) b[i] = ni();
        for (int i = 0; i < nd; i++) f[i] = nf();
        G.grad->acc_force(b, f.data());
        if (e >= npre) G.pmf->update_div_neighbors(b);
        if (e == npre - 1) G.pmf->set_div();
      }
      std::vector<double> inc = G.pmf->divergence;
      G.pmf->set_div();
      if (cmd == "DIV") {
        os << G.pmf->nt;
        for (size_t i = 0; i < inc.size(); i++) { os << " "; hexout(os, inc[i]); }
        os << " |";
        for (size_t i = 0; i < G.pmf->divergence.size(); i++) { os << " "; hexout(os, G.pmf->divergence[i]); }
        os << "\n";
      } else {
        // SOLVE: same input followed by itmax tol; prints iter err | divergence | solution
        int itmax = ni(); double tol = nf();
        double err = -1.0;
        int iter = G.pmf->integrate(itmax, tol, err, false);
        if (cmd == "SOLVE2") {
          // a second call on unchanged data, starting from the first solution (projected ABF, successive outputs)
          iter = G.pmf->integrate(itmax, tol, err, false);
        }
        os << G.pmf->nt << " " << iter << " "; hexout(os, err);
        os << " |";
        for (size_t i = 0; i < G.pmf->divergence.size(); i++) { os << " "; hexout(os, G.pmf->divergence[i]); }
        os << " |";
        for (size_t i = 0; i < G.pmf->nt; i++) { os << " "; hexout(os, G.pmf->data[i]); }
        os << "\n";
      }
    } else if (cmd == "ATIMES") {
      // ATIMES nd per(nd) nxp(nd) w(nd) A(nt)      nxp = sizes of the PMF grid
      int nd = ni();
      std::vector<int> per(nd), nxp(nd), nxg(nd); std::vector<double> w(nd);
      for (int i = 0; i < nd; i++) per[i] = ni();
      for (int i = 0; i < nd; i++) { nxp[i] = ni(); nxg[i] = per[i] ? nxp[i] : nxp[i] - 1; }
      for (int i = 0; i < nd; i++) w[i] = nf();
      grids G;
      cvm::clear_error();
      make(G, nd, per, nxg, w, false, false, 0, 1);
      if (cvm::get_error()) {
        // the constructor refused the shape (input error): integrate() must not touch anything either
        double err = -1.0; std::vector<double> before = G.pmf->data;
        int it = G.pmf->integrate(10, 1e-6, err, false);
        os << "REFUSED " << vs_errclass(cvm::get_error()) << " iter=" << it << " err=" << err
           << " data_untouched=" << (before == G.pmf->data) << "\n";
        cvm::clear_error();
        continue;
      }
      // the vectors carry PAD sentinel entries after the nt grid values: atimes must neither write them
      // nor depend on them (it indexes the arrays by hand)
      const size_t nt = G.pmf->nt, PAD = 4 * nt + 64;
      std::vector<double> A(nt + PAD, 1.0e3), LA(nt + PAD, -7.25), A2, LA2(nt + PAD, -7.25);
      for (size_t i = 0; i < nt; i++) A[i] = nf();
      A2 = A; for (size_t i = nt; i < nt + PAD; i++) A2[i] = -3.0e5;
      G.pmf->atimes(A, LA);
      G.pmf->atimes(A2, LA2);
      bool wrote = false, readpad = false;
      for (size_t i = nt; i < nt + PAD; i++) if (LA[i] != -7.25) wrote = true;
      for (size_t i = 0; i < nt; i++) if (LA[i] != LA2[i] && !(LA[i] != LA[i] && LA2[i] != LA2[i])) readpad = true;
      os << nt;
      for (size_t i = 0; i < nt; i++) { os << " "; hexout(os, LA[i]); }
      if (wrote) os << " | WROTE-OUTSIDE";
      if (readpad) os << " | READ-OUTSIDE";
      os << "\n";
    } else {
      os << "?\n";
    }
    cvm::clear_error();
  }
  delete proxy;
  return 0;
}
