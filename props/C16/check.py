# C16: PMF integration (1-D cumulative sum, incremental divergence = batch, symmetric Laplacian, residual certificate).
import os, sys, json, math
from fractions import Fraction as Fr
import vcommon as V

PROP = "coq/C16/Properties_C16.v"
EXTRACT = "coq/C16/Extract_C16.v"
DRIVER = "props/C16/driver.ml"
PROGS = {"c16unit": ["props/C16/unit.cpp"], "c16e2e": ["props/C16/e2e.cpp"]}
WIDTHS_P2 = [1.0, 0.5, 0.25, 2.0, 0.125]
WIDTHS_ANY = [0.75, 1.5, 0.375, 1.25]

# the witnesses of the two repaired defects (formerly C16_1d_periodic_closes_refuted; TI column with an empty bin),
# replayed on the implementation on every run
REFUTED_ONED = "ONED 1 1 1 0 2 2 %s %s %s 1 2" % (V.hexf(1.0), V.hexf(1.0), V.hexf(0.0))
REFUTED_TI = "TI1D 1 1 0 1 2 %s %s %s 1 0" % (V.hexf(1.0), V.hexf(2.0), V.hexf(0.0))


def fr(x):
    return Fr(x)


def close(a, b, tol=1e-9):
    return abs(a - b) <= tol * max(1.0, abs(a), abs(b))


def parse_floats(toks):
    return [float.fromhex(t) for t in toks]


def finite(l):
    return all(v == v and abs(v) < 1e300 for v in l)


# ------------------------------------------------------------------------------- generators
def gen_smooth(r):
    hs = r.random() < 0.7
    sm = r.random() < 0.4
    fulls = r.choice([1, 2, 4, 8, 5])
    mins = r.randint(0, fulls - 1)
    return hs, sm, mins, fulls


def gen_count(r, mins, fulls):
    # aim at the case splits of smooth_inverse_weight / the zero-count guard
    return r.choice([0, mins, mins + 1, fulls - 1, fulls, fulls + 1, r.randint(0, 12), 1, 2, 4, 8])


def gen_oned(r):
    per = r.random() < 0.5
    hs, sm, mins, fulls = gen_smooth(r)
    n = r.choice([1, 1, 2, 2, 3, 4, 5, 8, 12, r.randint(1, 16)])
    w = r.choice(WIDTHS_P2 + WIDTHS_ANY)
    data = [V.dyadic(r, -64, 64) for _ in range(n)]
    if r.random() < 0.3:   # exact averages: counts are powers of two
        cnt = [r.choice([0, 1, 2, 4, 8]) for _ in range(n)]
    else:
        cnt = [max(0, gen_count(r, mins, fulls)) for _ in range(n)]
    return "ONED %d %d %d %d %d %d %s %s %s" % (per, hs, sm, mins, fulls, n, V.hexf(w),
                                               " ".join(map(V.hexf, data)), " ".join(map(str, cnt)))


def gen_div(r, nd=None, solve=False):
    nd = nd or r.choice([2, 2, 3])
    per = [int(r.random() < 0.45) for _ in range(nd)]
    hi = 5 if nd == 2 else 3
    nxg = [r.choice([1, 1, 2, 3, r.randint(1, hi)]) for _ in range(nd)]
    if solve:
        nxg = [r.randint(2, 6 if nd == 2 else 4) for _ in range(nd)]
    w = [r.choice(WIDTHS_P2 + ([] if solve else WIDTHS_ANY)) for _ in range(nd)]
    if nd == 3:      # every 3-D case has three different widths (a width used for the wrong direction must show)
        w = r.sample(WIDTHS_P2 + ([] if solve else WIDTHS_ANY), 3)
    hs, sm, mins, fulls = gen_smooth(r)
    if solve:
        sm = False
    npre = r.choice([0, 0, 0, r.randint(1, 6)])
    nev = r.randint(1, 40)
    ev = []
    hot = [r.randint(0, n - 1) for n in nxg]
    for e in range(npre + nev):
        m = r.random()
        if m < 0.35:     # edges / corners of the gradient grid (where wrapping and the zero edge gradient act)
            b = [r.choice([0, n - 1]) for n in nxg]
        elif m < 0.55:   # repeated arrivals in one bin (counts crossing minSamples / fullSamples)
            b = list(hot)
        else:
            b = [r.randint(0, n - 1) for n in nxg]
        f = [V.dyadic(r, -16, 16) for _ in range(nd)]
        ev.append((b, f))
    ramp = False
    if not solve and r.random() < 0.3:
        # aim at the smoothing ramp: neighbouring bins whose counts sit on minSamples, minSamples+1, fullSamples-1,
        # fullSamples, fullSamples+1 and 0 (a bin below minSamples next to bins above it), smoothed gradients
        ramp = True
        hs, sm = True, (r.random() < 0.8)
        fulls = r.choice([3, 4, 5])
        mins = r.randint(0, fulls - 2)
        nxg = [max(n, 2) for n in nxg]
        targets = [mins, mins + 1, fulls - 1, fulls, fulls + 1, 0, 1]
        import itertools
        bins = list(itertools.product(*[range(n) for n in nxg]))
        r.shuffle(bins)
        ev = []
        for b, cnt in zip(bins, targets * 4):
            for _ in range(cnt):
                ev.append((list(b), [V.dyadic(r, -16, 16) for _ in range(nd)]))
        r.shuffle(ev)
        npre = r.choice([0, 0, min(3, len(ev))])
        nev = len(ev) - npre
    return {"nd": nd, "per": per, "nxg": nxg, "w": w, "hs": int(hs), "sm": int(sm), "mins": mins, "fulls": fulls,
            "npre": npre, "nev": nev, "ev": ev, "ramp": ramp}


def div_line(c, cmd="DIV", tail=""):
    evs = " ".join(" ".join(map(str, b)) + " " + " ".join(map(V.hexf, f)) for b, f in c["ev"])
    return "%s %d %s %s %s %d %d %d %d %d %d %s%s" % (cmd, c["nd"], " ".join(map(str, c["per"])), " ".join(map(str, c["nxg"])),
                                                     " ".join(map(V.hexf, c["w"])), c["hs"], c["sm"], c["mins"], c["fulls"],
                                                     c["npre"], c["nev"], evs, tail)


def gen_atimes(r, nd=None):
    nd = nd or r.choice([2, 2, 3])
    per = [int(r.random() < 0.5) for _ in range(nd)]
    hi = 6 if nd == 2 else 4
    nxp = [r.choice([2, 2, 3, r.randint(2, hi)]) for _ in range(nd)]
    if nd == 2 and r.random() < 0.25:
        nxp = [r.randint(2, 11) for _ in range(nd)]
    exact = r.random() < 0.8
    w = [r.choice(WIDTHS_P2 if exact else WIDTHS_ANY) for _ in range(nd)]
    if nd == 3:
        w = r.sample(WIDTHS_P2 if exact else WIDTHS_ANY, 3)
    nt = 1
    for n in nxp:
        nt *= n
    kind = r.choice(["rand", "rand", "rand", "const", "delta"])
    def vec():
        if kind == "const":
            c = V.dyadic(r, -8, 8)
            return [c] * nt
        if kind == "delta":
            v = [0.0] * nt
            v[r.randint(0, nt - 1)] = 1.0
            return v
        return [V.dyadic(r, -32, 32) for _ in range(nt)]
    return {"nd": nd, "per": per, "nxp": nxp, "w": w, "x": vec(), "y": vec(), "kind": kind, "exact": exact}


def atimes_line(c, v):
    return "ATIMES %d %s %s %s %s" % (c["nd"], " ".join(map(str, c["per"])), " ".join(map(str, c["nxp"])),
                                      " ".join(map(V.hexf, c["w"])), " ".join(map(V.hexf, v)))


# ------------------------------------------------------------------------------- independent oracles (exact rationals)
def fact_fr(hs, smoothed, mins, fulls, count):
    weight = Fr(count) if hs else Fr(1)
    if smoothed:
        if weight <= mins:
            return Fr(0)
        if weight < fulls:
            return (weight - mins) / (weight * (fulls - mins))
        return 1 / weight
    return 1 / weight if weight > 0 else Fr(0)


def oracle_oned(line, out):
    """property on the implementation's output alone: pmf[i] = sum_{j<i} (g_j - corr) w with g the bin averages
    (smoothed when requested), corr = mean gradient if periodic; a periodic surface closes."""
    t = line.split()
    per, hs, sm, mins, fulls, n = [int(x) for x in t[1:7]]
    w = fr(float.fromhex(t[7]))
    data = [fr(float.fromhex(x)) for x in t[8:8 + n]]
    cnt = [int(x) for x in t[8 + n:8 + 2 * n]]
    o = out.split()
    m = int(o[0])
    pmf = parse_floats(o[1:])
    if m != (n if per else n + 1) or len(pmf) != m:
        return "oned:size", "PMF grid has %d points for %d gradient bins (periodic=%d)" % (m, n, per)
    g = [fact_fr(hs, sm, mins, fulls, c) * d for c, d in zip(cnt, data)]
    corr = sum(g) / n if per else Fr(0)        # the mean of the gradients that are integrated
    if per and n >= 2 and w != 0:
        # closing: continuing the sum over the last bin must return to pmf[0] = 0; the correction the code
        # used is read off its own first increment, so that this looks at the implementation's output only
        used = g[0] - fr(pmf[1]) / w
        last = fr(pmf[n - 1]) + (g[n - 1] - used) * w
        if not close(float(last), 0.0):
            return ("oned:periodic-smoothed-not-closed" if sm else "oned:periodic-not-closed",
                    "after a full period the surface is at %r instead of 0 (mean removed %r, mean of the integrated gradients %r)"
                    % (float(last), float(used), float(corr)))
    s = Fr(0)
    for i in range(m):
        if not close(pmf[i], float(s)):
            return "oned:cumsum", "pmf[%d] = %r but the cumulative sum of (gradient - mean)*width is %r" % (i, pmf[i], float(s))
        if i < n:
            s += (g[i] - corr) * w
    return None


def gen_ti(r):
    per = r.random() < 0.6
    hs = r.random() < 0.8
    n = r.choice([1, 2, 2, 3, 4, 5, 8, 12, r.randint(1, 16)])
    w = r.choice(WIDTHS_P2 + WIDTHS_ANY)
    data = [V.dyadic(r, -64, 64) for _ in range(n)]
    cnt = [r.choice([0, 0, 1, 2, 3, 4, 8, r.randint(0, 12)]) for _ in range(n)]
    if not hs:
        cnt = [0] * n
    cmd = "TI1D"
    if not per and r.random() < 0.4:
        cmd = "TI1DG"      # count grid with its own geometry (origin w, width w) on a colvar of width 2w from 0
    return "%s %d %d 0 1 %d %s %s %s" % (cmd, per, hs, n, V.hexf(w), " ".join(map(V.hexf, data)), " ".join(map(str, cnt)))


def oracle_ti(line, out):
    """write_1D_integral on the implementation's output alone: n+1 rows; A[i] = S_i - min_k S_k with
    S_i = sum_{j<i} (avg_j - corr) w, avg_j the bin average (0 for an empty bin), corr the mean of the avg_j if
    periodic; a periodic column ends where it starts; abscissa = i*w."""
    t = line.split()
    per, hs, mins, fulls, n = [int(x) for x in t[1:6]]
    w = fr(float.fromhex(t[6]))
    data = [fr(float.fromhex(x)) for x in t[7:7 + n]]
    cnt = [int(x) for x in t[7 + n:7 + 2 * n]]
    if out.startswith("ERR grid") and t[0] == "TI1DG":
        return "ti1d:grid-geometry", "a gradient grid built on a count grid with a custom geometry (%d bins of width %r from %r) did not take that geometry: %s" % (n, float(w), float(w), out)
    if out.startswith("ERR"):
        return "ti1d:setup", "the harness could not build the grid: " + out
    parts = out.split("|")
    o = parts[0].split()
    col = parse_floats(o[1:])
    xi = parse_floats(parts[1].split()) if len(parts) > 1 else []
    if int(o[0]) != n + 1 or len(col) != n + 1:
        return "ti1d:size", "%d rows written for %d bins" % (len(col), n)
    avg = [(d / c if c else Fr(0)) if hs else d for d, c in zip(data, cnt)]
    corr = sum(avg) / n if per else Fr(0)
    S = [Fr(0)]
    for a in avg:
        S.append(S[-1] + (a - corr) * w)
    if per and not close(col[n], col[0], 1e-11):
        return "ti1d:periodic-not-closed", "the column of a periodic variable ends at %r but starts at %r" % (col[n], col[0])
    mn = min(S)
    for i in range(n + 1):
        if not close(col[i], float(S[i] - mn), 1e-11):
            return "ti1d:cumsum", "A[%d] = %r but cumulative sum minus its minimum is %r" % (i, col[i], float(S[i] - mn))
    org = w if t[0] == "TI1DG" else Fr(0)
    for i in range(min(len(xi), n + 1)):
        if abs(xi[i] - float(org + i * w)) > 1e-5 * max(1.0, abs(float(org + i * w))):
            return "ti1d:abscissa", "xi[%d] = %r, expected %r (grid origin %r, grid width %r)" % (i, xi[i], float(org + i * w), float(org), float(w))
    return None


def div_oracle(c):
    """divergence of the final gradient data, recomputed independently (exact rationals)"""
    nd, per, nxg = c["nd"], c["per"], c["nxg"]
    w = [fr(x) for x in c["w"]]
    gs, gc = {}, {}
    for b, f in c["ev"]:
        k = tuple(b)
        v = gs.setdefault(k, [Fr(0)] * nd)
        for d in range(nd):
            v[d] -= fr(f[d])
        gc[k] = gc.get(k, 0) + 1
    nxp = [n if p else n + 1 for n, p in zip(nxg, per)]
    def grad(ix):
        q = []
        for d in range(nd):
            i = ix[d]
            if per[d]:
                i %= nxg[d]
            elif i < 0 or i >= nxg[d]:
                return [Fr(0)] * nd
            q.append(i)
        k = tuple(q)
        if k not in gs:
            return [Fr(0)] * nd
        f = fact_fr(c["hs"], c["sm"], c["mins"], c["fulls"], gc[k])
        return [f * x for x in gs[k]]
    out = []
    import itertools
    for p in itertools.product(*[range(n) for n in nxp]):
        tot = Fr(0)
        for d in range(nd):
            acc = Fr(0)
            for off in itertools.product(*[(-1, 0)] * nd):
                g = grad([p[k] + off[k] for k in range(nd)])
                acc += g[d] if off[d] == 0 else -g[d]
            tot += acc / w[d]
        out.append(tot / (2 ** (nd - 1)))
    return out


def lap_oracle(c, v):
    """the documented discrete Laplacian: second differences, one-sided at non-periodic ends, with the terms of the
    other directions halved on non-periodic boundaries (exact rationals)"""
    import itertools
    nd, per, nxp = c["nd"], c["per"], c["nxp"]
    w = [fr(x) for x in c["w"]]
    strides = [1] * nd
    for d in range(nd - 2, -1, -1):
        strides[d] = strides[d + 1] * nxp[d + 1]
    a = [fr(x) for x in v]
    out = []
    for p in itertools.product(*[range(n) for n in nxp]):
        idx = sum(i * s for i, s in zip(p, strides))
        tot = Fr(0)
        for d in range(nd):
            n = nxp[d]
            def at(i):
                return a[idx + (i - p[d]) * strides[d]]
            if per[d]:
                t = at((p[d] - 1) % n) + at((p[d] + 1) % n) - 2 * at(p[d])
            elif p[d] == 0:
                t = at(1) - at(0)
            elif p[d] == n - 1:
                t = at(n - 2) - at(n - 1)
            else:
                t = at(p[d] - 1) + at(p[d] + 1) - 2 * at(p[d])
            f = Fr(1)
            for e in range(nd):
                if e != d and not per[e] and p[e] in (0, nxp[e] - 1):
                    f /= 2
            tot += f * t / (w[d] * w[d])
        out.append(tot)
    return out


def setup():
    V.extract_model("C16", EXTRACT, DRIVER, ["ocaml/fops.ml"])
    V.build_prog("c16unit", PROGS["c16unit"])
    V.build_prog("c16e2e", PROGS["c16e2e"])


def same(a, b):
    return len(a) == len(b) and all(x == y or (x != x and y != y) for x, y in zip(a, b))


def split_bar(out):
    parts = [p.split() for p in out.split("|")]
    return parts


def gen_degenerate(r):
    """shapes with a single point in a periodic dimension (bin width = period)"""
    nd = r.choice([2, 2, 3])
    k = r.randrange(nd)
    per = [int(r.random() < 0.5) for _ in range(nd)]
    per[k] = 1
    nxp = [r.choice([2, 3, 4]) for _ in range(nd)]
    nxp[k] = 1
    nt = 1
    for n in nxp:
        nt *= n
    return {"nd": nd, "per": per, "nxp": nxp, "w": [1.0] * nd, "x": [V.dyadic(r, -8, 8) for _ in range(nt)]}


def smooth_field(nd, per, L):
    """a smooth surface on [0,L]^nd, periodic in the periodic dimensions: returns (A, gradA)"""
    def f1(d, x):
        if per[d]:
            return math.sin(2 * math.pi * x / L[d] + 0.3 * (d + 1)), 2 * math.pi / L[d] * math.cos(2 * math.pi * x / L[d] + 0.3 * (d + 1))
        u = x / L[d]
        return math.exp(0.8 * u) + 0.5 * u * u * (d + 1), (0.8 * math.exp(0.8 * u) + u * (d + 1)) / L[d]
    def A(x):
        v = 1.0
        for d in range(nd):
            v *= (1.5 + 0.5 * f1(d, x[d])[0])
        return v
    def G(x):
        g = []
        for d in range(nd):
            v = 0.5 * f1(d, x[d])[1]
            for e in range(nd):
                if e != d:
                    v *= (1.5 + 0.5 * f1(e, x[e])[0])
            g.append(v)
        return g
    return A, G


def conv_case(nd, per, n, L, tol):
    """SOLVE line whose gradient data are the exact gradients of the smooth surface at the bin centres"""
    import itertools
    A, G = smooth_field(nd, per, L)
    w = [L[d] / n for d in range(nd)]
    ev = []
    for b in itertools.product(*[range(n)] * nd):
        g = G([(b[d] + 0.5) * w[d] for d in range(nd)])
        ev.append((list(b), [-x for x in g]))      # acc_force sums the opposite of the force
    c = {"nd": nd, "per": per, "nxg": [n] * nd, "w": w, "hs": 0, "sm": 0, "mins": 0, "fulls": 1, "npre": len(ev), "nev": 0, "ev": ev}
    nxp = [n if p else n + 1 for p in per]
    ref = [A([q[d] * w[d] for d in range(nd)]) for q in itertools.product(*[range(m) for m in nxp])]
    return div_line(c, "SOLVE", " 20000 %s" % V.hexf(tol)), ref


def check(run):
    r = V.rng("C16")
    quick = run.tier == "quick"
    scale = 1 if quick else 25
    run.cov["rule"] = ("ONED: 1-D gradient/count grids (1-16 bins, periodic or not, with/without sample grid, smoothed or not, counts "
                       "on the minSamples/fullSamples/zero boundaries), PMF compared exactly with the model and with an exact cumulative sum (periodic closure); "
                       "TI1D: write_1D_integral on grids built from a real colvar (periodic or not, empty bins), text column vs model and exact rationals; "
                       "DIV: 2-D/3-D arrival histories (bins on edges/corners, repeated bins, mixed periodicity, 1-5 bins per dimension, anisotropic widths, "
                       "preloaded data + set_div), incremental divergence vs batch vs model vs exact recomputation, sum = 0, and a shuffled copy of each history; "
                       "ATIMES: Laplacian on 2..6-point shapes vs model vs exact stencil, symmetry <x,Ay>=<Ax,y>, constants in the kernel, <x,Ax> <= 0, sentinel padding "
                       "(no access outside the grid); SOLVE: conjugate gradient vs the model's (iterations, error, solution) and the residual certificate |A x - b| <= c tol |b| "
                       "recomputed from the implementation's output; CONV: gradients of a smooth surface at h, h/2, h/4 (observed order); E2E: ABF runs through the engine "
                       "simulator, written .pmf/.grad/.count files. distinct = distinct case text; non-trivial = periodic or smoothed "
                       "1-D case with >=2 bins, history with >=2 arrivals touching a boundary bin, non-constant vector, non-zero right-hand side")
    run.assumptions += [
        "theorems are about the R instance of the model; the tie runs the float instance: model and C++ perform the same IEEE operations in the same order, so outputs are compared bit for bit (text output of write_1D_integral: 1e-11 relative)",
        "atimes is modelled per grid point (case analysis on the position) rather than loop by loop; the tie compares every entry of the output on all region types (corners, edges, interior) for 2..6 points per dimension",
        "conjugate gradient: the theorem is about exact arithmetic (recurred residual = true residual); for floats the residual of the implementation's output is recomputed by the check with slack factor 10; convergence within itmax and second-order accuracy are numerical experiments, not theorems",
        "grids with a single point in a periodic dimension (width = period) are outside the model of atimes: the C++ loops index outside the array there (known finding)",
    ]
    st = V.standard_start(run, PROP, EXTRACT, DRIVER, PROGS)
    if st is None:
        return
    model, exes = st
    unit = exes["c16unit"]

    # ---------------- 1-D
    cases = []
    cp = os.path.join(V.ROOT, "corpus", "C16_unit.txt")
    if os.path.exists(cp):
        cases += [l.strip() for l in open(cp) if l.strip() and not l.startswith("#")]
    cases.append(REFUTED_ONED)
    cases.append(REFUTED_TI)
    cases += [gen_oned(r) for _ in range(500 * scale)]
    cases += [gen_ti(r) for _ in range(150 * scale)]
    # ---------------- divergence histories (+ a shuffled copy of each)
    dcases = [gen_div(r) for _ in range(300 * scale)]
    dlines = []
    for c in dcases:
        dlines.append(div_line(c))
        c2 = dict(c)
        ev = list(c["ev"])
        r.shuffle(ev)
        c2["ev"] = ev
        dlines.append(div_line(c2))
    # ---------------- Laplacian
    acases = [gen_atimes(r) for _ in range(250 * scale)]
    alines = []
    for c in acases:
        alines.append(atimes_line(c, c["x"]))
        alines.append(atimes_line(c, c["y"]))
    # ---------------- conjugate gradient (model and implementation)
    scases = [gen_div(r, solve=True) for _ in range(40 * scale)]
    for zc in scases[:2]:      # zero gradient data: |divergence| < EPS, integrate() must return at once and leave the surface alone
        zc["ev"] = [(b, [0.0] * len(f)) for b, f in zc["ev"]]
    tol = 1e-6
    itmax = 400
    slines = [div_line(c, "SOLVE", " %d %s" % (itmax, V.hexf(tol))) for c in scases]
    lines = cases + dlines + alines + slines
    rc1, impl, e1 = V.run_lines(unit, lines)
    rc2, mod, e2 = V.run_lines(model, lines)
    if len(impl) != len(lines):
        k = len(impl)
        run.violation("unit:crash", "the C16 unit driver died (rc=%d) after %d of %d cases: %s" % (rc1, k, len(lines), e1[-300:]),
                      {"kind": "unit", "case": lines[k] if k < len(lines) else None})
        return
    if len(mod) != len(lines):
        raise V.InfraError("model driver answered %d of %d lines: %s" % (len(mod), len(lines), e2[-500:]))

    def tie(component, line, io, mo, tolr=None):
        a = split_bar(io)
        b = split_bar(mo)
        ok = len(a) >= 1 and len(b) >= 1 and a[0][:1] == b[0][:1]
        if ok:
            for k, pb in enumerate(b):          # the model prints a prefix of the implementation's fields
                if k >= len(a):
                    ok = False
                    break
                pa = a[k]
                try:
                    fa = parse_floats(pa[1:] if k == 0 else pa)
                    fb = parse_floats(pb[1:] if k == 0 else pb)
                except ValueError:
                    ok = False
                    break
                if tolr is None:
                    ok = ok and same(fa, fb)
                else:
                    ok = ok and len(fa) == len(fb) and all(close(x, y, tolr) for x, y in zip(fa, fb))
        if not ok:
            run.mismatch(component, line, io[:400], mo[:400])
        return ok

    pos = 0
    for c in cases:
        io, mo = impl[pos], mod[pos]
        pos += 1
        t = c.split()
        if t[0] == "ONED":
            nontriv = int(t[6]) >= 2 and (t[1] == "1" or t[3] == "1")
            run.count(c, nontriv)
            run.dist("oned:per=%s,samples=%s,smoothed=%s" % (t[1], t[2], t[3]))
            tie("oned", c, io, mo)
            bad = oracle_oned(c, io)
        else:
            ncnt = [int(x) for x in t[7 + int(t[5]):]]
            run.count(c, int(t[5]) >= 2 and t[1] == "1")
            run.dist("ti1d:per=%s,samples=%s,empty_bins=%s%s" % (t[1], t[2], "yes" if (t[2] == "1" and 0 in ncnt) else "no", ",custom-grid" if t[0] == "TI1DG" else ""))
            tie("ti1d", c, io.split("|")[0], mo, 1e-11)
            bad = oracle_ti(c, io)
        if bad:
            sig, txt = bad
            run.violation(sig, txt + " [case: %s -> %s]" % (c[:300], io[:300]), {"kind": "unit", "case": c, "impl": io})
    run.sample({"oned_case": cases[2] if len(cases) > 2 else cases[0], "impl": impl[2] if len(cases) > 2 else impl[0]})

    for k, c in enumerate(dcases):
        l1, l2 = dlines[2 * k], dlines[2 * k + 1]
        io1, io2, mo1, mo2 = impl[pos], impl[pos + 1], mod[pos], mod[pos + 1]
        pos += 2
        touches = sum(1 for b, f in c["ev"] if any(x in (0, n - 1) for x, n in zip(b, c["nxg"])))
        run.count(l1, len(c["ev"]) >= 2 and touches >= 1)
        run.count(l2, len(c["ev"]) >= 2 and touches >= 1)
        run.dist("div:nd=%d,per=%s" % (c["nd"], "".join(map(str, c["per"]))))
        run.dist("div:smoothed=%d" % c["sm"])
        run.dist("div:min_bins_per_dim=%d" % min(c["nxg"]))
        run.dist("div:anisotropic=%d" % (len(set(c["w"])) > 1))
        if c.get("ramp"):
            run.dist("div:counts-on-the-smoothing-ramp,smoothed=%d" % c["sm"])
        tie("div", l1, io1, mo1)
        tie("div", l2, io2, mo2)
        for (l, io) in ((l1, io1), (l2, io2)):
            p = split_bar(io)
            inc, bat = parse_floats(p[0][1:]), parse_floats(p[1])
            if not same(inc, bat):
                bad = [i for i, (x, y) in enumerate(zip(inc, bat)) if x != y]
                run.violation("div:incremental-vs-batch",
                              "divergence maintained by update_div_neighbors differs from set_div of the final gradients at flat "
                              "index(es) %s (incremental %s, batch %s) [case: %s]" % (bad[:6], [inc[i] for i in bad[:6]], [bat[i] for i in bad[:6]], l[:400]),
                              {"kind": "unit", "case": l, "impl": io})
        # order of arrival: the shuffled history gives the same divergence (dyadic forces: sums are exact)
        b1 = parse_floats(split_bar(io1)[1])
        i2 = parse_floats(split_bar(io2)[0][1:])
        if not same(b1, i2):
            run.violation("div:order-of-arrival", "the same arrivals in another order give another divergence [cases: %s // %s]" % (l1[:300], l2[:300]),
                          {"kind": "unit", "case": l1, "case2": l2, "impl": io1, "impl2": io2})
        # the divergence is the divergence of the final gradient data
        exp = div_oracle(c)
        if len(exp) != len(b1) or any(not close(x, float(y)) for x, y in zip(b1, exp)):
            badi = [i for i, (x, y) in enumerate(zip(b1, exp)) if not close(x, float(y))][:6]
            run.violation("div:value", "set_div does not give the cell-averaged finite-difference divergence of the gradients at flat index(es) %s: got %s expected %s [case: %s]"
                          % (badi, [b1[i] for i in badi], [float(exp[i]) for i in badi], l1[:400]), {"kind": "unit", "case": l1, "impl": io1})
        # solvability: it sums to zero (C16_divergence_sums_to_zero)
        sb = sum(fr(x) for x in b1)
        scale_b = max([1.0] + [abs(x) for x in b1])
        if abs(float(sb)) > 1e-9 * scale_b * len(b1):
            run.violation("div:sum-not-zero", "the divergence sums to %r over the PMF grid (it must be orthogonal to the constants) [case: %s]" % (float(sb), l1[:400]),
                          {"kind": "unit", "case": l1, "impl": io1})
        if k == 0:
            run.sample({"div_case": l1, "impl": io1})

    for k, c in enumerate(acases):
        lx, ly = alines[2 * k], alines[2 * k + 1]
        iox, ioy, mox, moy = impl[pos], impl[pos + 1], mod[pos], mod[pos + 1]
        pos += 2
        run.count(lx, c["kind"] != "const")
        run.count(ly, c["kind"] != "const")
        run.dist("atimes:nd=%d,per=%s" % (c["nd"], "".join(map(str, c["per"]))))
        run.dist("atimes:min_points=%d" % min(c["nxp"]))
        for (l, io) in ((lx, iox), (ly, ioy)):
            if "OUTSIDE" in io:
                run.violation("atimes:out-of-bounds", "atimes indexes its arrays outside the %d grid values: %s [case: %s]" % (len(c["x"]), io.split("|", 1)[1], l[:300]),
                              {"kind": "unit", "case": l, "impl": io})
        iox, ioy = iox.split("|")[0], ioy.split("|")[0]
        for (l, io, mo) in ((lx, iox, mox), (ly, ioy, moy)):
            mparts = mo.split("|")
            tie("atimes", l, io, mparts[0])
            if len(mparts) > 1:      # 2-D: the loop-by-loop model of atimes, same flat array
                if not same(parse_floats(io.split()[1:]), parse_floats(mparts[1].split())):
                    run.mismatch("atimes-loops", l, io[:400], mparts[1][:400])
        Lx, Ly = parse_floats(iox.split()[1:]), parse_floats(ioy.split()[1:])
        if not (finite(Lx) and finite(Ly)):
            run.violation("atimes:not-finite", "atimes returned non-finite values for finite input [case: %s]" % lx[:300], {"kind": "unit", "case": lx, "case2": ly, "impl": iox})
            continue
        ex, ey = lap_oracle(c, c["x"]), lap_oracle(c, c["y"])
        for (l, io, got, exp) in ((lx, iox, Lx, ex), (ly, ioy, Ly, ey)):
            if len(got) != len(exp) or any(not close(g, float(e)) for g, e in zip(got, exp)):
                badi = [k for k, (g, e) in enumerate(zip(got, exp)) if not close(g, float(e))][:6]
                run.violation("atimes:stencil", "atimes is not the documented Laplacian stencil at flat index(es) %s: got %s expected %s [case: %s]"
                              % (badi, [got[k] for k in badi], [float(exp[k]) for k in badi], l[:400]), {"kind": "unit", "case": l, "impl": io})
        if len(Lx) == len(c["x"]) and len(Ly) == len(c["y"]):
            xAy = sum(fr(a) * fr(b) for a, b in zip(c["x"], Ly))
            Axy = sum(fr(a) * fr(b) for a, b in zip(Lx, c["y"]))
            ok = (xAy == Axy) if c["exact"] else close(float(xAy), float(Axy))
            if not ok:
                run.violation("atimes:symmetry", "<x,Ay> = %r but <Ax,y> = %r [cases: %s // %s]" % (float(xAy), float(Axy), lx[:300], ly[:300]),
                              {"kind": "unit", "case": lx, "case2": ly, "impl": iox, "impl2": ioy})
            xAx = sum(fr(a) * fr(b) for a, b in zip(c["x"], Lx))
            if float(xAx) > 1e-9 * max(1.0, sum(abs(a * b) for a, b in zip(c["x"], Lx))):
                run.violation("atimes:not-negative-semidefinite", "<x,Ax> = %r > 0 [case: %s]" % (float(xAx), lx[:300]), {"kind": "unit", "case": lx, "impl": iox})
            if c["kind"] == "const" and c["exact"] and any(v != 0.0 for v in Lx):
                run.violation("atimes:kernel", "a constant field has a non-zero Laplacian %s [case: %s]" % (Lx[:9], lx[:300]),
                              {"kind": "unit", "case": lx, "impl": iox})
        if k == 0:
            run.sample({"atimes_case": lx, "impl": iox})

    # ---------------- conjugate gradient: tie to the model + residual certificate recomputed from the output
    nconv = 0
    for c, l in zip(scases, slines):
        so, mo = impl[pos], mod[pos]
        pos += 1
        p = split_bar(so)
        it, err = int(p[0][1]), float.fromhex(p[0][2])
        b = parse_floats(p[1])
        x = parse_floats(p[2])
        bn = math.sqrt(sum(v * v for v in b))
        run.count(l, bn > 0)
        run.dist("solve:nd=%d,per=%s" % (c["nd"], "".join(map(str, c["per"]))))
        # tie: same iteration count, reported error and solution (same operations in the same order; the
        # solution is compared with a tolerance that allows for one differently rounded operation per iteration)
        pm = split_bar(mo)
        okt = pm[0][:2] == p[0][:2] and same(parse_floats(pm[1]), b)
        if okt:
            xm = parse_floats(pm[2])
            sx = max([1e-300] + [abs(v) for v in x])
            okt = len(xm) == len(x) and all(abs(u - v) <= 1e-9 * sx for u, v in zip(x, xm)) and close(err, float.fromhex(pm[0][2]), 1e-6)
        if not okt:
            run.mismatch("solve", l, so[:400], mo[:400])
        # oracle: A x recomputed exactly from the output
        nxp = [n if pe else n + 1 for n, pe in zip(c["nxg"], c["per"])]
        Ax = lap_oracle({"nd": c["nd"], "per": c["per"], "nxp": nxp, "w": c["w"]}, x) if (finite(x) and finite(b)) else None
        conv = 1 <= it < itmax
        nconv += conv
        if bn <= 1e-14:
            if it != 0 or any(v != 0.0 for v in x):
                run.violation("solve:zero-rhs", "zero divergence but the solver iterated (%d) or changed the surface [case: %s]" % (it, l[:300]), {"kind": "unit", "case": l, "impl": so[:2000]})
            continue
        if Ax is None:
            run.violation("solve:not-finite", "integrate() returned a non-finite surface [case: %s]" % l[:400], {"kind": "unit", "case": l, "impl": so[:2000]})
            continue
        rn = math.sqrt(sum((float(u) - v) ** 2 for u, v in zip(Ax, b)))
        # envelope of |true residual - recurred residual| / |b| by iteration count (floating-point drift; recorded, not judged)
        bucket = "1-4" if it <= 4 else "5-16" if it <= 16 else "17-64" if it <= 64 else "65+"
        dr = run.cov["correspondence"].setdefault("residual_drift_envelope", {})
        dr[bucket] = max(dr.get(bucket, 0.0), abs(rn / bn - err))
        if conv and not (err <= tol):
            run.violation("solve:stopped-early", "integrate() stopped after %d < %d iterations with reported error %g > tol [case: %s]" % (it, itmax, err, l[:400]),
                          {"kind": "unit", "case": l, "impl": so[:2000]})
        if it >= 1 and err <= tol and not (rn <= 10 * tol * bn + 1e-12):
            run.violation("solve:residual", "integrate() returned after %d iterations reporting err=%g <= tol but |A x - b| = %g > 10 tol |b| = %g [case: %s]"
                          % (it, err, rn, 10 * tol * bn, l[:400]), {"kind": "unit", "case": l, "impl": so[:2000]})
        if not conv:
            run.dist("solve:not-converged-in-%d" % itmax)
    run.sample({"solve_case": slines[0][:300], "impl": impl[pos - len(slines)][:300]})

    # ---------------- scale covariance (C16_cg_scale_covariant): the discrete problem is linear and the stopping criterion
    # relative, so gradients scaled by c give the surface scaled by c with the same iteration count and reported error, and
    # (widths * s, gradients / s) gives the same surface.  Powers of two: every floating-point operation scales exactly,
    # so the comparison is bit for bit; the residual |A x - b| / |b| is recomputed independently of the solver's err.
    vcases = [c for c in scases if any(any(f) for _, f in c["ev"])][:(10 if quick else 80)]
    scales = [2.0 ** -27, 2.0 ** -13, 2.0 ** 13, 2.0 ** 27]      # 7.5e-9 .. 1.3e8
    vlines, vmeta = [], []
    for c in vcases:
        vlines.append(div_line(c, "SOLVE", " %d %s" % (itmax, V.hexf(tol))))
        vmeta.append((c, "base", 1.0))
        for sc_ in scales:
            c2 = dict(c)
            c2["ev"] = [(b, [x * sc_ for x in f]) for b, f in c["ev"]]
            vlines.append(div_line(c2, "SOLVE", " %d %s" % (itmax, V.hexf(tol))))
            vmeta.append((c2, "force", sc_))
        for sw in (2.0 ** -10, 2.0 ** 10):
            c3 = dict(c)
            c3["w"] = [x * sw for x in c["w"]]
            c3["ev"] = [(b, [x / sw for x in f]) for b, f in c["ev"]]
            vlines.append(div_line(c3, "SOLVE", " %d %s" % (itmax, V.hexf(tol))))
            vmeta.append((c3, "width", sw))
    rcv, vout, ev_ = V.run_lines(unit, vlines)
    rcw, vmod, ew_ = V.run_lines(model, vlines)
    if len(vout) != len(vlines):
        run.violation("unit:crash", "the C16 unit driver died in the scale stream (rc=%d): %s" % (rcv, ev_[-300:]), {"kind": "unit", "case": vlines[len(vout)] if len(vout) < len(vlines) else None})
    else:
        base = None
        for (cc, kind, fac), l, so, mo in zip(vmeta, vlines, vout, vmod if len(vmod) == len(vlines) else [None] * len(vlines)):
            p = split_bar(so)
            it, err = int(p[0][1]), float.fromhex(p[0][2])
            b, x = parse_floats(p[1]), parse_floats(p[2])
            run.count(l, True)
            run.dist("solve:scale-%s=%g" % (kind, fac))
            if mo is not None:
                pm = split_bar(mo)
                if pm[0][:2] != p[0][:2] or not same(parse_floats(pm[1]), b) or not same(parse_floats(pm[2]), x):
                    run.mismatch("solve-scaled", l, so[:400], mo[:400])
            if kind == "base":
                base = (it, err, b, x)
                continue
            bit, berr, bb, bx = base
            xfac = fac if kind == "force" else 1.0
            if it != bit or err != berr or not same(x, [v * xfac for v in bx]):
                run.violation("solve:scale-covariance", "%s scaled by %g: integrate() made %d iterations (err %g) and the surface is not %g times the unscaled one "
                              "(unscaled: %d iterations, err %g): the discrete problem is linear and the criterion relative [case: %s]"
                              % ("forces" if kind == "force" else "widths (forces divided)", fac, it, err, xfac, bit, berr, l[:300]),
                              {"kind": "unit", "case": l, "case2": vlines[vlines.index(l) - 1], "impl": so[:2000]})
            bn = math.sqrt(sum(v * v for v in b))
            if bn > 0 and finite(x) and finite(b):
                nxp = [n if pe else n + 1 for n, pe in zip(cc["nxg"], cc["per"])]
                Ax = [float(v) for v in lap_oracle({"nd": cc["nd"], "per": cc["per"], "nxp": nxp, "w": cc["w"]}, x)]
                rn = math.sqrt(sum((u - v) ** 2 for u, v in zip(Ax, b)))
                if it < itmax and not (rn <= 10 * tol * bn):
                    run.violation("solve:residual", "integrate() stopped after %d < %d iterations with |A x - b| / |b| = %g > tol = %g (|b| = %g; reported err %g) [case: %s]"
                                  % (it, itmax, rn / bn, tol, bn, err, l[:300]), {"kind": "unit", "case": l, "impl": so[:2000]})

    # ---------------- repeated integrate() on unchanged data (projected ABF integrates at every step, every output integrates
    # again from the previous surface): tiny grids whose first solve is exact, so that the second starts from a zero residual
    rcases = []
    for _ in range(12 if quick else 150):
        c = gen_div(r, solve=True)
        c["nxg"] = [r.choice([1, 2, 2]) if not p_ else 2 for p_ in c["per"]]
        c["ev"] = [([r.randrange(n) for n in c["nxg"]], [float(r.randint(-4, 4)) for _ in range(c["nd"])]) for _ in range(r.randint(1, 4))]
        c["npre"], c["nev"] = 0, len(c["ev"])
        c["w"] = [1.0] * c["nd"] if r.random() < 0.7 else c["w"]
        c["hs"] = 0
        rcases.append(c)
    rlines = [div_line(c, "SOLVE2", " %d %s" % (itmax, V.hexf(tol))) for c in rcases]
    rcr, rout, er_ = V.run_lines(unit, rlines)
    rcm_, rmod, em_ = V.run_lines(model, rlines)
    if len(rout) != len(rlines):
        run.violation("unit:crash", "the C16 unit driver died in the repeated-solve stream (rc=%d): %s" % (rcr, er_[-300:]), {"kind": "unit", "case": rlines[len(rout)] if len(rout) < len(rlines) else None})
    else:
        nexact = 0
        for c, l, so, mo in zip(rcases, rlines, rout, rmod if len(rmod) == len(rlines) else [None] * len(rlines)):
            p = split_bar(so)
            it, err = int(p[0][1]), float.fromhex(p[0][2])
            b, x = parse_floats(p[1]), parse_floats(p[2])
            run.count(l, True)
            if mo is not None:
                pm = split_bar(mo)
                if pm[0][:2] != p[0][:2] or not same(parse_floats(pm[2]), x):
                    run.mismatch("solve-repeated", l, so[:400], mo[:400])
            bn = math.sqrt(sum(v * v for v in b))
            if not finite(x) or err != err:
                run.violation("solve:repeated-not-finite", "a second integrate() on unchanged data returned a non-finite surface or error (%d iterations, err %r): the first "
                              "solve was exact and the second divides 0 by 0 [case: %s]" % (it, err, l[:300]), {"kind": "unit", "case": l, "impl": so[:1000]})
                continue
            if bn > 1e-14:
                nxp = [n if pe else n + 1 for n, pe in zip(c["nxg"], c["per"])]
                Ax = [float(v) for v in lap_oracle({"nd": c["nd"], "per": c["per"], "nxp": nxp, "w": c["w"]}, x)]
                rn = math.sqrt(sum((u - v) ** 2 for u, v in zip(Ax, b)))
                nexact += (rn == 0.0)
                if not (rn <= 10 * tol * bn):
                    run.violation("solve:residual", "after a repeated integrate() |A x - b| / |b| = %g > tol [case: %s]" % (rn / bn, l[:300]), {"kind": "unit", "case": l, "impl": so[:1000]})
        run.dist("solve:repeated-exactly-solved", nexact)

    # ---------------- the energy b.x - x.Ax/2 (half the squared A-norm of the error, up to a constant) never increases
    # from one iteration to the next (C16_cg_error_monotone): the solver is stopped after 1, 2, 3, 5, 8, 13 iterations
    ecases = [c for c in scases if any(any(f) for _, f in c["ev"])][:(8 if quick else 60)]
    its = [1, 2, 3, 5, 8, 13]
    # (tolerance 1e-9: once the residual is at rounding level the quotients <r,r>/<Ap,p> are noise and the
    # exact-arithmetic statement says nothing; the comparison stops when the solver has stopped by itself)
    elines = [div_line(c, "SOLVE", " %d %s" % (k, V.hexf(1e-9))) for c in ecases for k in its]
    rce, eout, ee = V.run_lines(unit, elines)
    if len(eout) == len(elines):
        for ci, c in enumerate(ecases):
            nxp = [n if pe else n + 1 for n, pe in zip(c["nxg"], c["per"])]
            prev, prev_k = 0.0, 0          # x = 0 initially
            for ki, k in enumerate(its):
                so = eout[ci * len(its) + ki]
                p = split_bar(so)
                b, x = parse_floats(p[1]), parse_floats(p[2])
                if not finite(x):
                    break
                stopped = int(p[0][1]) < k
                Ax = [float(v) for v in lap_oracle({"nd": c["nd"], "per": c["per"], "nxp": nxp, "w": c["w"]}, x)]
                F = sum(u * v for u, v in zip(b, x)) - 0.5 * sum(u * v for u, v in zip(x, Ax))
                scaleF = max(1.0, abs(F), abs(prev))
                run.count(elines[ci * len(its) + ki], True)
                if F > prev + 1e-9 * scaleF:
                    run.violation("solve:energy-increases", "the energy b.x - x.Ax/2 went from %r after %d iterations to %r after %d: the error in the A-norm increased [case: %s]"
                                  % (prev, prev_k, F, k, elines[ci * len(its) + ki][:300]), {"kind": "unit", "case": elines[ci * len(its) + ki], "impl": so[:2000]})
                    break
                prev, prev_k = F, k
                if stopped:
                    break
        run.dist("solve:energy-monotone-cases", len(ecases))
    else:
        run.violation("unit:crash", "the C16 unit driver died in the energy stream (rc=%d): %s" % (rce, ee[-300:]), {"kind": "unit", "case": elines[len(eout)] if len(eout) < len(elines) else None})

    # ---------------- degenerate shapes: one point in a periodic dimension (own process): the grid must be refused
    # with an input error (constructor) and integrate() must not iterate; the model refuses the same shapes
    gcases = [gen_degenerate(r) for _ in range(12)]
    glines = [atimes_line(c, c["x"]) for c in gcases]
    for c, l in zip(gcases, glines):
        rcg, go, eg = V.run_lines(unit, [l])
        rcm, gm, em = V.run_lines(model, [l])
        run.count(l, True)
        run.dist("atimes:degenerate")
        if len(go) != 1:
            run.violation("atimes:out-of-bounds:single-point-periodic-dimension", "atimes crashed (rc=%d) on a grid with one point in a periodic dimension [case: %s]" % (rcg, l[:300]),
                          {"kind": "unit", "case": l})
        elif "OUTSIDE" in go[0]:
            run.violation("atimes:out-of-bounds:single-point-periodic-dimension",
                          "atimes indexes its arrays outside the grid when a periodic dimension has a single point: %s [case: %s]" % (go[0].split("|", 1)[1], l[:300]),
                          {"kind": "unit", "case": l, "impl": go[0]})
        elif not go[0].startswith("REFUSED"):
            run.violation("atimes:out-of-bounds:single-point-periodic-dimension", "a PMF grid with one point in a periodic dimension was not refused (the sentinels did not catch an access outside on this shape): %s [case: %s]" % (go[0][:200], l[:300]),
                          {"kind": "unit", "case": l, "impl": go[0]})
        else:
            if "input" not in go[0] or "iter=0" not in go[0] or "data_untouched=1" not in go[0] or "err=-1" not in go[0]:
                run.violation("integrate:refused-grid-touched", "a refused grid must give an input error and leave everything untouched: %s [case: %s]" % (go[0], l[:300]),
                              {"kind": "unit", "case": l, "impl": go[0]})
            if not (gm and gm[0].startswith("REFUSED")):
                run.mismatch("refused-shape", l, go[0], gm[0] if gm else None)

    # ---------------- numerical experiment: second-order convergence to a smooth surface (up to a constant)
    cubic_exactness(run, unit, model, r, quick)
    conv_experiment(run, unit, r, quick)
    # ---------------- end to end: ABF through the engine simulator, the files it writes
    e2e(run, r, quick, exes["c16e2e"], model)
    shared_abf(run, r, quick, model)
    run.cov["correspondence"].update({"oned_ti_cases": len(cases), "div_cases": len(dlines), "atimes_cases": len(alines),
                                      "solve_cases": len(slines), "solve_converged": nconv})


def cubic_exactness(run, unit, model, r, quick):
    """C16_scheme_exact_on_cubics on the implementation: gradients of a random polynomial of total degree <= 3 at the bin
    centres (one sample per bin, no count grid); at every interior PMF node set_div must equal atimes of the node samples
    (dyadic coefficients, power-of-two widths: exact up to rounding of sums)."""
    import itertools
    ncase = 16 if quick else 200
    for cidx in range(ncase):
        nd = r.choice([2, 2, 3])
        per = [int(r.random() < 0.4) for _ in range(nd)]
        nxg = [r.randint(3, 5 if nd == 2 else 4) for _ in range(nd)]
        w = r.sample(WIDTHS_P2, nd)
        org = [V.dyadic(r, -2, 2, 2) for _ in range(nd)]
        mons = [m for m in itertools.product(range(4), repeat=nd) if sum(m) <= 3]
        coef = {m: Fr(V.dyadic(r, -4, 4, 2)) for m in mons}
        def U(x):
            tot = Fr(0)
            for m, c in coef.items():
                t = c
                for e, v in zip(m, x):
                    t *= v ** e
                tot += t
            return tot
        def dU(x, d):
            tot = Fr(0)
            for m, c in coef.items():
                if m[d] == 0:
                    continue
                t = c * m[d]
                for k, (e, v) in enumerate(zip(m, x)):
                    t *= v ** (e - 1 if k == d else e)
                tot += t
            return tot
        ev = []
        for b in itertools.product(*[range(n) for n in nxg]):
            xc = [Fr(org[d]) + (Fr(b[d]) + Fr(1, 2)) * Fr(w[d]) for d in range(nd)]
            ev.append((list(b), [float(-dU(xc, d)) for d in range(nd)]))      # acc_force sums the opposite of the force
        c = {"nd": nd, "per": per, "nxg": nxg, "w": w, "hs": 0, "sm": 0, "mins": 0, "fulls": 1, "npre": len(ev), "nev": 0, "ev": ev}
        nxp = [n if p else n + 1 for n, p in zip(nxg, per)]
        nodes = list(itertools.product(*[range(n) for n in nxp]))
        samples = [float(U([Fr(org[d]) + Fr(q[d]) * Fr(w[d]) for d in range(nd)])) for q in nodes]
        l1 = div_line(c)
        l2 = atimes_line({"nd": nd, "per": per, "nxp": nxp, "w": w}, samples)
        rc, out, e = V.run_lines(unit, [l1, l2])
        run.count("cubic:" + l1[:200], True)
        run.dist("cubic:nd=%d" % nd)
        if len(out) != 2:
            run.violation("unit:crash", "the C16 unit driver died in the cubic stream (rc=%d): %s" % (rc, e[-300:]), {"kind": "unit", "case": l1})
            return
        div = parse_floats(split_bar(out[0])[1])
        lap = parse_floats(out[1].split("|")[0].split()[1:])
        scale = max([1.0] + [abs(v) for v in div] + [abs(v) for v in lap])
        bad = [(q, a, b) for q, a, b in zip(nodes, div, lap)
               if all(1 <= q[d] <= nxp[d] - 2 for d in range(nd)) and abs(a - b) > 1e-9 * scale]
        ninner = sum(1 for q in nodes if all(1 <= q[d] <= nxp[d] - 2 for d in range(nd)))
        run.dist("cubic:interior-nodes", ninner)
        if bad:
            run.violation("cubic:not-exact", "gradients of a cubic polynomial: at interior node %s the divergence is %r but the Laplacian of the node samples is %r "
                          "(the scheme must be exact on cubics) [cases: %s // %s]" % (bad[0][0], bad[0][1], bad[0][2], l1[:300], l2[:200]),
                          {"kind": "unit", "case": l1, "case2": l2, "impl": out[0][:2000], "impl2": out[1][:2000]})


def conv_experiment(run, unit, r, quick):
    shapes = [(2, [0, 0]), (2, [1, 0]), (2, [1, 1])] + ([(3, [0, 1, 0])] if quick else [(3, [0, 0, 0]), (3, [0, 1, 0]), (3, [1, 1, 1])])
    for nd, per in shapes:
        L = [1.0, 2.0, 1.5][:nd]
        ns = [8, 16, 32] if nd == 2 else [4, 8, 16]
        errs = []
        for n in ns:
            line, ref = conv_case(nd, per, n, L, 1e-11)
            rc, out, e = V.run_lines(unit, [line], timeout=900)
            if len(out) != 1:
                run.violation("unit:crash", "the C16 unit driver died in the convergence experiment (rc=%d): %s" % (rc, e[-300:]), {"kind": "conv", "nd": nd, "per": per, "n": n})
                return
            p = split_bar(out[0])
            x = parse_floats(p[2])
            if not finite(x) or len(x) != len(ref):
                run.violation("conv:not-finite", "integrate() returned a non-finite or mis-sized surface for gradients of a smooth surface [nd=%d per=%s n=%d]" % (nd, per, n),
                              {"kind": "unit", "case": line[:100000]})
                errs = None
                break
            mx, mr = sum(x) / len(x), sum(ref) / len(ref)
            errs.append(math.sqrt(sum(((a - mx) - (b - mr)) ** 2 for a, b in zip(x, ref)) / len(x)))
            run.count("conv:%d:%s:%d" % (nd, per, n), True)
        if errs is None:
            continue
        orders = [math.log(max(errs[i], 1e-300) / max(errs[i + 1], 1e-300), 2) for i in range(len(errs) - 1)]
        run.dist("conv:nd=%d,per=%s:order=%.2f" % (nd, "".join(map(str, per)), orders[-1]))
        run.cov["correspondence"].setdefault("convergence", []).append({"nd": nd, "per": per, "n": ns, "rms_error": errs, "orders": orders})
        if not (orders[-1] >= 1.8):
            run.violation("conv:order", "gradients sampled from a smooth surface: rms error (after removing the constant) %s at n=%s, observed order %s < 1.8 [nd=%d per=%s]"
                          % (errs, ns, orders, nd, per), {"kind": "conv", "nd": nd, "per": per, "ns": ns, "errors": errs})


def read_multicol(path):
    """grid file written by write_multicol: header '# nd' + one '# lower width nx periodic' line per dimension"""
    hdr, rows = [], []
    for l in open(path):
        t = l.split()
        if not t:
            continue
        if t[0] == "#":
            hdr.append(t[1:])
        else:
            rows.append([float(x) for x in t])
    nd = int(hdr[0][0])
    dims = [(float(h[0]), float(h[1]), int(h[2]), int(h[3])) for h in hdr[1:1 + nd]]
    return nd, dims, rows


def gen_e2e(r, k):
    nd = r.choice([1, 2, 2, 3])
    vars_ = []
    for d in range(nd):
        per = r.random() < 0.45
        w = r.choice([0.5, 0.25, 1.0])
        n = r.randint(2, 4) if nd < 3 else r.randint(2, 3)
        lo = r.choice([0.0, -1.0, 0.5])
        if nd == 3:
            w = [0.5, 0.25, 1.0][(d + k) % 3]      # three different widths in every 3-D scenario
        vars_.append({"per": per, "w": w, "n": n, "lo": lo, "hi": lo + n * w})
    # magnitude of the forces: O(1), very flat surfaces (2^-24) or large (2^12); the equations are linear
    fscale = r.choice([1.0, 1.0, 2.0 ** -24, 2.0 ** 12])
    steps = []
    for _ in range(r.randint(8, 30)):
        z = [v["lo"] + (r.randrange(v["n"]) + r.choice([0.25, 0.5, 0.75])) * v["w"] for v in vars_]
        for d_, v in enumerate(vars_):
            if not v["per"] and r.random() < 0.12:      # just outside by a quarter bin, exactly on a boundary, far outside
                z[d_] = r.choice([v["lo"] - 0.25 * v["w"], v["hi"] + 0.25 * v["w"], v["lo"], v["hi"], v["hi"] + 64.0, v["lo"] - 64.0])
        e = [V.dyadic(r, -8, 8) * fscale for _ in range(nd)]
        steps.append((z, e))
    ext = r.random() < 0.35          # extended-Lagrangian variables: CZAR estimator, <prefix>.czar.grad / .czar.pmf
    # files written by the outputFreq schedule during the run (no post_run) instead of at the end
    freq = r.random() < 0.3
    ofreq = r.choice([3, 4, 5, 6, 7])          # outputFreq, not only powers of two
    if freq:
        while len(steps) < 2 * ofreq + 1:
            steps.append(steps[r.randrange(len(steps))])
    # force timing: same-step total forces, or lagged by one step (as in NAMD) with or without the engine including the
    # Colvars forces in what it reports.  With lagged forces force_bin is the previous step's bin: the trajectories visit a
    # random bin at every step, so bin != force_bin at most steps (2-D/3-D: a sample that lands in force_bin while the
    # divergence is refreshed elsewhere shows in e2e:incremental-vs-batch and e2e:poisson)
    same = r.random() < 0.4
    incl = r.random() < 0.5
    return {"id": "e2e%d" % k, "nd": nd, "vars": vars_, "steps": steps, "full": r.choice([1, 2, 4]), "apply": r.random() < 0.5,
            "ext": ext, "freq": freq, "ofreq": ofreq, "same": same, "incl": incl, "fscale": fscale,
            # absolute step numbers beyond 2^31, 2^32, 2^53 (vsim setstep) with schedules that are not powers of two
            "step0": r.choice([0, 0, 2 ** 31 + 5, 2 ** 32 + 3, 2 ** 53 - 64, 2 ** 62 - 1000]),
            "pabf_freq": r.choice([1, 3, 5]),
            # a configuration that is rejected in the middle of the session (unknown variable), the run goes on
            "badconf": r.random() < 0.2,
            # a custom `grid { ... }` block in the abf bias: half the width, one bin cut off at both ends (non-periodic variables)
            "gridblock": (not ext) and all(not v["per"] for v in vars_) and r.random() < 0.35,
            # entry points that rebuild or use the divergence: state file (text/binary) between two runs, inputPrefix,
            # projected ABF (integration at every step)
            "flow": "plain" if (freq or ext) else r.choice(["plain", "plain", "restart-text", "restart-binary", "restart-buffer", "restart-string",
                                                                "inputprefix", "pabf" if nd >= 2 else "plain"])}


def e2e_scenario(c):
    nd = c["nd"]
    flow = c.get("flow", "plain")
    def config(extra_abf=()):
        L = ["config EOF"]
        for d, v in enumerate(c["vars"]):
            L += ["colvar {", "  name v%d" % d, "  lowerBoundary %r" % v["lo"], "  upperBoundary %r" % v["hi"], "  width %r" % v["w"]]
            if c.get("ext"):
                L += ["  extendedLagrangian on", "  extendedFluctuation %r" % (0.5 * v["w"]), "  extendedTimeConstant 20", "  extendedLangevinDamping 0"]
            L += ["  distanceZ {", "    main { atomNumbers %d }" % (d + 1), "    ref { dummyAtom (0,0,0) }", "    axis (0,0,1)",
                  "    oneSiteTotalForce on"]
            if v["per"]:
                L += ["    period %r" % (v["hi"] - v["lo"]), "    wrapAround %r" % (0.5 * (v["hi"] + v["lo"]))]
            L += ["  }", "}"]
        L += ["abf {", "  name a", "  colvars " + " ".join("v%d" % d for d in range(nd)), "  fullSamples %d" % c["full"],
              "  applyBias %s" % ("on" if c["apply"] else "off")] + list(extra_abf)
        if c.get("gridblock"):
            L += ["  grid {", "    widths " + " ".join(repr(v["w"] / 2) for v in c["vars"]),
                  "    lower_boundaries " + " ".join(repr(v["lo"] + v["w"] / 2) for v in c["vars"]),
                  "    upper_boundaries " + " ".join(repr(v["hi"] - v["w"] / 2) for v in c["vars"]), "  }"]
        return L + ["}", "EOF", "show cv 0 energy 0 bias 0 atomf 0"]
    def steps(lst):
        L = []
        for z, e in lst:
            for d in range(nd):
                L.append("pos %d 0 0 %s" % (d + 1, V.hexf(z[d])))
                L.append("eforce %d 0 0 %s" % (d + 1, V.hexf(e[d])))
            L.append("step")
        return L
    head = ["natoms %d" % nd, "samestep %d" % (1 if c.get("same", True) else 0), "includecv %d" % (1 if c.get("incl", True) else 0),
            "temperature 300", "dt 1"]
    if c.get("freq"):
        head += ["restartfreq %d" % c.get("ofreq", 4)]
    first = (["setstep %d" % c["step0"]] if c.get("step0") else [])
    def mid(lst):
        """steps with, optionally, a rejected configuration in the middle"""
        if not c.get("badconf") or len(lst) < 2:
            return steps(lst)
        h = len(lst) // 2
        return steps(lst[:h]) + ["config EOF", "abf {", "  name rejected", "  colvars no_such_variable", "}", "EOF"] + steps(lst[h:])
    half = len(c["steps"]) // 2
    if flow in ("restart-text", "restart-binary", "restart-buffer", "restart-string"):
        # a run, a state file, a fresh module that loads it (the divergence must be rebuilt from the loaded grids), a second run
        L = head + ["prefix %s" % c["id"], "new"] + config() + first + mid(c["steps"][:half])
        binary = flow in ("restart-binary", "restart-buffer")
        loadcmd = {"restart-buffer": "loadbuf %s.st", "restart-string": "loadstr %s.st"}.get(flow, "load %s.st") % c["id"]
        L += ["save %s %s.st" % ("binary" if binary else "text", c["id"]), "new"] + config() + [loadcmd]
        # (the step at which the state was saved is repeated after the load with the same coordinates, as an engine does:
        #  Colvars compares the recomputed values with the saved ones)
        L += steps(c["steps"][max(half - 1, 0):])
    elif flow == "inputprefix":
        # a first run writes <id>a.count/.grad; a second bias starts from them through inputPrefix and goes on
        L = head + ["prefix %sa" % c["id"], "new"] + config() + first + mid(c["steps"][:half]) + ["postrun"]
        L += ["prefix %s" % c["id"], "new"] + config(["  inputPrefix %sa" % c["id"]]) + steps(c["steps"][half:])
    elif flow == "pabf":
        # projected ABF: the surface is integrated at every step and the bias force is its finite-difference gradient
        L = head + ["prefix %s" % c["id"], "new"] + config(["  pABFintegrateFreq %d" % c.get("pabf_freq", 1)]) + first + mid(c["steps"])
    else:
        L = head + ["prefix %s" % c["id"], "new"] + config() + first + mid(c["steps"])
    if not c.get("freq"):
        L.append("postrun")
    if nd >= 2:
        L.append("divcheck a")      # after the files are written: set_div() repairs a stale divergence
    return L


def e2e(run, r, quick, exe=None, model=None):
    """ABF on 1-3 exact variables driven through the engine simulator; at the end of the run Colvars writes
    <prefix>.count/.grad/.pmf; oracle on those files alone: the written surface is the cumulative sum (1-D) or
    satisfies Laplacian(pmf) = divergence(grad) to the solver tolerance (2-D/3-D), minimum shifted to zero."""
    import itertools
    exe = exe or V.build_prog("c16e2e", PROGS["c16e2e"])
    d = V.scratch("C16")
    ncase = 14 if quick else 120
    for k in range(ncase + 1):
        c = gen_e2e(r, k)
        degenerate = (k == ncase)
        if degenerate:
            # a periodic variable whose single bin spans its period, in 2-D: the PMF grid has one point along it;
            # the bias must be refused with an input error (integration is on by default)
            c["nd"] = 2
            c["vars"] = [{"per": True, "w": 2.0, "n": 1, "lo": 0.0, "hi": 2.0}, {"per": False, "w": 0.5, "n": 3, "lo": -1.0, "hi": 0.5}]
            c["steps"] = [([0.25 + 0.5 * (i % 3), -0.75 + 0.5 * (i % 3)], [1.0 + i, -2.0]) for i in range(6)]
        sc = os.path.join(d, c["id"] + ".scn")
        for ext in (".pmf", ".grad", ".count"):
            try:
                os.remove(os.path.join(d, c["id"] + ext))
            except OSError:
                pass
        with open(sc, "w") as f:
            f.write("\n".join(e2e_scenario(c)) + "\n")
        rc, o, e = V.sh([exe, sc], cwd=d, timeout=300)
        rep = {"kind": "e2e", "scenario": e2e_scenario(c)}
        run.count("e2e:" + json.dumps(c, sort_keys=True), True)
        run.dist("e2e:nd=%d,per=%s" % (c["nd"], "".join(str(int(v["per"])) for v in c["vars"])))
        run.dist("e2e:forces=%s" % ("same-step" if c.get("same", True) else "lagged,includecv=%d" % c.get("incl", 1)))
        run.dist("e2e:force-scale=%g" % c.get("fscale", 1.0))
        run.dist("e2e:flow=%s" % c.get("flow", "plain"))
        if degenerate:
            run.dist("e2e:single-point-periodic-dimension")
            if "CONFIG err=ok" in o:
                run.violation("e2e:single-point-periodic-dimension-accepted", "abf on 2 variables with integration and a periodic variable whose width is its period was accepted: "
                              "the Poisson solver indexes outside its arrays on that grid", rep)
            elif "CONFIG err=input" not in o:
                run.violation("e2e:run", "unexpected outcome for the single-bin periodic configuration: %s" % o[-300:], rep)
            continue
        o_chk = o
        if c.get("badconf"):
            run.dist("e2e:rejected-configuration-mid-session")
            o_chk = "\n".join(l for l in o.splitlines() if not (l.startswith("CONFIG err=") and "err=ok" not in l))
        if c.get("step0"):
            run.dist("e2e:first-step>=2^31")
        if c.get("flow", "").startswith("restart"):
            want_it = c.get("step0", 0) + max(len(c["steps"]) // 2 - 1, 0)
            got = [l for l in o.splitlines() if l.startswith("LOAD ")]
            if not got or ("it=%d" % want_it) not in got[0]:
                run.violation("e2e:restart-step", "after loading the state (%s) the module is at %s, expected step %d" % (c["flow"], got[:1], want_it), rep)
        if rc != 0 or ("POSTRUN err=ok" not in o and not c.get("freq")) or "CONFIG err=ok" not in o or "err=input" in o_chk or "err=file" in o_chk or "LOAD err=error" in o:
            run.violation("e2e:run", "the ABF scenario did not run to the end (rc=%d): %s" % (rc, (o + e)[-300:]), rep)
            continue
        dc = [l for l in o.splitlines() if l.startswith("DIVCHECK ")]
        if c["nd"] >= 2:
            if not dc or dc[0].startswith("DIVCHECK none"):
                run.violation("e2e:run", "no divergence array to inspect after the run: %s" % o[-200:], rep)
            else:
                parts = dc[0][len("DIVCHECK "):].split("|")
                inc, bat = parse_floats(parts[3].split()), parse_floats(parts[4].split())
                nsam = sum(int(x) for x in parts[2].split())
                run.dist("e2e:divcheck-samples", nsam)
                if not same(inc, bat):
                    badi = [i for i, (x, y) in enumerate(zip(inc, bat)) if x != y and not (x != x and y != y)][:6]
                    run.violation("e2e:incremental-vs-batch", "after an ABF run (%s forces, %d samples) the divergence kept up to date by colvarbias_abf::update differs from "
                                  "set_div() of the accumulated gradients at flat index(es) %s: incremental %s, batch %s [%s]"
                                  % ("same-step" if c.get("same", True) else "lagged", nsam, badi, [inc[i] for i in badi], [bat[i] for i in badi], c["id"]), rep)
                if model:
                    ml = "DIVSTATE " + parts[0].strip() + " | " + parts[1].strip() + " | " + parts[2].strip()
                    rcm, mo, em = V.run_lines(model, [ml])
                    if not mo or not same(parse_floats(mo[0].split()[1:]), inc):
                        run.mismatch("abf-site-divergence", c["id"] + ": " + ml[:300], " ".join(parts[3].split()[:12]), (mo[0] if mo else em)[:300])
        if c.get("gridblock"):
            run.dist("e2e:custom-grid-block")
            try:
                _, gd_, _ = read_multicol(os.path.join(d, c["id"] + ".grad"))
                _, cd_, _ = read_multicol(os.path.join(d, c["id"] + ".count"))
                want = [(v["lo"] + v["w"] / 2, v["w"] / 2, 2 * v["n"] - 2, 0) for v in c["vars"]]
                if [tuple(x) for x in gd_] != [tuple(x) for x in cd_] or any(abs(a[0] - b[0]) > 1e-12 or abs(a[1] - b[1]) > 1e-12 or a[2] != b[2] for a, b in zip(gd_, want)):
                    run.violation("e2e:grid-geometry", "abf with a custom grid block: the gradient file is on the grid %s, the count file on %s, configured %s: "
                                  "mean forces and counts are binned on different grids" % (gd_, cd_, want), rep)
            except (OSError, ValueError, IndexError):
                pass
        pairs = [(".grad", ".pmf", ".count")] + ([(".czar.grad", ".czar.pmf", ".zcount")] if c.get("ext") else [])
        if c.get("ext"):
            run.dist("e2e:extended-lagrangian-czar")
        if c.get("freq"):
            run.dist("e2e:written-by-outputFreq")
        for gext, pext, cext in pairs:
            file_oracle(run, d, c["id"], gext, pext, cext, rep)
        if k == 0:
            run.sample({"e2e_scenario": e2e_scenario(c)[:40]})


def file_oracle(run, d, stem, gext, pext, cext, rep):
    """oracle on written files alone: <stem><pext> solves the discrete problem of <stem><gext> / <stem><cext>"""
    import itertools
    try:
        nd, gdims, grows = read_multicol(os.path.join(d, stem + gext))
        _, pdims, prows = read_multicol(os.path.join(d, stem + pext))
        _, cdims, crows = read_multicol(os.path.join(d, stem + cext))
    except (OSError, ValueError, IndexError) as ex:
        run.violation("e2e:files", "missing or unreadable %s/%s/%s after the run: %s" % (gext, pext, cext, ex), rep)
        return
    per = [g[3] for g in gdims]
    nxg = [g[2] for g in gdims]
    w = [g[1] for g in gdims]
    nxp = [n if p else n + 1 for n, p in zip(nxg, per)]
    pm = [row[nd] for row in prows]
    if [p[2] for p in pdims] != nxp or len(pm) != len(list(itertools.product(*[range(n) for n in nxp]))):
        run.violation("e2e:pmf-shape", "PMF grid %s for gradient grid %s periodic %s" % ([p[2] for p in pdims], nxg, per), rep)
        return
    if any(abs(pd[0] - (gd[0] - 0.5 * gd[1])) > 1e-12 for pd, gd in zip(pdims, gdims)):
        run.violation("e2e:pmf-origin", "PMF grid is not shifted by half a bin: %s vs %s" % (pdims, gdims), rep)
    grad = {}
    for row, ix in zip(grows, itertools.product(*[range(n) for n in nxg])):
        grad[ix] = row[nd:2 * nd]
    nsamp = sum(int(row[nd]) for row in crows)
    if not finite(pm) or not all(finite(v) for v in grad.values()):
        run.violation("e2e:not-finite", "the written PMF or gradients contain non-finite values [%s]" % stem, rep)
        return
    if abs(min(pm)) > 1e-12:
        run.violation("e2e:minimum", "the written PMF has minimum %r instead of 0" % min(pm), rep)
    if nd == 1:
        g = [grad[(i,)][0] for i in range(nxg[0])]
        corr = sum(g) / len(g) if per[0] else 0.0
        acc, exp = 0.0, []
        for i in range(nxp[0]):
            exp.append(acc)
            if i < nxg[0]:
                acc += (g[i] - corr) * w[0]
        mn = min(exp)
        if any(not close(a, b - mn, 1e-10) for a, b in zip(pm, exp)):
            run.violation("e2e:pmf-1d", "written 1-D PMF %s is not the cumulative sum %s of the written gradients" % (pm, [b - mn for b in exp]), rep)
        if per[0] and not close(acc, 0.0, 1e-10):
            run.violation("e2e:pmf-1d-periodic", "cumulative sum over the period is %r" % acc, rep)
        return
    def gr(ix):
        q = []
        for dd in range(nd):
            i = ix[dd]
            if per[dd]:
                i %= nxg[dd]
            elif i < 0 or i >= nxg[dd]:
                return [0.0] * nd
            q.append(i)
        return grad[tuple(q)]
    bvec = []
    for p in itertools.product(*[range(n) for n in nxp]):
        tot = 0.0
        for dd in range(nd):
            acc = 0.0
            for off in itertools.product(*[(-1, 0)] * nd):
                gg = gr([p[q] + off[q] for q in range(nd)])
                acc += gg[dd] if off[dd] == 0 else -gg[dd]
            tot += acc / w[dd]
        bvec.append(tot / (2 ** (nd - 1)))
    Ax = [float(v) for v in lap_oracle({"nd": nd, "per": per, "nxp": nxp, "w": w}, pm)]
    bn = math.sqrt(sum(v * v for v in bvec))
    rn = math.sqrt(sum((u - v) ** 2 for u, v in zip(Ax, bvec)))
    if not (rn <= 1e-4 * bn):      # purely relative: flat surfaces (tiny gradients) must be integrated as well as steep ones
        run.violation("e2e:poisson", "written PMF: |Laplacian(pmf) - divergence(written gradients)| = %g > 1e-4 |divergence| = %g (%d samples) [%s]"
                      % (rn, 1e-4 * bn, nsamp, stem + pext), rep)


def divcheck_oracle(run, line, what, rep, model=None, tag=""):
    """DIVCHECK / DIVCHECK-LOCAL line: the divergence array held by the PMF object vs set_div() of its gradient grids"""
    parts = line.split(" ", 1)[1].split("|")
    inc, bat = parse_floats(parts[3].split()), parse_floats(parts[4].split())
    nsam = sum(int(x) for x in parts[2].split())
    if not same(inc, bat):
        badi = [i for i, (x, y) in enumerate(zip(inc, bat)) if x != y and not (x != x and y != y)][:6]
        run.violation("e2e:incremental-vs-batch", "%s (%d samples): the divergence array the PMF was integrated from differs from set_div() of the gradient "
                      "grids beside it at flat index(es) %s: held %s, batch %s [%s]" % (what, nsam, badi, [inc[i] for i in badi], [bat[i] for i in badi], tag), rep)
    if model:
        ml = "DIVSTATE " + parts[0].strip() + " | " + parts[1].strip() + " | " + parts[2].strip()
        rcm, mo, em = V.run_lines(model, [ml])
        if not mo or not same(parse_floats(mo[0].split()[1:]), inc):
            run.mismatch("abf-site-divergence", tag + ": " + ml[:300], " ".join(parts[3].split()[:12]), (mo[0] if mo else em)[:300])
    return nsam


def shared_abf(run, r, quick, model=None):
    """multiple-walker (shared) ABF through the walker harness of C14 (socket replica interface; the walkers are c16e2e
    processes): 2-3 walkers in lock step, gradients exchanged every sharedFreq steps; in half of the cases every walker is
    restarted from a state file BETWEEN two sharing steps and the output is written before the next one.  At the end every
    walker writes its LOCAL grids and local_pmf (<prefix>.count/.grad/.pmf) and walker 0 the collected ones (<prefix>.all.*).
    File oracle on every written .pmf/.grad pair; divcheck on the collected and on the local PMF objects."""
    import shutil
    sp = os.path.join(V.ROOT, "props", "C14")
    try:
        sys.path.insert(0, sp)
        import walkers as W
    except Exception as ex:
        run.notes.append("shared ABF stream skipped: cannot import props/C14/walkers.py (%s)" % ex)
        return
    finally:
        if sp in sys.path:
            sys.path.remove(sp)
    exe = V.build_prog("c16e2e", PROGS["c16e2e"])
    base = os.path.join(V.BUILD, "scratch", "C16sh")
    for k in range(3 if quick else 16):
        n = r.choice([2, 2, 3])
        nd = r.choice([2, 2, 3])
        nb = [r.randint(2, 3) for _ in range(nd)]
        wd = r.sample([0.5, 1.0, 0.25], nd)
        F = r.choice([3, 4, 5])
        restart = (k % 2 == 0)
        # T1 steps (numbered 0 .. T1-1) with the last one strictly between two sharing steps; after the restart that step is
        # repeated and `extra` more are made, all before the next multiple of sharedFreq
        rem = r.randint(1, F - 1)
        T1 = F * r.randint(1, 3) + rem + 1          # last step number = F*m + rem
        extra = r.randint(0, F - 1 - rem)
        nsteps = T1 + extra
        dirs = []
        for i in range(n):
            dd = os.path.join(base, "c%d" % k, "w%d" % i)
            shutil.rmtree(dd, ignore_errors=True)
            os.makedirs(dd)
            dirs.append(dd)
        conf = []
        for d in range(nd):
            conf += ["colvar {", "  name v%d" % d, "  lowerBoundary 0", "  upperBoundary %r" % (nb[d] * wd[d]), "  width %r" % wd[d],
                     "  distanceZ {", "    main { atomNumbers %d }" % (d + 1), "    ref { dummyAtom (0,0,0) }", "    axis (0,0,1)",
                     "    oneSiteTotalForce on", "  }", "}"]
        conf += ["abf {", "  name a", "  colvars " + " ".join("v%d" % d for d in range(nd)), "  fullSamples 2", "  shared on", "  sharedFreq %d" % F, "}"]
        setup_l = ["natoms %d" % nd, "samestep 1", "includecv 1", "prefix sh", "new", "config EOF"] + conf + ["EOF", "show cv 0 energy 0 bias 0 atomf 0"]
        sched = [[[(r.randrange(nb[d]) + r.choice([0.25, 0.5, 0.75])) * wd[d] for d in range(nd)] for _ in range(n)] for _ in range(nsteps)]
        forces = [[[V.dyadic(r, -8, 8) for d in range(nd)] for _ in range(n)] for _ in range(nsteps)]
        rep = {"kind": "shared", "n": n, "setup": setup_l, "positions": sched, "forces": forces, "sharedFreq": F,
               "restart_after_step": (T1 - 1) if restart else None, "steps": nsteps}
        run.count("shared:%d" % k, True)
        run.dist("shared-abf:n=%d,nd=%d,sharedFreq=%d,%s" % (n, nd, F, "restart-between-sharing-steps" if restart else "no-restart"))
        def lines(t):
            def f(i):
                L = []
                for d in range(nd):
                    L.append("pos %d 0 0 %s" % (d + 1, V.hexf(sched[t][i][d])))
                    L.append("eforce %d 0 0 %s" % (d + 1, V.hexf(forces[t][i][d])))
                return L + ["step"]
            return f
        try:
            with W.Team(exe, n, dirs, timeout_ms=8000) as T:
                res = T.all_do(setup_l, 60.0)
                if not all(any(x.startswith("CONFIG err=ok") for x in rr) for rr in res):
                    run.violation("shared:config", "shared ABF configuration failed: %s" % res[0][-3:], rep)
                    continue
                for t in range(T1):
                    T.all_do(lines(t), 60.0)
                if restart:
                    res = T.all_do(["save %s sh.st" % r.choice(["text", "binary"])] + setup_l + ["load sh.st"], 60.0)
                    if not all(any(x.startswith("LOAD err=ok") for x in rr) for rr in res):
                        run.violation("shared:restart", "a shared ABF walker could not be restarted from its state: %s" % [rr[-3:] for rr in res], rep)
                        continue
                    T.all_do(lines(T1 - 1), 60.0)        # the engine repeats the step at which the state was saved
                for t in range(T1, nsteps):
                    T.all_do(lines(t), 60.0)
                res = T.all_do(["postrun", "divcheck a", "divcheck a local"], 60.0)
                if not all(any(x.startswith("POSTRUN err=ok") for x in rr) for rr in res):
                    run.violation("shared:postrun", "post_run of a shared ABF walker failed: %s" % [rr[-2:] for rr in res], rep)
                    continue
        except W.WalkerTimeout as ex:
            run.notes.append("shared ABF case %d: walkers did not answer (%s); skipped" % (k, str(ex)[:100]))
            run.dist("shared-abf:skipped-timeout")
            continue
        for i in range(n):
            file_oracle(run, dirs[i], "sh", ".grad", ".pmf", ".count", dict(rep, walker=i, files="local"))
            for x in res[i]:
                if x.startswith("DIVCHECK-LOCAL ") and "none" not in x.split()[1:2]:
                    divcheck_oracle(run, x, "shared ABF walker %d, LOCAL PMF%s" % (i, ", restarted between two sharing steps" if restart else ""),
                                    dict(rep, walker=i), model, "shared c%d w%d local" % (k, i))
                elif x.startswith("DIVCHECK ") and "none" not in x.split()[1:2]:
                    divcheck_oracle(run, x, "shared ABF walker %d, collected PMF" % i, dict(rep, walker=i), model, "shared c%d w%d" % (k, i))
        if os.path.exists(os.path.join(dirs[0], "sh.all.pmf")):
            file_oracle(run, dirs[0], "sh.all", ".grad", ".pmf", ".count", dict(rep, walker=0, files="all"))
            run.dist("shared-abf:collected-files-checked")
        else:
            run.violation("shared:files", "walker 0 did not write the collected sh.all.pmf", rep)


def replay(path):
    j = json.load(open(path))
    rp = j["replay"]
    print(json.dumps(j, indent=1)[:3000])
    if rp.get("kind") == "e2e":
        exe = V.build_prog("c16e2e", PROGS["c16e2e"])
        d = V.scratch("C16")
        sc = os.path.join(d, "replay.scn")
        open(sc, "w").write("\n".join(rp["scenario"]) + "\n")
        print(V.sh([exe, sc], cwd=d)[1][-2000:])
        print("files in", d)
    if rp.get("kind") == "unit":
        unit = V.build_prog("c16unit", PROGS["c16unit"])
        model = V.extract_model("C16", EXTRACT, DRIVER, ["ocaml/fops.ml"])
        for key in ("case", "case2"):
            if rp.get(key):
                print("case :", rp[key])
                print("impl :", V.run_lines(unit, [rp[key]])[1])
                print("model:", V.run_lines(model, [rp[key]])[1])
    return 0
