# C16: PMF integration (1-D cumulative sum, incremental divergence = batch, symmetric Laplacian, residual certificate).
import os, sys, json, math
from fractions import Fraction as Fr
import vcommon as V

PROP = "coq/C16/Properties_C16.v"
EXTRACT = "coq/C16/Extract_C16.v"
DRIVER = "props/C16/driver.ml"
PROGS = {"c16unit": ["props/C16/unit.cpp"]}
WIDTHS_P2 = [1.0, 0.5, 0.25, 2.0, 0.125]
WIDTHS_ANY = [0.75, 1.5, 0.375, 1.25]

# the witness of C16_1d_periodic_closes_refuted (Properties_C16.v), replayed on the implementation on every run
REFUTED_ONED = "ONED 1 1 1 0 2 2 %s %s %s 1 2" % (V.hexf(1.0), V.hexf(1.0), V.hexf(0.0))


def fr(x):
    return Fr(x)


def close(a, b, tol=1e-9):
    return abs(a - b) <= tol * max(1.0, abs(a), abs(b))


def parse_floats(toks):
    return [float.fromhex(t) for t in toks]


# ------------------------------------------------------------------------------- generators
def gen_smooth(r):
    hs = r.random() < 0.7
    sm = r.random() < 0.4
    fulls = r.choice([1, 2, 4, 8, 5])
    mins = r.randint(0, fulls - 1)
    return hs, sm, mins, fulls


def gen_count(r, mins, fulls):
    # aim at the case splits of smooth_inverse_weight / the zero-count guard
    return r.choice([0, mins, mins + 1, fulls - 1, fulls, fulls + 1, r.randint(0, 12), 1, 2, 4, 8])


def gen_oned(r):
    per = r.random() < 0.5
    hs, sm, mins, fulls = gen_smooth(r)
    n = r.choice([1, 1, 2, 2, 3, 4, 5, 8, 12, r.randint(1, 16)])
    w = r.choice(WIDTHS_P2 + WIDTHS_ANY)
    data = [V.dyadic(r, -64, 64) for _ in range(n)]
    if r.random() < 0.3:   # exact averages: counts are powers of two
        cnt = [r.choice([0, 1, 2, 4, 8]) for _ in range(n)]
    else:
        cnt = [max(0, gen_count(r, mins, fulls)) for _ in range(n)]
    return "ONED %d %d %d %d %d %d %s %s %s" % (per, hs, sm, mins, fulls, n, V.hexf(w),
                                               " ".join(map(V.hexf, data)), " ".join(map(str, cnt)))


def gen_div(r, nd=None, solve=False):
    nd = nd or r.choice([2, 2, 3])
    per = [int(r.random() < 0.45) for _ in range(nd)]
    hi = 5 if nd == 2 else 3
    nxg = [r.choice([1, 1, 2, 3, r.randint(1, hi)]) for _ in range(nd)]
    if solve:
        nxg = [r.randint(2, 6 if nd == 2 else 4) for _ in range(nd)]
    w = [r.choice(WIDTHS_P2 + ([] if solve else WIDTHS_ANY)) for _ in range(nd)]
    hs, sm, mins, fulls = gen_smooth(r)
    if solve:
        sm = False
    npre = r.choice([0, 0, 0, r.randint(1, 6)])
    nev = r.randint(1, 40)
    ev = []
    hot = [r.randint(0, n - 1) for n in nxg]
    for e in range(npre + nev):
        m = r.random()
        if m < 0.35:     # edges / corners of the gradient grid (where wrapping and the zero edge gradient act)
            b = [r.choice([0, n - 1]) for n in nxg]
        elif m < 0.55:   # repeated arrivals in one bin (counts crossing minSamples / fullSamples)
            b = list(hot)
        else:
            b = [r.randint(0, n - 1) for n in nxg]
        f = [V.dyadic(r, -16, 16) for _ in range(nd)]
        ev.append((b, f))
    return {"nd": nd, "per": per, "nxg": nxg, "w": w, "hs": int(hs), "sm": int(sm), "mins": mins, "fulls": fulls,
            "npre": npre, "nev": nev, "ev": ev}


def div_line(c, cmd="DIV", tail=""):
    evs = " ".join(" ".join(map(str, b)) + " " + " ".join(map(V.hexf, f)) for b, f in c["ev"])
    return "%s %d %s %s %s %d %d %d %d %d %d %s%s" % (cmd, c["nd"], " ".join(map(str, c["per"])), " ".join(map(str, c["nxg"])),
                                                     " ".join(map(V.hexf, c["w"])), c["hs"], c["sm"], c["mins"], c["fulls"],
                                                     c["npre"], c["nev"], evs, tail)


def gen_atimes(r, nd=None):
    nd = nd or r.choice([2, 2, 3])
    per = [int(r.random() < 0.5) for _ in range(nd)]
    hi = 6 if nd == 2 else 4
    nxp = [r.choice([2, 2, 3, r.randint(2, hi)]) for _ in range(nd)]
    exact = r.random() < 0.8
    w = [r.choice(WIDTHS_P2 if exact else WIDTHS_ANY) for _ in range(nd)]
    nt = 1
    for n in nxp:
        nt *= n
    kind = r.choice(["rand", "rand", "rand", "const", "delta"])
    def vec():
        if kind == "const":
            c = V.dyadic(r, -8, 8)
            return [c] * nt
        if kind == "delta":
            v = [0.0] * nt
            v[r.randint(0, nt - 1)] = 1.0
            return v
        return [V.dyadic(r, -32, 32) for _ in range(nt)]
    return {"nd": nd, "per": per, "nxp": nxp, "w": w, "x": vec(), "y": vec(), "kind": kind, "exact": exact}


def atimes_line(c, v):
    return "ATIMES %d %s %s %s %s" % (c["nd"], " ".join(map(str, c["per"])), " ".join(map(str, c["nxp"])),
                                      " ".join(map(V.hexf, c["w"])), " ".join(map(V.hexf, v)))


# ------------------------------------------------------------------------------- independent oracles (exact rationals)
def fact_fr(hs, smoothed, mins, fulls, count):
    weight = Fr(count) if hs else Fr(1)
    if smoothed:
        if weight <= mins:
            return Fr(0)
        if weight < fulls:
            return (weight - mins) / (weight * (fulls - mins))
        return 1 / weight
    return 1 / weight if weight > 0 else Fr(0)


def oracle_oned(line, out):
    """property on the implementation's output alone: pmf[i] = sum_{j<i} (g_j - corr) w with g the bin averages
    (smoothed when requested), corr = mean gradient if periodic; a periodic surface closes."""
    t = line.split()
    per, hs, sm, mins, fulls, n = [int(x) for x in t[1:7]]
    w = fr(float.fromhex(t[7]))
    data = [fr(float.fromhex(x)) for x in t[8:8 + n]]
    cnt = [int(x) for x in t[8 + n:8 + 2 * n]]
    o = out.split()
    m = int(o[0])
    pmf = parse_floats(o[1:])
    if m != (n if per else n + 1) or len(pmf) != m:
        return "oned:size", "PMF grid has %d points for %d gradient bins (periodic=%d)" % (m, n, per)
    g = [fact_fr(hs, sm, mins, fulls, c) * d for c, d in zip(cnt, data)]
    corr = sum(g) / n if per else Fr(0)        # the mean of the gradients that are integrated
    if per and sm:
        # the code removes the mean of the UNsmoothed averages (average() is called without b_smoothed);
        # the increments are checked against that, the consequence (surface not periodic) is reported below
        corr = sum(fact_fr(hs, False, mins, fulls, c) * d for c, d in zip(cnt, data)) / n
    s = Fr(0)
    for i in range(m):
        if not close(pmf[i], float(s)):
            return "oned:cumsum", "pmf[%d] = %r but the cumulative sum of (gradient - mean)*width is %r" % (i, pmf[i], float(s))
        if i < n:
            s += (g[i] - corr) * w
    if per:
        # closing: continuing the sum over the last bin must return to pmf[0] = 0
        last = fr(pmf[n - 1]) + (g[n - 1] - corr) * w
        if not close(float(last), 0.0):
            return ("oned:periodic-smoothed-not-closed" if sm else "oned:periodic-not-closed",
                    "after a full period the surface is at %r instead of 0" % float(last))
    return None


def div_oracle(c):
    """divergence of the final gradient data, recomputed independently (exact rationals)"""
    nd, per, nxg = c["nd"], c["per"], c["nxg"]
    w = [fr(x) for x in c["w"]]
    gs, gc = {}, {}
    for b, f in c["ev"]:
        k = tuple(b)
        v = gs.setdefault(k, [Fr(0)] * nd)
        for d in range(nd):
            v[d] -= fr(f[d])
        gc[k] = gc.get(k, 0) + 1
    nxp = [n if p else n + 1 for n, p in zip(nxg, per)]
    def grad(ix):
        q = []
        for d in range(nd):
            i = ix[d]
            if per[d]:
                i %= nxg[d]
            elif i < 0 or i >= nxg[d]:
                return [Fr(0)] * nd
            q.append(i)
        k = tuple(q)
        if k not in gs:
            return [Fr(0)] * nd
        f = fact_fr(c["hs"], c["sm"], c["mins"], c["fulls"], gc[k])
        return [f * x for x in gs[k]]
    out = []
    import itertools
    for p in itertools.product(*[range(n) for n in nxp]):
        tot = Fr(0)
        for d in range(nd):
            acc = Fr(0)
            for off in itertools.product(*[(-1, 0)] * nd):
                g = grad([p[k] + off[k] for k in range(nd)])
                acc += g[d] if off[d] == 0 else -g[d]
            tot += acc / w[d]
        out.append(tot / (2 ** (nd - 1)))
    return out


def lap_oracle(c, v):
    """the documented discrete Laplacian: second differences, one-sided at non-periodic ends, with the terms of the
    other directions halved on non-periodic boundaries (exact rationals)"""
    import itertools
    nd, per, nxp = c["nd"], c["per"], c["nxp"]
    w = [fr(x) for x in c["w"]]
    strides = [1] * nd
    for d in range(nd - 2, -1, -1):
        strides[d] = strides[d + 1] * nxp[d + 1]
    a = [fr(x) for x in v]
    out = []
    for p in itertools.product(*[range(n) for n in nxp]):
        idx = sum(i * s for i, s in zip(p, strides))
        tot = Fr(0)
        for d in range(nd):
            n = nxp[d]
            def at(i):
                return a[idx + (i - p[d]) * strides[d]]
            if per[d]:
                t = at((p[d] - 1) % n) + at((p[d] + 1) % n) - 2 * at(p[d])
            elif p[d] == 0:
                t = at(1) - at(0)
            elif p[d] == n - 1:
                t = at(n - 2) - at(n - 1)
            else:
                t = at(p[d] - 1) + at(p[d] + 1) - 2 * at(p[d])
            f = Fr(1)
            for e in range(nd):
                if e != d and not per[e] and p[e] in (0, nxp[e] - 1):
                    f /= 2
            tot += f * t / (w[d] * w[d])
        out.append(tot)
    return out


def setup():
    V.extract_model("C16", EXTRACT, DRIVER, ["ocaml/fops.ml"])
    V.build_prog("c16unit", PROGS["c16unit"])


def same(a, b):
    return len(a) == len(b) and all(x == y or (x != x and y != y) for x, y in zip(a, b))


def split_bar(out):
    parts = [p.split() for p in out.split("|")]
    return parts


def check(run):
    r = V.rng("C16")
    quick = run.tier == "quick"
    scale = 1 if quick else 25
    run.cov["rule"] = ("ONED: 1-D gradient/count grids (1-16 bins, periodic or not, with/without sample grid, smoothed or not, counts "
                       "on the minSamples/fullSamples/zero boundaries), PMF compared exactly with the model and with an exact cumulative sum; "
                       "DIV: 2-D/3-D arrival histories (bins on edges/corners, repeated bins, mixed periodicity, 1-5 bins per dimension, "
                       "preloaded data + set_div), incremental divergence vs batch vs model vs exact recomputation, and a shuffled copy of each history; "
                       "ATIMES: Laplacian on 2..6-point shapes vs model vs exact stencil, symmetry <x,Ay>=<Ax,y> and constants in the kernel; "
                       "SOLVE: residual certificate of the conjugate-gradient output. distinct = distinct case text; non-trivial = periodic or smoothed "
                       "1-D case with >=2 bins, history with >=2 arrivals touching a boundary bin, non-constant vector")
    run.assumptions += [
        "theorems are about the R instance of the model; the tie runs the float instance: model and C++ perform the same IEEE operations in the same order, so outputs are compared bit for bit",
        "atimes is modelled per grid point (case analysis on the position) rather than loop by loop; the tie compares every entry of the output on all region types (corners, edges, interior) for 2..6 points per dimension",
        "grids with a single point in a periodic dimension (width = period) are outside the tie for atimes: the C++ loops read outside the array there (see NOTES.md)",
    ]
    st = V.standard_start(run, PROP, EXTRACT, DRIVER, PROGS)
    if st is None:
        return
    model, exes = st
    unit = exes["c16unit"]

    # ---------------- 1-D
    cases = []
    cp = os.path.join(V.ROOT, "corpus", "C16_unit.txt")
    if os.path.exists(cp):
        cases += [l.strip() for l in open(cp) if l.strip() and not l.startswith("#")]
    cases.append(REFUTED_ONED)
    cases += [gen_oned(r) for _ in range(600 * scale)]
    # ---------------- divergence histories (+ a shuffled copy of each)
    dcases = [gen_div(r) for _ in range(350 * scale)]
    dlines = []
    for c in dcases:
        dlines.append(div_line(c))
        c2 = dict(c)
        ev = list(c["ev"])
        r.shuffle(ev)
        c2["ev"] = ev
        dlines.append(div_line(c2))
    # ---------------- Laplacian
    acases = [gen_atimes(r) for _ in range(300 * scale)]
    alines = []
    for c in acases:
        alines.append(atimes_line(c, c["x"]))
        alines.append(atimes_line(c, c["y"]))
    lines = cases + dlines + alines
    rc1, impl, e1 = V.run_lines(unit, lines)
    rc2, mod, e2 = V.run_lines(model, lines)
    if len(impl) != len(lines):
        k = len(impl)
        run.violation("unit:crash", "the C16 unit driver died (rc=%d) after %d of %d cases: %s" % (rc1, k, len(lines), e1[-300:]),
                      {"kind": "unit", "case": lines[k] if k < len(lines) else None})
        return
    if len(mod) != len(lines):
        raise V.InfraError("model driver answered %d of %d lines: %s" % (len(mod), len(lines), e2[-500:]))

    def tie(component, line, io, mo):
        a = [p for p in split_bar(io)]
        b = [p for p in split_bar(mo)]
        ok = len(a) == len(b) and all(pa[:1] == pb[:1] or k > 0 for k, (pa, pb) in enumerate(zip(a, b)))
        if ok:
            for k, (pa, pb) in enumerate(zip(a, b)):
                fa = parse_floats(pa[1:] if k == 0 else pa)
                fb = parse_floats(pb[1:] if k == 0 else pb)
                if not same(fa, fb):
                    ok = False
        if not ok:
            run.mismatch(component, line, io[:400], mo[:400])
        return ok

    pos = 0
    for c in cases:
        io, mo = impl[pos], mod[pos]
        pos += 1
        t = c.split()
        nontriv = int(t[6]) >= 2 and (t[1] == "1" or t[3] == "1")
        run.count(c, nontriv)
        run.dist("oned:per=%s,samples=%s,smoothed=%s" % (t[1], t[2], t[3]))
        tie("oned", c, io, mo)
        bad = oracle_oned(c, io)
        if bad:
            sig, txt = bad
            run.violation(sig, txt + " [case: %s -> %s]" % (c[:300], io[:300]), {"kind": "unit", "case": c, "impl": io})
    run.sample({"oned_case": cases[-1], "impl": impl[len(cases) - 1]})

    for k, c in enumerate(dcases):
        l1, l2 = dlines[2 * k], dlines[2 * k + 1]
        io1, io2, mo1, mo2 = impl[pos], impl[pos + 1], mod[pos], mod[pos + 1]
        pos += 2
        touches = sum(1 for b, f in c["ev"] if any(x in (0, n - 1) for x, n in zip(b, c["nxg"])))
        run.count(l1, len(c["ev"]) >= 2 and touches >= 1)
        run.count(l2, len(c["ev"]) >= 2 and touches >= 1)
        run.dist("div:nd=%d,per=%s" % (c["nd"], "".join(map(str, c["per"]))))
        run.dist("div:smoothed=%d" % c["sm"])
        run.dist("div:min_bins_per_dim=%d" % min(c["nxg"]))
        tie("div", l1, io1, mo1)
        tie("div", l2, io2, mo2)
        for (l, io) in ((l1, io1), (l2, io2)):
            p = split_bar(io)
            inc, bat = parse_floats(p[0][1:]), parse_floats(p[1])
            if not same(inc, bat):
                bad = [i for i, (x, y) in enumerate(zip(inc, bat)) if x != y]
                run.violation("div:incremental-vs-batch",
                              "divergence maintained by update_div_neighbors differs from set_div of the final gradients at flat "
                              "index(es) %s (incremental %s, batch %s) [case: %s]" % (bad[:6], [inc[i] for i in bad[:6]], [bat[i] for i in bad[:6]], l[:400]),
                              {"kind": "unit", "case": l, "impl": io})
        # order of arrival: the shuffled history gives the same divergence (dyadic forces: sums are exact)
        b1 = parse_floats(split_bar(io1)[1])
        i2 = parse_floats(split_bar(io2)[0][1:])
        if not same(b1, i2):
            run.violation("div:order-of-arrival", "the same arrivals in another order give another divergence [cases: %s // %s]" % (l1[:300], l2[:300]),
                          {"kind": "unit", "case": l1, "case2": l2, "impl": io1, "impl2": io2})
        # the divergence is the divergence of the final gradient data
        exp = div_oracle(c)
        if len(exp) != len(b1) or any(not close(x, float(y)) for x, y in zip(b1, exp)):
            run.violation("div:value", "set_div does not give the cell-averaged finite-difference divergence of the gradients: got %s expected %s [case: %s]"
                          % (b1[:8], [float(y) for y in exp[:8]], l1[:400]), {"kind": "unit", "case": l1, "impl": io1})
        if k == 0:
            run.sample({"div_case": l1, "impl": io1})

    for k, c in enumerate(acases):
        lx, ly = alines[2 * k], alines[2 * k + 1]
        iox, ioy, mox, moy = impl[pos], impl[pos + 1], mod[pos], mod[pos + 1]
        pos += 2
        run.count(lx, c["kind"] != "const")
        run.count(ly, c["kind"] != "const")
        run.dist("atimes:nd=%d,per=%s" % (c["nd"], "".join(map(str, c["per"]))))
        run.dist("atimes:min_points=%d" % min(c["nxp"]))
        tie("atimes", lx, iox, mox)
        tie("atimes", ly, ioy, moy)
        Lx, Ly = parse_floats(iox.split()[1:]), parse_floats(ioy.split()[1:])
        ex, ey = lap_oracle(c, c["x"]), lap_oracle(c, c["y"])
        for (l, io, got, exp) in ((lx, iox, Lx, ex), (ly, ioy, Ly, ey)):
            if len(got) != len(exp) or any(not close(g, float(e)) for g, e in zip(got, exp)):
                run.violation("atimes:stencil", "atimes is not the documented Laplacian stencil: got %s expected %s [case: %s]"
                              % (got[:9], [float(e) for e in exp[:9]], l[:400]), {"kind": "unit", "case": l, "impl": io})
        if len(Lx) == len(c["x"]) and len(Ly) == len(c["y"]):
            xAy = sum(fr(a) * fr(b) for a, b in zip(c["x"], Ly))
            Axy = sum(fr(a) * fr(b) for a, b in zip(Lx, c["y"]))
            ok = (xAy == Axy) if c["exact"] else close(float(xAy), float(Axy))
            if not ok:
                run.violation("atimes:symmetry", "<x,Ay> = %r but <Ax,y> = %r [cases: %s // %s]" % (float(xAy), float(Axy), lx[:300], ly[:300]),
                              {"kind": "unit", "case": lx, "case2": ly, "impl": iox, "impl2": ioy})
            if c["kind"] == "const" and c["exact"] and any(v != 0.0 for v in Lx):
                run.violation("atimes:kernel", "a constant field has a non-zero Laplacian %s [case: %s]" % (Lx[:9], lx[:300]),
                              {"kind": "unit", "case": lx, "impl": iox})
        if k == 0:
            run.sample({"atimes_case": lx, "impl": iox})

    # ---------------- residual certificate of the solver output (2-D / 3-D): A x = b to the tolerance
    scases = [gen_div(r, solve=True) for _ in range(40 * scale)]
    tol = 1e-6
    slines = [div_line(c, "SOLVE", " 2000 %s" % V.hexf(tol)) for c in scases]
    rc3, sol, e3 = V.run_lines(unit, slines)
    if len(sol) != len(slines):
        run.violation("unit:crash", "the C16 unit driver died in SOLVE (rc=%d): %s" % (rc3, e3[-300:]),
                      {"kind": "unit", "case": slines[len(sol)] if len(sol) < len(slines) else None})
        return
    qlines = []
    for c, so in zip(scases, sol):
        p = split_bar(so)
        nxp = [n if pe else n + 1 for n, pe in zip(c["nxg"], c["per"])]
        qlines.append("ATIMES %d %s %s %s %s" % (c["nd"], " ".join(map(str, c["per"])), " ".join(map(str, nxp)),
                                                 " ".join(map(V.hexf, c["w"])), " ".join(p[2])))
    rc4, lap, e4 = V.run_lines(model, qlines)
    nconv = 0
    for c, l, so, la in zip(scases, slines, sol, lap):
        p = split_bar(so)
        it, err = int(p[0][1]), float.fromhex(p[0][2])
        b = parse_floats(p[1])
        Ax = parse_floats(la.split()[1:])
        bn = math.sqrt(sum(x * x for x in b))
        rn = math.sqrt(sum((x - y) ** 2 for x, y in zip(Ax, b)))
        run.count(l, bn > 0)
        run.dist("solve:nd=%d" % c["nd"])
        conv = it < 2000
        nconv += conv
        if bn > 1e-14 and conv and not (rn <= 10 * tol * bn + 1e-12):
            run.violation("solve:residual", "integrate() returned after %d iterations (err=%g) but |A x - b| = %g > tol*|b| = %g [case: %s]"
                          % (it, err, rn, tol * bn, l[:400]), {"kind": "unit", "case": l, "impl": so[:2000]})
        if bn > 1e-14 and not conv:
            run.dist("solve:not-converged")
    run.sample({"solve_case": slines[0][:300], "impl": sol[0][:300]})
    run.cov["correspondence"].update({"oned_cases": len(cases), "div_cases": len(dlines), "atimes_cases": len(alines),
                                      "solve_cases": len(slines), "solve_converged": nconv})


def replay(path):
    j = json.load(open(path))
    rp = j["replay"]
    print(json.dumps(j, indent=1)[:3000])
    if rp.get("kind") == "unit":
        unit = V.build_prog("c16unit", PROGS["c16unit"])
        model = V.extract_model("C16", EXTRACT, DRIVER, ["ocaml/fops.ml"])
        for key in ("case", "case2"):
            if rp.get(key):
                print("case :", rp[key])
                print("impl :", V.run_lines(unit, [rp[key]])[1])
                if not rp[key].startswith("SOLVE"):
                    print("model:", V.run_lines(model, [rp[key]])[1])
    return 0
